#!/venv/bin/python
"""Failing inputs for the genuine defects found by the static checks (DESIGN.md section 5).

usage:  PYTHONPATH=<tree> /venv/bin/python /verif/fixes/demos.py [F1 F2 ...]
prints  <id> DEFECT <what was observed>   or   <id> ok
exit 1 if any selected demo reproduces its defect.  These programs EXECUTE the library; they are the
evidence that a static finding is a genuine defect (or, after the fix: commit, that it is repaired).
They are not part of any check registered in MANIFEST.json.
"""
import logging
import os
import sys
import tempfile
from pathlib import Path

logging.disable(logging.CRITICAL)

from pddl_plus_parser.lisp_parsers import DomainParser, ProblemParser, PDDLTokenizer, TrajectoryParser  # noqa: E402
from pddl_plus_parser.models import Operator, State, Domain  # noqa: E402

TMP = Path(tempfile.mkdtemp(prefix="verif_demo_"))

DOMAIN = """(define (domain d1)
(:requirements :typing :negative-preconditions :conditional-effects :fluents)
(:types top other - object mid - top sub - mid)
(:constants k - top)
(:predicates (p ?x - top) (q ?x - top) (r ?x - top ?y - top) (z))
(:functions (f ?x - top) (dist ?x - top ?y - top))
(:action a-when
 :parameters (?x - top)
 :precondition (and (p ?x))
 :effect (and (when (q ?x) (z))))
(:action a-fa-eff
 :parameters (?x - top)
 :precondition (and (p ?x))
 :effect (and (forall (?y - mid) (when (p ?y) (q ?y)))))
(:action a-num
 :parameters (?x - top ?y - top)
 :precondition (and (p ?x))
 :effect (and (increase (f ?x) 2) (when (p ?x) (assign (f ?y) (f ?x)))))
(:action a-inc
 :parameters (?x - top)
 :precondition (and (p ?x))
 :effect (and (increase (f ?x) 1)))
)"""
PROBLEM = """(define (problem p1) (:domain d1)
(:objects a b - top m - mid s - sub)
(:init (p a) (p s) (p m) (= (f a) 1) (= (f b) 10) (= (dist a b) 3))
(:goal (and (z))))"""


def write(name, text):
    p = TMP / name
    p.write_text(text)
    return p


def parse(dom=DOMAIN, prob=PROBLEM):
    d = DomainParser(write("d.pddl", dom)).parse_domain()
    p = ProblemParser(write("p.pddl", prob), d).parse_problem() if prob else None
    return d, p


def init_state(p):
    return State(p.initial_state_predicates, p.initial_state_fluents, is_init=True)


def facts(s):
    return sorted(x.untyped_representation for v in s.state_predicates.values() for x in v)


def F1():
    d, p = parse()
    s1 = Operator(d.actions["a-when"], d, ["a"], p.objects).apply(init_state(p))
    return "(z ) added although (q a) is false: " + str(facts(s1)) if any(x.startswith("(z") for x in facts(s1)) else None


def F2():
    before = set(Domain().types)
    from pddl_plus_parser.multi_agent import MultiAgentDomainsConverter
    d = TMP / "ma"
    d.mkdir(exist_ok=True)
    (d / "domain-a1.pddl").write_text(DOMAIN)
    MultiAgentDomainsConverter(d).locate_domains()
    after = set(Domain().types)
    return f"a fresh Domain() now has types {sorted(after)}" if after != before else None


def F3():
    d, p = parse()
    op = Operator(d.actions["a-inc"], d, ["a"], p.objects)
    s0 = init_state(p)
    s1 = op.apply(s0)
    v1 = s1.state_fluents["(f a)"].value
    op.apply(s1)
    v1_after = s1.state_fluents["(f a)"].value
    return f"s1[(f a)] changed from {v1} to {v1_after} when the operator was applied again" if v1 != v1_after else None


def F4():
    d, p = parse()
    sig_before = list(d.actions["a-fa-eff"].signature)
    Operator(d.actions["a-fa-eff"], d, ["a"], p.objects).apply(init_state(p))
    sig_after = list(d.actions["a-fa-eff"].signature)
    return f"action signature changed from {sig_before} to {sig_after}" if sig_before != sig_after else None


def F6():
    d, p = parse()
    s1 = Operator(d.actions["a-fa-eff"], d, ["a"], p.objects).apply(init_state(p))
    fs = facts(s1)
    return f"forall (?y - mid) skipped the object s of subtype sub: {fs}" if "(q s)" not in fs or "(q m)" not in fs else None


def F7():
    t = PDDLTokenizer(pddl_str="(a\tb)").parse()
    return f"'(a<TAB>b)' read as {t}" if t != ["a", "b"] else None


def F9():
    import subprocess
    env = dict(os.environ, NUMERIC_PRECISION="3")
    code = ("from pddl_plus_parser.models.numeric_symbolic_operations import simplify_complex_numeric_expression as s;"
            "print(s('((fuel ?x) * 1.23456)'))")
    r = subprocess.run([sys.executable, "-c", code], env=env, capture_output=True, text=True)
    return f"NUMERIC_PRECISION=3: {r.stderr.strip().splitlines()[-1]}" if r.returncode else None


def F10():
    d, _ = parse(prob=None)
    from pddl_plus_parser.models import Predicate
    pr = Predicate("r", {"?x": d.types["top"], "?y": d.types["top"]})
    pr.change_signature({"?x": "?y", "?y": "?x"})
    return f"(r ?x ?y) renamed by the swap became {pr.untyped_representation}" if list(pr.signature) != ["?y", "?x"] else None


def F11():
    d, _ = parse(DOMAIN.replace("(:constants k - top)", "(:constants k - top k2)"), None)
    out = []
    if "k2" not in d.constants:
        out.append("constant k2 of '(:constants k - top k2)' lost")
    _, p = parse(prob=PROBLEM.replace("(:objects a b - top m - mid s - sub)", "(:objects a b - top m - mid s - sub u)"))
    if "u" not in p.objects:
        out.append("object u of '(:objects ... s - sub u)' lost")
    return "; ".join(out) or None


def F12():
    d, _ = parse(DOMAIN.replace("(:types top other - object mid - top sub - mid)", "(:types sub - mid mid - top other leaf - newparent)").replace("(:constants k - top)", ""), None)
    out = []
    if not d.types["sub"].is_sub_type(d.types["top"]):
        out.append("sub - mid  mid - top  gives sub not<= top")
    if "newparent" not in d.types:
        out.append("parent named only on a right-hand side (newparent) is not a type")
    return "; ".join(out) or None


def F13():
    d, p = parse(prob=PROBLEM.replace("(= (dist a b) 3)", "(= (dist a a) 3)"))
    s = init_state(p)
    traj = write("t.trajectory", "(" + s.serialize() + "(operator: (a-inc a))\n" + s.serialize().replace(":init", ":state") + ")")
    obs = TrajectoryParser(d, p).parse_trajectory(traj)
    got = sorted(f.state_representation for f in obs.components[0].previous_state.state_fluents.values())
    return f"(= (dist a a) 3) read back as {got}" if "(= (dist a a) 3.0)" not in got else None


def F14():
    dom = DOMAIN.replace(":precondition (and (p ?x))\n :effect (and (increase (f ?x) 1))", ":precondition (not (p ?x))\n :effect (and (increase (f ?x) 1))")
    d, _ = parse(dom, None)
    txt = d.actions["a-inc"].preconditions.print(should_simplify=False).replace("\n", " ").replace("\t", " ")
    return f":precondition (not (p ?x)) parsed as {txt}" if "(not (p ?x))" not in txt else None


def F15():
    out = []
    dom = DOMAIN.replace(":precondition (and (p ?x))\n :effect (and (increase (f ?x) 1))", ":precondition (and (imply (p ?x) (q ?x)) (q ?x))\n :effect (and (increase (f ?x) 1))")
    try:
        d, _ = parse(dom, None)
        out.append("(and (imply ..) (q ?x)) parsed silently as " + d.actions["a-inc"].preconditions.print(should_simplify=False).replace("\n", " ").replace("\t", " "))
    except Exception:
        pass
    dom = DOMAIN.replace("(and (increase (f ?x) 1))", "(and (scale-up (f ?x) 2))")
    try:
        d, _ = parse(dom, None)
        out.append("effect (scale-up (f ?x) 2) dropped silently: " + d.actions["a-inc"].effects_to_pddl().replace("\n", " ").replace("\t", " "))
    except Exception:
        pass
    return "; ".join(out) or None


def F17():
    dom = DOMAIN.replace("(increase (f ?x) 1)", "(increase (f ?x) (+ (f ?x) 1 2))")
    try:
        d, _ = parse(dom, None)
    except Exception:
        return None
    return "n-ary (+ (f ?x) 1 2) accepted: " + [e.to_pddl() for e in d.actions["a-inc"].numeric_effects][0]


def F18():
    import subprocess
    code = f"""
import logging; logging.disable(logging.CRITICAL)
import sys; sys.path.insert(0, {str(Path(__file__).parent)!r})
import demos as D
d, p = D.parse()
s1 = D.Operator(d.actions['a-num'], d, ['a', 'b'], p.objects).apply(D.init_state(p))
print(s1.state_fluents['(f b)'].value)
"""
    vals = set()
    for seed in ("0", "1", "2", "3", "4", "5"):
        r = subprocess.run([sys.executable, "-c", code], env=dict(os.environ, PYTHONHASHSEED=seed), capture_output=True, text=True)
        vals.add(r.stdout.strip())
    return f"(assign (f b) (f a)) next to (increase (f a) 2): successor value of (f b) over hash seeds = {sorted(vals)} (PDDL: 1.0)" if vals != {"1.0"} else None


def F19():
    from pddl_plus_parser.models.numeric_symbolic_operations import simplify_complex_numeric_expression as s
    got = s("((fuel ?x) * 2.99999)", decimal_digits=2)
    return f"2.99999*(fuel ?x) at 2 digits printed as {got}" if "3" not in got else None


def F20():
    from pddl_plus_parser.exporters import MetricFFParser
    log = "ff: found legal plan as follows\nstep    0: PICK C D\n        1: DROP C D\n\ntime spent\n    0.00 seconds total time\n"
    got = MetricFFParser()._parse_plan_content(log)
    return f"trailer swallowed into the last step: {got}" if got != ["(pick c d)\n", "(drop c d)\n"] else None


def F21():
    from pddl_plus_parser.models.numerical_expression import COMPARISON_OPERATORS as C, EPSILON
    x, y = 1e6, 1e6 + 2 * EPSILON
    bad = [k for k in ("=", "<=", ">=") if C[k](x, y) != (k == "<=") or C[k](y, x) != (k == ">=")]
    return f"with EPSILON={EPSILON}: 1e6 and 1e6+2*EPSILON compare as equal under {bad}" if bad else None


def F22():
    from pddl_plus_parser.multi_agent.common import apply_actions
    from pddl_plus_parser.models import ActionCall
    import inspect
    d, p = parse()
    joint = [ActionCall("a-fa-eff", ["a"]), ActionCall("a-inc", ["a"])]
    kw = {"problem_objects": p.objects} if "problem_objects" in inspect.signature(apply_actions).parameters else {}
    s1 = apply_actions(d, init_state(p), joint, **kw)
    direct = Operator(d.actions["a-fa-eff"], d, ["a"], p.objects).apply(init_state(p))
    missing = sorted(set(facts(direct)) - set(facts(s1)))
    return f"joint action lost the forall effects of its member: {missing}" if missing else None


# ----------------------------------------------------------------------------- known findings (recorded, not repaired)
KDOMAIN = DOMAIN.replace("(:action a-inc", """(:action a-or
 :parameters (?x - top)
 :precondition (and (or (p ?x) (q ?x)))
 :effect (and (z)))
(:action a-forall
 :parameters (?x - top)
 :precondition (and (forall (?y - mid) (and (q ?y))))
 :effect (and (z)))
(:action a-rep
 :parameters (?x - top)
 :precondition (and (r ?x ?x))
 :effect (and (z)))
(:action a-cond
 :parameters (?x - top)
 :precondition (and (p ?x) (or (and (>= (f ?x) 0.123456)) (q ?x)))
 :effect (and (when (>= (f ?x) 0.123456) (z))))
(:action a-inc""")


def K1():
    d, p = parse(KDOMAIN)
    lit = [o for o in d.actions["a-rep"].preconditions.root.operands][0]
    out = []
    if len(lit.signature) != 2:
        out.append(f"(r ?x ?x) parsed as {lit.untyped_representation}")
    _, p2 = parse(KDOMAIN, PROBLEM.replace("(= (dist a b) 3)", "(= (dist a b) 3) (= (dist b b) 1)"))
    return "; ".join(out) or None


def K1b():
    dom = KDOMAIN.replace("(dist ?x - top ?y - top)", "(dist ?x - top ?y - top) (tri ?x - top ?y - top ?z - top)")
    d, p = parse(dom, PROBLEM.replace("(= (dist a b) 3)", "(= (tri a b a) 3)"))
    got = [f.state_representation for f in p.initial_state_fluents.values() if f.name == "tri"]
    return f"(= (tri a b a) 3) is stored / written back as {got}" if got != ["(= (tri a b a) 3.0)"] else None


def F23():
    """a well-typed fluent with a repeated argument is rejected: the argument types go through a dict keyed by the argument names"""
    dom = KDOMAIN.replace("(dist ?x - top ?y - top)", "(dist ?x - top ?y - top) (tri2 ?x - sub ?y - sub ?z - mid)")
    try:
        parse(dom, PROBLEM.replace("(= (dist a b) 3)", "(= (tri2 s s m) 3)"))
    except AssertionError:
        return "(= (tri2 s s m) 3) with (tri2 ?x - sub ?y - sub ?z - mid), s - sub, m - mid is rejected (AssertionError): positions shift when an argument repeats"
    return None


def K2():
    d, p = parse(KDOMAIN, PROBLEM.replace("(p a) ", ""))
    s0 = init_state(p)   # neither (p a) nor (q a) holds
    out = []
    if Operator(d.actions["a-or"], d, ["a"], p.objects).is_applicable(s0):
        out.append("(and (or (p a) (q a))) reported applicable although both disjuncts are false")
    if Operator(d.actions["a-forall"], d, ["a"], p.objects).is_applicable(s0):
        out.append("(forall (?y - mid) (q ?y)) reported applicable although (q m) is false")
    return "; ".join(out) or None


def K5():
    out = []
    for txt in ("(a b))", "(a b) (c d)"):
        try:
            out.append(f"{txt!r} accepted as {PDDLTokenizer(pddl_str=txt).parse()}")
        except Exception:
            pass
    return "; ".join(out) or None


def K7():
    from pddl_plus_parser.models.numeric_symbolic_operations import simplify_complex_numeric_expression as s
    out = []
    got = s("(1 / ((fuel ?x) * (fuel ?x)))")
    if "^" in got:
        out.append(f"1/(x*x) printed as {got}")
    got = s("((dist a bc) - (dist ab c))")
    if got.strip() == "0":
        out.append("(dist a bc) - (dist ab c) simplified to 0 (symbols merged)")
    try:
        s("((fuel ?x) / 2)")
    except Exception as e:
        out.append(f"x/2 raises {type(e).__name__}")
    return "; ".join(out) or None


def K8():
    d, _ = parse(KDOMAIN, None)
    a = d.actions["a-cond"]
    a.change_signature({"?x": "?renamed"})
    txt = " ".join(str(c) for c in a.conditional_effects).replace("\n", " ").replace("\t", " ")
    return f"after renaming ?x the conditional effect still reads {txt}" if "?x" in txt else None


def K9():
    d, _ = parse(KDOMAIN, None)
    from pddl_plus_parser.exporters import DomainExporter
    txt = DomainExporter().write_action(d.actions["a-cond"])
    return "should_simplify=False / default digits ignored for nested conditions: 0.123456 printed as " + \
        str([t for t in txt.replace(")", " ").split() if t.startswith("0.1")]) if "0.1235" not in txt else None


KNOWN = [K1, K1b, K2, K5, K7, K8, K9]
ALL = [F1, F2, F3, F4, F6, F7, F9, F10, F11, F12, F13, F14, F15, F17, F18, F19, F20, F21, F22, F23]


def main():
    want = sys.argv[1:]
    rc = 0
    for fn in ALL + (KNOWN if (want and any(w.startswith("K") for w in want)) else []):
        if want and fn.__name__ not in want:
            continue
        try:
            msg = fn()
        except Exception as e:  # a crash is also an observation
            msg = f"exception {type(e).__name__}: {e}"
        if msg:
            print(f"{fn.__name__} DEFECT {msg}")
            rc = 1
        else:
            print(f"{fn.__name__} ok")
    import shutil
    shutil.rmtree(TMP, ignore_errors=True)
    return rc


if __name__ == "__main__":
    sys.exit(main())
