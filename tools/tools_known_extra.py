def register(fixed, known):
    DP, EP, PP2 = "lisp_parsers.domain_parser", "lisp_parsers.effects_parser", "lisp_parsers.preconditions_parser"
    # ---- repaired after the first batch
    fixed("C01", "C01.leftover", DP, "DomainParser.parse_constants", "trailing-group:same_type_constants", "954aa46",
          "constants listed after the last '- type' group were dropped", "fixes/demos.py F11")
    fixed("C05", "C05.leftover", "lisp_parsers.problem_parser", "ProblemParser.parse_objects", "trailing-group:same_type_objects", "954aa46",
          "objects listed after the last '- type' group were dropped", "fixes/demos.py F11")
    fixed("C01", "C01.headstrip", DP, "DomainParser.parse_preconditions", "head-stripped:preconditions_ast", "ee266cf",
          "a single-condition / top-level-not precondition body lost its head: (p ?x) -> true, (not (p ?x)) -> (p ?x)", "fixes/demos.py F14")
    fixed("C01", "C01.nodrop", PP2, "PreconditionsParser.parse", "drop:precondition_node", "8cff7c9",
          "an unknown precondition node (imply, exists, ...) was logged and dropped together with every later sibling", "fixes/demos.py F15")
    fixed("C01", "C01.nodrop", EP, "EffectsParser.parse", "drop:effect_node", "8cff7c9",
          "an unknown effect node (scale-up, nested and, ...) was skipped silently", "fixes/demos.py F15")
    fixed("C01", "C01.arity", "models.numerical_expression", "construct_expression_tree", "arity:expression_ast[2]", "f3f424a",
          "n-ary arithmetic (+ a b c) silently lost c", "fixes/demos.py F17")
    for cls, mod in (("Predicate", "models.pddl_predicate"), ("PDDLFunction", "models.pddl_function"), ("Action", "models.pddl_action")):
        fixed("C18", "C18.simul", mod, f"{cls}.change_signature", "inplace-rename:self.signature", "1b25a12",
              "sequential pop/insert renaming lost parameters for overlapping maps such as a swap", "fixes/demos.py F10")
    fixed("C11", "C11.pipeline", "lisp_parsers.pddl_tokenizer", "PDDLTokenizer.__init__", "deletes-separator:'\\t'", "e72f96a",
          "string mode deleted tabs and merged the neighbouring tokens", "fixes/demos.py F7")
    fixed("C19", "C19.regex", "exporters.ff_output_parser", "PLAN_COMPONENT_REGEX", "group-matches-newline", "527a4b7",
          "\\s inside the step capture group swallowed a following log line into the last step", "fixes/demos.py F20")
    for k in ("objects-unknown", "objects-known"):
        fixed("C10", "C10.siblings", "lisp_parsers.trajectory_parser", "TrajectoryParser.parse_grounded_numeric_fluent", f"sibling-obligation:repeats:{k}", "575ebff",
              "the trajectory reader had no repeated-argument bookkeeping: (= (dist c0 c0) 1) came back as (dist c0)", "fixes/demos.py F13")
    fixed("C13", "C13.round", "models.numeric_symbolic_operations", "extract_atom", "truncation-under-round-guard", "9c46f5c",
          "int(x) under a round(x, d).is_integer() guard truncated 2.99999 to 2", "fixes/demos.py F19")

    # ---- recorded, not repaired
    kf1 = ("SignatureType = Dict[str, PDDLType] keys argument lists by name: inherent to the public data model; a repair changes the type of "
           "Predicate.signature / PDDLFunction.signature for every user of the library")
    known("C01", "C01.dupkeys", "lisp_parsers.parsing_utils", "parse_untyped_predicate", "dict-key:untyped_predicate",
          "(r ?x ?x) is stored as the unary (r ?x)", kf1, "fixes/demos.py K1")
    known("C01", "C01.dupkeys", "models.numerical_expression", "construct_expression_tree", "dict-key:expression_ast",
          "(dist ?a ?a) inside a numeric expression is stored as (dist ?a)", kf1, "fixes/demos.py K1")
    for prop, rule in (("C05", "C05.dupkeys"), ("C09", "C09.dupkeys")):
        known(prop, rule, "lisp_parsers.problem_parser", "ProblemParser.parse_grounded_numeric_fluent", "dict-key-position:grounded_numeric_fluent",
              "(= (f a b a) v) keeps the multiplicity but not the positions of a repeated argument: written back as (f a a b)", kf1, "fixes/demos.py K1b")
    known("C10", "C10.dupkeys", "lisp_parsers.trajectory_parser", "TrajectoryParser.parse_grounded_numeric_fluent", "dict-key-position:grounded_numeric_fluent",
          "same as the problem parser (after the fix that added the bookkeeping)", kf1, "fixes/demos.py K1b")
    known("C20", "C20.dupkeys", "models.grounding_utils", "ground_numeric_calculation_tree", "dict-key:parameters_map",
          "a call with a repeated object grounds (dist ?a ?b) to (dist c0)", kf1, "fixes/demos.py K1")
    kf2 = ("repairing it means rewriting the condition evaluator (attach nested / universal conditions, operator identities, arm order, nested "
           "quantifier grounding) -- one coherent rewrite of ~100 lines, not a small patch")
    GP = "models.grounded_precondition"
    for prop, rule in (("C02", "C02.translate"), ("C20", "C20.translate")):
        known(prop, rule, GP, "GroundedPrecondition.ground_preconditions", "arm:Precondition",
              "a nested and/or condition is grounded and then dropped: (and (or (p ?x) (q ?x))) is applicable with both false", kf2, "fixes/demos.py K2")
        known(prop, rule, GP, "GroundedPrecondition.ground_preconditions", "arm:UniversalPrecondition",
              "a forall precondition is never attached to the grounded precondition: it is ignored", kf2, "fixes/demos.py K2")
        known(prop, rule, GP, "GroundedPrecondition.is_applicable", "forall-arm:else:Precondition",
              "nested conditions inside a forall body are skipped (latent: unreachable while the forall itself is ignored)", kf2)
        known(prop, rule, GP, "GroundedPrecondition.is_applicable", "forall-arm:else:UniversalPrecondition",
              "nested quantifiers inside a forall body are skipped (latent)", kf2)
    known("C02", "C02.foldid", GP, "GroundedPrecondition.is_applicable", "fold-init:or:compound",
          "the and/or fold starts from True for both operators: an `or` node is true whatever its disjuncts are", kf2, "fixes/demos.py K2")
    known("C02", "C02.foldid", GP, "GroundedPrecondition.is_applicable", "fold-init:or:forall", "same fold in the quantifier evaluator (latent)", kf2)
    known("C11", "C11.eof", "lisp_parsers.pddl_tokenizer", "PDDLTokenizer.parse", "missing:end-of-input-check",
          "'(a b))' and '(a b) (c d)' are accepted and the tail is ignored",
          "three tests of the repository's wider suite (domain_parser_test x2, numerical_expression_test x1) feed text with surplus closing "
          "parentheses; adding the check fails them, and the tests may not be edited", "fixes/demos.py K5")
    kf7 = "the repairs change the canonical output strings that the 16 pinned simplifier tests pin down, and need a redesign of the symbol naming / power printing"
    NS = "models.numeric_symbolic_operations"
    known("C13", "C13.vocab", NS, "SYMPY_OP_TO_PDDL_OP", "table-value:Pow", "powers other than -1 and >1 are printed with '^': 1/(x*x) -> (^ (fuel ?x) -2)", kf7, "fixes/demos.py K7")
    known("C13", "C13.mangle", NS, "transform_expression", "symbol-name:deletes:-/<whitespace>",
          "(dist a bc) and (dist ab c) become one sympy symbol: their difference simplifies to 0", kf7, "fixes/demos.py K7")
    known("C13", "C13.atoms", NS, "extract_atom", "atom-class:Rational", "x/3 raises KeyError (Rational is not handled)", kf7, "fixes/demos.py K7")
    known("C13", "C13.atoms", NS, "extract_atom", "atom-class:Half", "x/2 raises KeyError (Half is not handled)", kf7, "fixes/demos.py K7")
    kf8 = "needs new change_signature methods on ConditionalEffect, UniversalEffect and a recursion through nested conditions (the source carries a TODO for it)"
    known("C18", "C18.fields", "models.pddl_action", "Action.change_signature", "field:conditional_effects", "conditional effects keep the old parameter names", kf8, "fixes/demos.py K8")
    known("C18", "C18.fields", "models.pddl_action", "Action.change_signature", "field:universal_effects", "universal effects keep the old parameter names", kf8, "fixes/demos.py K8")
    known("C18", "C18.pairs", "models.pddl_precondition", "Precondition.change_signature", "nested-pairs", "(in)equality pairs of nested conditions keep the old names", kf8)
    kf9 = "needs print-option parameters on ConditionalEffect / UniversalEffect / UniversalPrecondition printers and on Action.effects_to_pddl"
    known("C08", "C08.options", "models.pddl_precondition", "Precondition.print", "call:str(operand)",
          "a nested condition is printed simplified at 2 digits although the exporter asked for unsimplified text", kf9, "fixes/demos.py K9")
    known("C08", "C08.options", "models.conditional_effect", "ConditionalEffect.__str__", "call:str(self.antecedents)", "antecedents of a when-effect are printed simplified at 2 digits", kf9, "fixes/demos.py K9")
    known("C08", "C08.options", "models.pddl_precondition", "UniversalPrecondition.__str__", "call:super()._print_self()", "the body of a forall precondition is printed simplified at 2 digits", kf9)
