def register(fixed, known):
    pass
