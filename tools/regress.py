#!/venv/bin/python
"""Regression harness for the checkers (development tool, uses scratch copies outside /repo and /verif):

  * every seeded change under /verif/seeded must be reported as a NEW finding by the check of its own property
  * every behaviour-preserving refactoring under /verif/benign must leave all 20 checks unchanged (no new finding, no vanished
    known finding, no ANALYSIS-ERROR)

usage: regress.py [--seeded] [--benign] [--only <substring>] [--jobs 16] [--props C01,C02]
"""
import argparse
import json
import os
import shutil
import subprocess
import sys
import tempfile
from concurrent.futures import ProcessPoolExecutor

PY = "/venv/bin/python"
VERIF = os.path.dirname(os.path.dirname(os.path.abspath(__file__)))
ALL = [f"C{i:02d}" for i in range(1, 21)]


def run_check(prop, root):
    try:
        p = subprocess.run([PY, os.path.join(VERIF, "check"), prop, "--root", root, "--no-evidence", "--json"], capture_output=True, text=True, timeout=240)
    except subprocess.TimeoutExpired:
        return 2, [], f"ANALYSIS-ERROR property={prop} timeout after 240 s"
    finds = []
    for line in p.stdout.splitlines():
        if line.startswith("FINDING-JSON "):
            d = json.loads(line[len("FINDING-JSON "):])
            finds.append((d["rule"], d["module"], d["function"], d["role"]))
    last = p.stdout.strip().splitlines()[-1] if p.stdout.strip() else ""
    err = next((l for l in p.stdout.splitlines() if "ANALYSIS-ERROR" in l), "")
    return p.returncode, finds, err[:300]


# corpus patches were written against the tree of their time; when a later `fix:` commit touched the same lines they are
# evaluated on the tree they were written for (findings are compared with the baseline of THAT tree)
OLDER_BASES = ["9c46f5c"]

# documented, accepted outcomes (DESIGN.md 14.3.1 and 18): one benign refactoring that makes a latent known finding vanish, and the three
# fresh defects of the last seeding round that the checks do not report under their own property
ACCEPTED = {"B3-C02-1": "CHANGED", "S6-C02-2": "MISSED", "S6-C11-1": "MISSED", "S6-C13-1": "MISSED"}


def tree_of(base):
    tmp = tempfile.mkdtemp(prefix="verif_rg_")
    if base == "HEAD":
        shutil.copytree("/repo/pddl_plus_parser", os.path.join(tmp, "pddl_plus_parser"))
    else:
        ar = subprocess.run(["git", "-C", "/repo", "archive", base, "pddl_plus_parser"], capture_output=True, check=True)
        subprocess.run(["tar", "-x", "-C", tmp], input=ar.stdout, check=True)
    return tmp


def scratch(patch):
    err = ""
    for base in ["HEAD"] + OLDER_BASES:
        tmp = tree_of(base)
        r = subprocess.run(["git", "apply", "--whitespace=nowarn", patch], cwd=tmp, capture_output=True, text=True)
        if r.returncode == 0:
            return tmp, base
        err = r.stderr[:200]
        shutil.rmtree(tmp, ignore_errors=True)
    return None, err


_base_cache = {}


def baseline_of(base):
    if base not in _base_cache:
        tmp = tree_of(base)
        try:
            _base_cache[base] = {p: run_check(p, tmp)[1] for p in ALL}
        finally:
            shutil.rmtree(tmp, ignore_errors=True)
    return _base_cache[base]


def job(args):
    kind, name, patch, props, baseline = args
    tmp, err = scratch(patch)
    if tmp is None:
        return name, "PATCH-FAILS", err
    if err != "HEAD":
        baseline = {p: (baseline_of(err)[p] if p in props else baseline[p]) for p in baseline}
    try:
        msgs = []
        status = "ok"
        caught = False
        for prop in props:
            rc, finds, aerr = run_check(prop, tmp)
            base = baseline[prop]
            new = [f for f in finds if f not in base]
            gone = [f for f in base if f not in finds]
            if kind == "seeded":
                if new:
                    caught = True
                    msgs.append(f"{prop}:{new[0][0]}")
                elif rc == 2:
                    msgs.append(f"{prop}:ANALYSIS-ERROR {aerr}")
            else:
                if rc == 2:
                    status = "ANALYSIS-ERROR"
                    msgs.append(f"{prop}: {aerr}")
                elif new:
                    status = "FALSE-ALARM" if status == "ok" else status
                    msgs.append(f"{prop}: new {[(f[0], f[2], f[3]) for f in new][:3]}")
                elif gone:
                    status = "CHANGED" if status == "ok" else status
                    msgs.append(f"{prop}: vanished {[(f[0], f[3]) for f in gone][:3]}")
        if kind == "seeded":
            status = "ok" if caught else "MISSED"
        return name, status, "; ".join(msgs)[:600]
    finally:
        shutil.rmtree(tmp, ignore_errors=True)


def main():
    ap = argparse.ArgumentParser()
    ap.add_argument("--seeded", action="store_true")
    ap.add_argument("--benign", action="store_true")
    ap.add_argument("--only", default=None)
    ap.add_argument("--jobs", type=int, default=16)
    ap.add_argument("--props", default=None, help="benign: restrict the checks that are run")
    args = ap.parse_args()
    if not args.seeded and not args.benign:
        args.seeded = args.benign = True
    with ProcessPoolExecutor(args.jobs) as ex:
        res = list(ex.map(run_check, ALL, ["/repo"] * len(ALL)))
    baseline = {}
    for p, (rc, finds, err) in zip(ALL, res):
        if rc == 2:
            print(f"baseline {p}: {err}")
            return 2
        baseline[p] = finds
    jobs = []
    if args.seeded:
        for d in sorted(os.listdir(os.path.join(VERIF, "seeded"))):
            pd = os.path.join(VERIF, "seeded", d, "patch.diff")
            if os.path.isfile(pd) and (not args.only or args.only in d):
                prop = d.split("-")[1]
                jobs.append(("seeded", d, pd, [prop], baseline))
    if args.benign:
        bdir = os.path.join(VERIF, "benign")
        for d in sorted(os.listdir(bdir)) if os.path.isdir(bdir) else []:
            pd = os.path.join(bdir, d, "patch.diff")
            if os.path.isfile(pd) and (not args.only or args.only in d):
                jobs.append(("benign", d, pd, args.props.split(",") if args.props else ALL, baseline))
    bad = 0
    with ProcessPoolExecutor(args.jobs) as ex:
        for name, status, msg in ex.map(job, jobs):
            if status != "ok" and ACCEPTED.get(name) == status:
                status, msg = "accepted", f"{ACCEPTED[name]}: {msg} (documented in DESIGN.md 14.3.1 / 18)"
            flag = "" if status in ("ok", "accepted") else "   <<<<"
            if status not in ("ok", "accepted"):
                bad += 1
            print(f"{status:15s} {name:14s} {msg}{flag}")
    print(f"== regress: {len(jobs) - bad}/{len(jobs)} as expected")
    return 1 if bad else 0


if __name__ == "__main__":
    sys.exit(main())
