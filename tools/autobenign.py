#!/venv/bin/python
"""Silence probe (development tool): mechanical BEHAVIOUR-PRESERVING rewrites of the anchored functions -- every check that anchors the
function must report exactly what it reports on the unchanged tree.  Counterpart of tools/automutate.py.

Rewrites (each applied to one function at a time, on a scratch copy outside /repo and /verif):
  REN   every local variable (not parameters, not names declared global / nonlocal, not names used in nested functions) gets the suffix _r
  SWAP  every `if c: A else: B` with a non-empty else and no elif becomes `if not c: B else: A`
  TMP   every `return E` (E not a constant / name) becomes `result_value = E; return result_value`
  NOT   `len(x) == 0` -> `not x` and `len(x) > 0` / `len(x) != 0` -> `bool(x)` in tests (x a plain name)
  PASS  a `pass` is put in front of every statement of the body (statement positions shift, structure unchanged)

usage: autobenign.py [--props C03,C05] [--jobs 8] [--out /tmp/autoben.json]
"""
import argparse
import ast
import json
import os
import shutil
import sys
import tempfile
from concurrent.futures import ProcessPoolExecutor

sys.path.insert(0, os.path.dirname(os.path.abspath(__file__)))
import automutate as A  # noqa: E402
import regress as R  # noqa: E402


def locals_of(fn):
    params = {a.arg for a in fn.args.posonlyargs + fn.args.args + fn.args.kwonlyargs}
    if fn.args.vararg:
        params.add(fn.args.vararg.arg)
    if fn.args.kwarg:
        params.add(fn.args.kwarg.arg)
    banned = set(params)
    for n in ast.walk(fn):
        if isinstance(n, (ast.Global, ast.Nonlocal)):
            banned |= set(n.names)
        if n is not fn and isinstance(n, (ast.FunctionDef, ast.AsyncFunctionDef, ast.Lambda, ast.ClassDef)):
            banned |= {x.id for x in ast.walk(n) if isinstance(x, ast.Name)}
    stored = {n.id for n in ast.walk(fn) if isinstance(n, ast.Name) and isinstance(n.ctx, (ast.Store, ast.Del))}
    return stored - banned


def rewrite(fn, kind) -> bool:
    changed = False
    if kind == "REN":
        names = locals_of(fn)
        for n in ast.walk(fn):
            if isinstance(n, ast.Name) and n.id in names:
                n.id += "_r"
                changed = True
            if isinstance(n, ast.ExceptHandler) and n.name in names:
                n.name += "_r"
    elif kind == "SWAP":
        for n in ast.walk(fn):
            if isinstance(n, ast.If) and n.orelse and not (len(n.orelse) == 1 and isinstance(n.orelse[0], ast.If)):
                n.test = ast.UnaryOp(op=ast.Not(), operand=n.test)
                n.body, n.orelse = n.orelse, n.body
                changed = True
    elif kind == "TMP":
        class T(ast.NodeTransformer):
            def visit_FunctionDef(self, n):
                if n is fn:
                    self.generic_visit(n)
                return n
            visit_AsyncFunctionDef = visit_Lambda = visit_FunctionDef

            def visit_Return(self, r):
                nonlocal changed
                if r.value is None or isinstance(r.value, (ast.Constant, ast.Name)):
                    return r
                changed = True
                return [ast.copy_location(ast.Assign(targets=[ast.Name(id="result_value", ctx=ast.Store())], value=r.value, lineno=r.lineno), r),
                        ast.copy_location(ast.Return(value=ast.Name(id="result_value", ctx=ast.Load())), r)]
        if any(isinstance(x, (ast.Yield, ast.YieldFrom)) for x in ast.walk(fn)):
            return False
        T().visit(fn)
    elif kind == "NOT":
        class T2(ast.NodeTransformer):
            def visit_Compare(self, c):
                nonlocal changed
                self.generic_visit(c)
                if len(c.ops) == 1 and isinstance(c.left, ast.Call) and isinstance(c.left.func, ast.Name) and c.left.func.id == "len" and len(c.left.args) == 1 \
                        and isinstance(c.left.args[0], ast.Name) and isinstance(c.comparators[0], ast.Constant) and c.comparators[0].value == 0:
                    if isinstance(c.ops[0], ast.Eq):
                        changed = True
                        return ast.copy_location(ast.UnaryOp(op=ast.Not(), operand=c.left.args[0]), c)
                    if isinstance(c.ops[0], (ast.Gt, ast.NotEq)):
                        changed = True
                        return ast.copy_location(ast.Call(func=ast.Name(id="bool", ctx=ast.Load()), args=[c.left.args[0]], keywords=[]), c)
                return c
        T2().visit(fn)
    elif kind == "ELSE":
        # `if c: ..; return` followed by REST  ->  `if c: ..; return` `else: REST`
        for n in ast.walk(fn):
            for fld in ("body", "orelse", "finalbody"):
                b = getattr(n, fld, None)
                if not (isinstance(b, list) and b and isinstance(b[0], ast.stmt)) or isinstance(n, ast.ClassDef):
                    continue
                for i, st in enumerate(b[:-1]):
                    if isinstance(st, ast.If) and not st.orelse and isinstance(st.body[-1], (ast.Return, ast.Raise, ast.Continue, ast.Break)):
                        st.orelse = b[i + 1:]
                        del b[i + 1:]
                        changed = True
                        break
    elif kind == "UNELSE":
        # `if c: ..; return` `else: REST`  ->  `if c: ..; return` ; REST
        for n in ast.walk(fn):
            for fld in ("body", "orelse", "finalbody"):
                b = getattr(n, fld, None)
                if not (isinstance(b, list) and b and isinstance(b[0], ast.stmt)) or isinstance(n, ast.ClassDef):
                    continue
                for i, st in enumerate(list(b)):
                    if isinstance(st, ast.If) and st.orelse and isinstance(st.body[-1], (ast.Return, ast.Raise, ast.Continue, ast.Break)) \
                            and not (len(st.orelse) == 1 and isinstance(st.orelse[0], ast.If) and False):
                        rest = st.orelse
                        st.orelse = []
                        b[i + 1:i + 1] = rest
                        changed = True
                        break
    elif kind == "COMP2LOOP":
        used = {x.id for x in ast.walk(fn) if isinstance(x, ast.Name)}
        for n in ast.walk(fn):
            for fld in ("body", "orelse", "finalbody"):
                b = getattr(n, fld, None)
                if not (isinstance(b, list) and b and isinstance(b[0], ast.stmt)) or isinstance(n, ast.ClassDef):
                    continue
                for i, st in enumerate(list(b)):
                    tgt = st.targets[0] if isinstance(st, ast.Assign) and len(st.targets) == 1 else st.target if isinstance(st, ast.AnnAssign) else None
                    v = getattr(st, "value", None)
                    if not (isinstance(tgt, ast.Name) and isinstance(v, (ast.ListComp, ast.SetComp, ast.DictComp))):
                        continue
                    if any(isinstance(x, ast.Name) and x.id == tgt.id for x in ast.walk(v)):
                        continue
                    cvars = [x.id for g_ in v.generators for x in ast.walk(g_.target) if isinstance(x, ast.Name)]
                    if any(sum(1 for y in ast.walk(fn) if isinstance(y, ast.Name) and y.id == c and not any(y is z for z in ast.walk(v))) for c in cvars):
                        continue        # the comprehension variable's name is used elsewhere in the function
                    if isinstance(v, ast.DictComp):
                        init = ast.Dict(keys=[], values=[])
                        leaf = ast.Assign(targets=[ast.Subscript(value=ast.Name(id=tgt.id, ctx=ast.Load()), slice=v.key, ctx=ast.Store())], value=v.value, lineno=st.lineno)
                    elif isinstance(v, ast.SetComp):
                        init = ast.Call(func=ast.Name(id="set", ctx=ast.Load()), args=[], keywords=[])
                        leaf = ast.Expr(value=ast.Call(func=ast.Attribute(value=ast.Name(id=tgt.id, ctx=ast.Load()), attr="add", ctx=ast.Load()), args=[v.elt], keywords=[]))
                    else:
                        init = ast.List(elts=[], ctx=ast.Load())
                        leaf = ast.Expr(value=ast.Call(func=ast.Attribute(value=ast.Name(id=tgt.id, ctx=ast.Load()), attr="append", ctx=ast.Load()), args=[v.elt], keywords=[]))
                    body = [leaf]
                    for g_ in reversed(v.generators):
                        for c in reversed(g_.ifs):
                            body = [ast.If(test=c, body=body, orelse=[])]
                        body = [ast.For(target=g_.target, iter=g_.iter, body=body, orelse=[], lineno=st.lineno)]
                    st.value = init
                    b[i + 1:i + 1] = body
                    changed = True
                    break
    elif kind == "PASS":
        for n in ast.walk(fn):
            for fld in ("body", "orelse", "finalbody"):
                b = getattr(n, fld, None)
                if isinstance(b, list) and b and isinstance(b[0], ast.stmt) and not isinstance(n, ast.ClassDef):
                    start = 1 if (n is fn and isinstance(b[0], ast.Expr) and isinstance(b[0].value, ast.Constant)) else 0
                    new = b[:start]
                    for st in b[start:]:
                        new.append(ast.copy_location(ast.Pass(), st))
                        new.append(st)
                    setattr(n, fld, new)
                    changed = True
    return changed


def job(args):
    path, qn, kind, props, baselines = args
    tmp = tempfile.mkdtemp(prefix="verif_ab_")
    try:
        shutil.copytree("/repo/pddl_plus_parser", os.path.join(tmp, "pddl_plus_parser"))
        full = os.path.join(tmp, path)
        tree = ast.parse(open(full).read())
        fn = A.find_current(tree, qn)
        if fn is None or not isinstance(fn, (ast.FunctionDef, ast.AsyncFunctionDef)) or not rewrite(fn, kind):
            return None
        ast.fix_missing_locations(tree)
        src = ast.unparse(tree)
        compile(src, full, "exec")
        open(full, "w").write(src + "\n")
        bad = []
        for prop in props:
            rc, finds, aerr = R.run_check(prop, tmp)
            base = baselines[prop]
            new = [f for f in finds if f not in base]
            gone = [f for f in base if f not in finds]
            if rc == 2:
                bad.append(f"{prop}: {aerr[:160]}")
            elif new:
                bad.append(f"{prop}: new {[(f[0], f[3]) for f in new][:2]}")
            elif gone:
                bad.append(f"{prop}: vanished {[(f[0], f[3]) for f in gone][:2]}")
        return dict(file=path, fn=qn, kind=kind, props=props, bad=bad)
    finally:
        shutil.rmtree(tmp, ignore_errors=True)


def main():
    ap = argparse.ArgumentParser()
    ap.add_argument("--props", default=None)
    ap.add_argument("--jobs", type=int, default=8)
    ap.add_argument("--out", default="/tmp/autoben.json")
    ap.add_argument("--all-functions", action="store_true", help="every function of the files a property lists, not only the anchored ranges")
    ap.add_argument("--kinds", default="REN,SWAP,TMP,NOT,PASS,ELSE,UNELSE,COMP2LOOP")
    args = ap.parse_args()
    props = [json.loads(l) for l in open(os.path.join(R.VERIF, "properties.jsonl"))]
    want = set(args.props.split(",")) if args.props else None
    fns = {}
    for p in props:
        if want and p["id"] not in want:
            continue
        for path, a, b in A.anchors(p):
            for qn in A.functions_at_base(path, a, b):
                if not qn.startswith("="):
                    fns.setdefault((path, qn), set()).add(p["id"])
        if args.all_functions:
            for path in p["anchors"].get("files", []):
                full = os.path.join("/repo", path)
                if not os.path.exists(full):
                    continue
                tree = ast.parse(open(full).read())

                def walk(body, prefix):
                    for n in body:
                        if isinstance(n, ast.ClassDef):
                            walk(n.body, prefix + n.name + ".")
                        elif isinstance(n, (ast.FunctionDef, ast.AsyncFunctionDef)):
                            fns.setdefault((path, prefix + n.name), set()).add(p["id"])
                walk(tree.body, "")
    used = sorted({x for v in fns.values() for x in v})
    with ProcessPoolExecutor(args.jobs) as ex:
        baselines = dict(zip(used, [r[1] for r in ex.map(R.run_check, used, ["/repo"] * len(used))]))
    jobs = [(path, qn, kind, sorted(ps), baselines) for (path, qn), ps in sorted(fns.items()) for kind in args.kinds.split(",")]
    print(f"{len(jobs)} variants of {len(fns)} functions", flush=True)
    res = []
    with ProcessPoolExecutor(args.jobs) as ex:
        for r in ex.map(job, jobs, chunksize=2):
            if r:
                res.append(r)
                if r["bad"]:
                    print("NOT-SILENT", r["kind"], r["file"].split("/")[-1] + "::" + r["fn"], "; ".join(r["bad"])[:400], flush=True)
    json.dump(res, open(args.out, "w"), indent=1)
    print(f"== autobenign: {sum(1 for r in res if not r['bad'])}/{len(res)} silent")
    return 0


if __name__ == "__main__":
    sys.exit(main())
