#!/bin/bash
# usage: tools/tryb.sh <benign-or-seeded dir name> <PROP> [extra check args]   -- runs one check on a scratch copy with the patch applied
set -e
name=$1; prop=$2; shift 2
d=/verif/benign/$name; [ -d $d ] || d=/verif/seeded/$name
tmp=$(mktemp -d /tmp/verif_try_XXXX)
cp -r /repo/pddl_plus_parser $tmp/
(cd $tmp && git apply --whitespace=nowarn $d/patch.diff)
/venv/bin/python /verif/check $prop --root $tmp --no-evidence "$@" | grep -v "^  rule.*-> ok" || true
if [ -n "$KEEP" ]; then echo "kept $tmp"; else rm -rf $tmp; fi
