#!/bin/bash
# usage: tools/tryb.sh <benign-or-seeded dir name> <PROP> [extra check args]   -- runs one check on a scratch copy with the patch applied
# (a patch written before a later fix: commit is applied to the tree it was written for)
name=$1; prop=$2; shift 2
d=/verif/benign/$name; [ -d $d ] || d=/verif/seeded/$name
tmp=$(mktemp -d /tmp/verif_try_XXXX)
cp -r /repo/pddl_plus_parser $tmp/
if ! (cd $tmp && git apply --whitespace=nowarn $d/patch.diff 2>/dev/null); then
  rm -rf $tmp/pddl_plus_parser
  for base in 9c46f5c; do
    git -C /repo archive $base pddl_plus_parser | tar -x -C $tmp
    if (cd $tmp && git apply --whitespace=nowarn $d/patch.diff 2>/dev/null); then echo "(applied on base $base)"; break; fi
    rm -rf $tmp/pddl_plus_parser
  done
fi
[ -d $tmp/pddl_plus_parser ] || { echo "patch does not apply"; rm -rf $tmp; exit 2; }
/venv/bin/python /verif/check $prop --root $tmp --no-evidence "$@" | grep -v "^  rule.*-> ok" || true
if [ -n "$KEEP" ]; then echo "kept $tmp"; else rm -rf $tmp; fi
