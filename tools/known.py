#!/venv/bin/python
"""Writes /verif/known_findings.json from the table below (the file is never written at check time)."""
import json, os
HERE = os.path.dirname(os.path.abspath(__file__))
F = []


def fixed(prop, rule, module, function, role, commit, what, demo):
    F.append(dict(property=prop, rule=rule, module=module, function=function, role=role, status="fixed", commit=commit,
                  what=what, demonstration=demo,
                  line=f"fixed: property={prop} {commit} {what}"))


def known(prop, rule, module, function, role, what, why_not_fixed, demo=""):
    F.append(dict(property=prop, rule=rule, module=module, function=function, role=role, status="known", what=what,
                  why_not_repaired=why_not_fixed, demonstration=demo))


OP, GE, GP = "models.pddl_operator", "models.grounded_effect", "models.grounded_precondition"
fixed("C03", "C03.antecedent", OP, "Operator.apply", "guard:effect.apply", "f34f87c",
      "conditional effects fired although their antecedents were false (guard `not not skip_validation and not hold`)", "fixes/demos.py F1")
fixed("C07", "C07.global", "multi_agent.multi_agent_domain_converter", "MultiAgentDomainsConverter.locate_domains", "write:global:DEFAULT_TYPES", "7ace68e",
      "Domain.types aliased the module-level DEFAULT_TYPES; locate_domains updated it in place", "fixes/demos.py F2")
fixed("C17", "C17.global", "multi_agent.multi_agent_domain_converter", "MultiAgentDomainsConverter.locate_domains", "write:global:DEFAULT_TYPES", "7ace68e",
      "combining agent domains leaked their types into every later Domain()", "fixes/demos.py F2")
fixed("C07", "C07.escape", GE, "GroundedEffect.apply", "escape:self.grounded_numeric_effects[].root.children[].value->param:state.state_fluents", "7b31008",
      "the successor state stored the operator's own fluent object; re-applying the operator rewrote earlier results", "fixes/demos.py F3")
fixed("C03", "C03.escape", GE, "GroundedEffect.apply", "escape:self.grounded_numeric_effects[].root.children[].value->param:state.state_fluents", "7b31008",
      "same defect seen from C03", "fixes/demos.py F3")
fixed("C07", "C07.write", OP, "Operator._apply_universal_effects", "write:self.action.signature", "69dbcb2",
      "the quantified parameter was inserted into the shared action signature (and left there on the continue path)", "fixes/demos.py F4")
fixed("C07", "C07.write", GP, "GroundedPrecondition._ground_universal_condition", "write:self.action.signature", "69dbcb2",
      "the quantified parameter was written through an alias of the action signature (latent: dead code today)", "fixes/demos.py F4")
fixed("C06", "C06.conform", OP, "Operator._apply_universal_effects", "type-equality", "3b5ddc6",
      "forall effects compared type names for equality: objects of subtypes skipped", "fixes/demos.py F6")
fixed("C06", "C06.conform", GP, "GroundedPrecondition._validate_universal_precondition", "type-equality", "3b5ddc6",
      "forall preconditions compared type names for equality (latent: dead code today)", "fixes/demos.py F6")
fixed("C03", "C03.range", OP, "Operator._apply_universal_effects", "type-equality", "3b5ddc6", "same defect seen from C03", "fixes/demos.py F6")
fixed("C05", "C05.validators", "lisp_parsers.problem_parser", "ProblemParser.parse_grounded_numeric_fluent", "types-by-name", "d00fd18",
      "argument types of a grounded fluent were read back from a dict keyed by the argument names: with a repeated argument the positions "
      "shifted and (= (tri2 s s m) 3) was rejected although well typed (found by the rule added after the second seeding round)", "fixes/demos.py F23")
fixed("C12", "C12.env", "models.numeric_symbolic_operations", "<module>", "env:NUMERIC_PRECISION", "bab0161",
      "NUMERIC_PRECISION used unconverted: round(x, '3') raises TypeError", "fixes/demos.py F9")
fixed("C06", "C06.closure", "lisp_parsers.domain_parser", "DomainParser.parse_types", "unregistered-type", "baa94e5",
      "a parent type first seen on a right-hand side was never registered", "fixes/demos.py F12")
fixed("C06", "C06.identity", "lisp_parsers.domain_parser", "DomainParser.parse_types", "overwrite:update", "baa94e5",
      "a type declared after being used as a parent was replaced by a twin object; its children went stale", "fixes/demos.py F12")
fixed("C03", "C03.prestate_rhs", OP, "Operator.apply", "rhs-env:effect.apply", "c4fa96a",
      "numeric right-hand sides evaluated on the successor under construction: result depended on set order", "fixes/demos.py F18")
fixed("C03", "C03.prestate_rhs", OP, "Operator._apply_universal_effects", "rhs-env:effect.apply", "c4fa96a", "same, universal effects", "fixes/demos.py F18")
for k in ("=", "<=", ">="):
    fixed("C12", "C12.compare", "models.numerical_expression", "COMPARISON_OPERATORS", f"isclose:rel_tol-default:{k}", "d1e2022",
          f"math.isclose default rel_tol made {k!r} tolerant beyond EPSILON at large magnitudes", "fixes/demos.py F21")
fixed("C16", "C16.objects", "multi_agent.common", "apply_actions", "ctor:Operator-without-problem_objects", "c791576",
      "joint actions skipped the forall effects of their members (operators built without problem objects)", "fixes/demos.py F22")

from tools_known_extra import register  # noqa
register(fixed, known)

json.dump({"note": "status 'fixed' entries suppress nothing; only 'known' entries turn a finding with the same "
                   "(property, rule, module, function, role) into a KNOWN-FINDING line", "findings": F},
          open(os.path.join(os.path.dirname(HERE), "known_findings.json"), "w"), indent=1)
print(len(F), "entries")
