#!/venv/bin/python
"""Evaluate the catalogued auto-mutants of a property (mutants/<Cxx>.json: small mechanical changes of the anchored functions that a
differential harness confirmed to break the property) against the property's quick check: each mutant is applied to a scratch copy outside
/repo and /verif; `caught` = the check reports a finding that the unchanged tree does not have.  Development tool, not registered.

usage: mutcheck.py --prop C05 [--ids 3,7] [--jobs 8] [--show-silent]
"""
import argparse
import ast
import json
import os
import shutil
import sys
import tempfile
from concurrent.futures import ProcessPoolExecutor

sys.path.insert(0, os.path.dirname(os.path.abspath(__file__)))
import automutate as A  # noqa: E402
import regress as R  # noqa: E402


def job(args):
    prop, m, baseline = args
    tmp = tempfile.mkdtemp(prefix="verif_mc_")
    try:
        shutil.copytree("/repo/pddl_plus_parser", os.path.join(tmp, "pddl_plus_parser"))
        full = os.path.join(tmp, m["file"])
        tree = ast.parse(open(full).read())
        fn = A.find_current(tree, m["fn"])
        if fn is None or not A.apply(fn, m["kind"], m["idx"], m["k"]):
            return m["id"], "does-not-apply", []
        ast.fix_missing_locations(tree)
        open(full, "w").write(ast.unparse(tree) + "\n")
        rc, finds, aerr = R.run_check(prop, tmp)
        new = [f for f in finds if f not in baseline]
        return m["id"], ("caught" if new else "analysis-error" if rc == 2 else "silent"), sorted({f"{f[0]} <{f[3]}>" for f in new})[:3] or ([aerr[:120]] if rc == 2 else [])
    finally:
        shutil.rmtree(tmp, ignore_errors=True)


def main():
    ap = argparse.ArgumentParser()
    ap.add_argument("--prop", required=True)
    ap.add_argument("--ids", default=None)
    ap.add_argument("--jobs", type=int, default=8)
    ap.add_argument("--show-silent", action="store_true")
    args = ap.parse_args()
    ms = json.load(open(os.path.join(R.VERIF, "mutants", f"{args.prop}.json")))
    if args.ids:
        want = {int(x) for x in args.ids.split(",")}
        ms = [m for m in ms if m["id"] in want]
    baseline = R.run_check(args.prop, "/repo")[1]
    by = {m["id"]: m for m in ms}
    counts = {"caught": 0, "silent": 0, "analysis-error": 0, "does-not-apply": 0}
    with ProcessPoolExecutor(args.jobs) as ex:
        for mid, status, what in ex.map(job, [(args.prop, m, baseline) for m in ms]):
            counts[status] += 1
            m = by[mid]
            if status != "silent" or args.show_silent or True:
                print(f"{status:15s} {mid:4d} {m['file'].split('/')[-1]}::{m['fn']} [{m['kind']}] {m['desc'][:70]!r}  {'; '.join(what)}")
    print(f"== mutcheck {args.prop}: {counts}")
    return 0


if __name__ == "__main__":
    sys.exit(main())
