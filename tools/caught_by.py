#!/venv/bin/python
"""Evaluate every seeded change against ALL 20 quick checks on a scratch copy (never in /repo) and record, in its meta.json, which rules
report it as a new finding.  Prints one markdown table row per change (used for DESIGN.md section 11 / 13).

usage: caught_by.py [--only <substring>] [--jobs 16] [--no-write]
"""
import argparse
import json
import os
import re
import shutil
import sys
from concurrent.futures import ProcessPoolExecutor

sys.path.insert(0, os.path.dirname(os.path.abspath(__file__)))
import regress as R  # noqa: E402


def job(args):
    name, patch, baseline = args
    tmp, base = R.scratch(patch)
    if tmp is None:
        return name, None, f"PATCH-FAILS {base}"
    try:
        if base != "HEAD":
            baseline = R.baseline_of(base)
        caught, details = [], []
        for prop in R.ALL:
            rc, finds, aerr = R.run_check(prop, tmp)
            new = [f for f in finds if f not in baseline[prop]]
            for rule in sorted({f[0] for f in new}):
                caught.append(f"{prop}:{rule}")
            for f in new[:3]:
                details.append(f"{prop}: NEW {f[0]} {f[2]} <{f[3]}>")
            if rc == 2 and not new:
                details.append(f"{prop}: {aerr[:160]}")
        return name, caught, details
    finally:
        shutil.rmtree(tmp, ignore_errors=True)


def main():
    ap = argparse.ArgumentParser()
    ap.add_argument("--only", default=None)
    ap.add_argument("--jobs", type=int, default=16)
    ap.add_argument("--no-write", action="store_true")
    args = ap.parse_args()
    with ProcessPoolExecutor(args.jobs) as ex:
        res = list(ex.map(R.run_check, R.ALL, ["/repo"] * len(R.ALL)))
    baseline = {p: finds for p, (rc, finds, err) in zip(R.ALL, res)}
    sdir = os.path.join(R.VERIF, "seeded")
    jobs = []
    for d in sorted(os.listdir(sdir)):
        pd = os.path.join(sdir, d, "patch.diff")
        if os.path.isfile(pd) and (not args.only or args.only in d):
            jobs.append((d, pd, baseline))
    bad = 0
    with ProcessPoolExecutor(args.jobs) as ex:
        for name, caught, details in ex.map(job, jobs):
            prop = name.split("-")[1]
            mp = os.path.join(sdir, name, "meta.json")
            meta = json.load(open(mp)) if os.path.exists(mp) else {"id": name, "breaks_property": prop}
            if caught is None:
                print(f"| {name} | - | {details} | |")
                bad += 1
                continue
            own = any(c.startswith(prop + ":") for c in caught)
            bad += 0 if own else 1
            meta["checks_run"] = "tools/caught_by.py: scratch copy of /repo/pddl_plus_parser with patch.diff applied; all 20 quick checks; findings compared with the unchanged tree"
            meta["caught_by"] = caught
            meta["caught_by_the_check_of_its_own_property"] = own
            meta["new_findings"] = details
            meta["result"] = ("RESULT: CAUGHT by " + ", ".join(c.replace(":", "/") for c in caught)) if caught else "RESULT: MISSED"
            if not args.no_write:
                json.dump(meta, open(mp, "w"), indent=1)
            files = ", ".join(os.path.basename(f) for f in meta.get("files_changed", []))
            rules = ", ".join(sorted({c.split(":", 1)[1] for c in caught}))
            print(f"| {name} | {files} | {rules} | {'own check' if own else 'NOT BY OWN CHECK'} |")
    print(f"== caught_by: {len(jobs) - bad}/{len(jobs)} reported by the check of their own property")
    return 1 if bad else 0


if __name__ == "__main__":
    sys.exit(main())
