#!/venv/bin/python
"""Evaluate one seeded change against the checks.

usage: eval_seeded.py <dir with patch.diff [demo.py]> [--props C01,C02,...] [--tests]

Applies patch.diff to /repo (git apply), runs the demonstration and every (or the named) quick check, prints the findings
that are new w.r.t. the unchanged tree, and ALWAYS restores /repo (git checkout -- .) afterwards.
"""
import argparse
import json
import os
import subprocess
import sys
from concurrent.futures import ThreadPoolExecutor

PY = "/venv/bin/python"
VERIF = os.path.dirname(os.path.dirname(os.path.abspath(__file__)))
ALL = [f"C{i:02d}" for i in range(1, 21)]


def run_check(prop):
    p = subprocess.run([PY, os.path.join(VERIF, "check"), prop, "--no-evidence", "--json"], capture_output=True, text=True)
    finds = []
    for line in p.stdout.splitlines():
        if line.startswith("FINDING-JSON "):
            d = json.loads(line[len("FINDING-JSON "):])
            finds.append((d["rule"], d["module"], d["function"], d["role"], d["what"][:160]))
    return p.returncode, finds, p.stdout


def all_checks(props):
    with ThreadPoolExecutor(8) as ex:
        return dict(zip(props, ex.map(run_check, props)))


def demo(d):
    f = os.path.join(d, "demo.py")
    if not os.path.exists(f):
        return None
    p = subprocess.run([PY, f], capture_output=True, text=True, cwd="/tmp", env=dict(os.environ, PYTHONPATH="/repo"))
    return p.returncode, (p.stdout + p.stderr)[-400:]


def tests():
    out = []
    p = subprocess.run(f"cd /repo && {PY} -m pytest -q -p no:cacheprovider --timeout=900 --continue-on-collection-errors 2>&1 | tail -1", shell=True, capture_output=True, text=True)
    out.append(p.stdout.strip())
    for d in ("lisp_parsers_tests", "models_tests", "exporters_tests", "multi_agent_tests"):
        p = subprocess.run(f"cd /repo/tests/{d} && {PY} -m pytest -q -p no:cacheprovider . 2>&1 | tail -1", shell=True, capture_output=True, text=True)
        out.append(p.stdout.strip())
    return out


def main():
    ap = argparse.ArgumentParser()
    ap.add_argument("dir")
    ap.add_argument("--props", default=None)
    ap.add_argument("--tests", action="store_true")
    args = ap.parse_args()
    props = args.props.split(",") if args.props else ALL
    st = subprocess.run(["git", "-C", "/repo", "status", "--porcelain"], capture_output=True, text=True).stdout.strip()
    if st:
        print("REFUSING: /repo has uncommitted changes:\n" + st)
        return 2
    base = all_checks(props)
    d0 = demo(args.dir)
    print("demo on unchanged tree:", d0[0] if d0 else None)
    patch = os.path.join(args.dir, "patch.diff")
    r = subprocess.run(["git", "-C", "/repo", "apply", patch], capture_output=True, text=True)
    if r.returncode:
        print("PATCH DOES NOT APPLY:", r.stderr)
        return 2
    try:
        d1 = demo(args.dir)
        print("demo on changed tree:", d1[0] if d1 else None, (d1[1].strip().splitlines() or [""])[-1][:200] if d1 else "")
        if args.tests:
            print("tests:", tests())
        res = all_checks(props)
    finally:
        subprocess.run(["git", "-C", "/repo", "checkout", "--", "."], check=True)
        subprocess.run(["git", "-C", "/repo", "clean", "-fdq", "--", "pddl_plus_parser"], check=False)
    caught = []
    for p in props:
        rc, finds, out = res[p]
        new = [f for f in finds if f[:4] not in [b[:4] for b in base[p][1]]]
        if rc == 2:
            print(f"  {p}: ANALYSIS-ERROR  {out.strip().splitlines()[-1][:300]}")
            caught.append((p, "ANALYSIS-ERROR"))
        for f in new:
            print(f"  {p}: NEW {f[0]} {f[2]} <{f[3]}> {f[4]}")
            caught.append((p, f[0]))
    print("RESULT:", "CAUGHT by " + ", ".join(sorted({f'{a}/{b}' for a, b in caught})) if caught else "MISSED")
    return 0


if __name__ == "__main__":
    sys.exit(main())
