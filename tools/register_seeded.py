#!/venv/bin/python
"""Copy verified seeded changes from /tmp/seeded_out into /verif/seeded/<id>/ and record which checks catch them."""
import json, os, re, shutil, subprocess, sys
PY = "/venv/bin/python"
VERIF = os.path.dirname(os.path.dirname(os.path.abspath(__file__)))
src_root = sys.argv[1] if len(sys.argv) > 1 else "/tmp/seeded_out"
rows = []
for prop in sorted(os.listdir(src_root)):
    for ch in ("change1", "change2", "change3"):
        d = os.path.join(src_root, prop, ch)
        if not os.path.isfile(os.path.join(d, "patch.diff")):
            continue
        vlog = open(os.path.join(d, "verify.log")).read() if os.path.exists(os.path.join(d, "verify.log")) else ""
        if "VERIFIED" not in vlog.splitlines()[-1:][0:1] and "VERIFIED" not in vlog:
            print("skip (not verified)", d)
            continue
        sid = f"S-{prop}-{ch[-1]}"
        out = os.path.join(VERIF, "seeded", sid)
        os.makedirs(out, exist_ok=True)
        for fn in ("patch.diff", "demo.py", "notes.md"):
            if os.path.exists(os.path.join(d, fn)):
                shutil.copy(os.path.join(d, fn), os.path.join(out, fn))
        r = subprocess.run([PY, os.path.join(VERIF, "tools", "eval_seeded.py"), d], capture_output=True, text=True)
        new = [l.strip() for l in r.stdout.splitlines() if " NEW " in l or "ANALYSIS-ERROR" in l]
        res = [l for l in r.stdout.splitlines() if l.startswith("RESULT:")]
        caught = sorted(set(re.findall(r"(C\d\d)/(C\d\d\.[a-zA-Z_0-9.]+)", res[0]))) if res else []
        notes = open(os.path.join(d, "notes.md")).read() if os.path.exists(os.path.join(d, "notes.md")) else ""
        files = sorted(set(re.findall(r"^\+\+\+ b/(\S+)", open(os.path.join(d, "patch.diff")).read(), re.M)))
        meta = {
            "id": sid,
            "breaks_property": prop,
            "written_by": "sub-agent that saw only the property text and a scratch worktree (nothing from /verif)",
            "files_changed": files,
            "needs_to_manifest": "see notes.md (section on what it needs to manifest)",
            "confirmed": {
                "how": "tools/verify_seeded.py in a scratch worktree: patch applies, package compiles, pinned suite 63 passed / 34 failed / 176 errors "
                       "as baseline, wider suite 88 + 142 + 11 + 32 passed, demo.py exits 0 on the unchanged tree and 1 on the changed tree",
                "log": vlog.strip().splitlines(),
            },
            "checks_run": "tools/eval_seeded.py: git -C /repo apply patch.diff; all 20 quick checks; git -C /repo checkout -- .",
            "caught_by": [f"{a}:{b}" for a, b in caught],
            "caught_by_the_check_of_its_own_property": any(a == prop for a, b in caught),
            "new_findings": new[:12],
            "result": res[0] if res else "no result",
        }
        json.dump(meta, open(os.path.join(out, "meta.json"), "w"), indent=1)
        rows.append((sid, prop, files, meta["caught_by"]))
        if not meta["caught_by_the_check_of_its_own_property"]:
            print("   !! not caught by its own property's check:", sid)
        print(sid, meta["result"][:150])
json.dump([dict(id=a, property=b, files=c, caught_by=d) for a, b, c, d in rows], open(os.path.join(VERIF, "seeded", "INDEX.json"), "w"), indent=1)
