#!/venv/bin/python
"""Confirm a seeded change in a scratch worktree (never in /repo): it applies, compiles, keeps the test suites green,
its demonstration passes on the unchanged tree and fails on the changed one.

usage: verify_seeded.py <dir with patch.diff and demo.py>      (uses /tmp/wt/verify, created on demand, cleaned afterwards)
"""
import os
import subprocess
import sys

PY = "/venv/bin/python"
WT = os.environ.get("VERIFY_WT", "/tmp/wt/verify")
BASE = {"pinned": "63 passed", "lisp_parsers_tests": "88 passed", "models_tests": "142 passed", "exporters_tests": "11 passed", "multi_agent_tests": "32 passed"}


def sh(cmd, **kw):
    return subprocess.run(cmd, shell=True, capture_output=True, text=True, **kw)


def tests():
    out = {}
    r = sh(f"cd {WT} && PYTHONPATH={WT} {PY} -m pytest -q -p no:cacheprovider --timeout=900 --continue-on-collection-errors 2>&1 | tail -1")
    out["pinned"] = r.stdout.strip()
    for d in list(BASE)[1:]:
        r = sh(f"cd {WT}/tests/{d} && PYTHONPATH={WT} {PY} -m pytest -q -p no:cacheprovider . 2>&1 | tail -1")
        out[d] = r.stdout.strip()
    return out


def demo(d):
    r = sh(f"cd /tmp && PYTHONPATH={WT} {PY} {d}/demo.py")
    return r.returncode, (r.stdout + r.stderr).strip()[-300:]


def main():
    d = os.path.abspath(sys.argv[1])
    if not os.path.isdir(WT):
        r = sh(f"git -C /repo worktree add -q --detach {WT} HEAD")
        if r.returncode:
            print(r.stderr)
            return 2
    sh(f"git -C {WT} checkout -q --detach $(git -C /repo rev-parse HEAD) && git -C {WT} checkout -- . && git -C {WT} clean -fdq")
    ok = True
    rc0, out0 = demo(d)
    print("demo unchanged:", rc0)
    ok &= rc0 == 0
    r = sh(f"git -C {WT} apply {d}/patch.diff")
    if r.returncode:
        print("patch does not apply:", r.stderr)
        return 2
    try:
        r = sh(f"cd {WT} && {PY} -m compileall -q pddl_plus_parser >/dev/null && echo compiled")
        print(r.stdout.strip() or "COMPILE ERROR " + r.stderr[-300:])
        ok &= "compiled" in r.stdout
        rc1, out1 = demo(d)
        print("demo changed:", rc1, "|", out1.splitlines()[-1][:200] if out1 else "")
        ok &= rc1 != 0
        t = tests()
        for k, v in t.items():
            good = BASE[k] in v and ("failed" not in v or k == "pinned")
            if k == "pinned":
                good = "63 passed" in v and "34 failed" in v and "176 errors" in v
            print(f"  tests {k}: {v} {'OK' if good else '<<< CHANGED'}")
            ok &= good
    finally:
        sh(f"git -C {WT} checkout -- . && git -C {WT} clean -fdq; find {WT} -name __pycache__ -type d -prune -exec rm -rf {{}} +")
    print("VERIFIED" if ok else "NOT VERIFIED")
    return 0 if ok else 1


if __name__ == "__main__":
    sys.exit(main())
