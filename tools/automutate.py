#!/venv/bin/python
"""Mutation adequacy probe (development tool).  For every property, the functions named by the property's anchors (the `where` line
ranges, resolved to function names on the pinned snapshot commit and looked up by NAME in the current tree) are mutated one small change
at a time on a scratch copy outside /repo and /verif; the property's own quick check is run on each mutant.  The tool prints the mutants
that produce NO new finding: candidates for triage (each is either equivalent / irrelevant to the property or a detection gap).

It decides nothing about /repo; it is not registered in MANIFEST.json.

usage: automutate.py [--props C03,C05] [--jobs 14] [--out /tmp/automut.json] [--max-per-fn 60]
"""
import argparse
import ast
import copy
import json
import os
import re
import shutil
import subprocess
import sys
import tempfile
from concurrent.futures import ProcessPoolExecutor

sys.path.insert(0, os.path.dirname(os.path.abspath(__file__)))
import regress as R  # noqa: E402

BASE = "2c9caba"


def anchors(prop):
    out = []
    for key in ("mechanism", "state"):
        for m in prop["anchors"].get(key, []) or []:
            w = m.get("where") or ""
            mm = re.match(r"(pddl_plus_parser/[\w/]+\.py):(\d+)(?:-(\d+))?", w)
            if mm:
                out.append((mm.group(1), int(mm.group(2)), int(mm.group(3) or mm.group(2))))
    return out


def functions_at_base(path, a, b):
    """qualified names of the functions / module-level assignments of `path` at the snapshot commit that overlap lines a..b"""
    src = subprocess.run(["git", "-C", "/repo", "show", f"{BASE}:{path}"], capture_output=True, text=True).stdout
    if not src:
        return []
    tree = ast.parse(src)
    out = []

    def walk(body, prefix):
        for n in body:
            if isinstance(n, ast.ClassDef):
                walk(n.body, prefix + n.name + ".")
            elif isinstance(n, (ast.FunctionDef, ast.AsyncFunctionDef)):
                if n.lineno <= b and (n.end_lineno or n.lineno) >= a:
                    out.append(prefix + n.name)
            elif isinstance(n, (ast.Assign, ast.AnnAssign)) and not prefix:
                if n.lineno <= b and (n.end_lineno or n.lineno) >= a:
                    t = n.targets[0] if isinstance(n, ast.Assign) else n.target
                    if isinstance(t, ast.Name):
                        out.append("=" + t.id)
    walk(tree.body, "")
    return out


def find_current(tree, qn):
    if qn.startswith("="):
        for n in tree.body:
            if isinstance(n, (ast.Assign, ast.AnnAssign)):
                t = n.targets[0] if isinstance(n, ast.Assign) else n.target
                if isinstance(t, ast.Name) and t.id == qn[1:]:
                    return n
        return None
    parts = qn.split(".")
    body = tree.body
    node = None
    for p in parts:
        node = next((n for n in body if isinstance(n, (ast.ClassDef, ast.FunctionDef)) and n.name == p), None)
        if node is None:
            return None
        body = node.body
    return node


def is_logging(st):
    if isinstance(st, ast.Expr) and isinstance(st.value, ast.Call):
        t = ast.unparse(st.value.func)
        return ".logger." in t or t.startswith("logging.") or t.startswith("self.logger") or t.startswith("print")
    return False


SWAP = {ast.Eq: ast.NotEq, ast.NotEq: ast.Eq, ast.Lt: ast.LtE, ast.LtE: ast.Lt, ast.Gt: ast.GtE, ast.GtE: ast.Gt, ast.In: ast.NotIn,
        ast.NotIn: ast.In, ast.Is: ast.IsNot, ast.IsNot: ast.Is}


def mutants_of(fn):
    """yield (kind, description, mutate) where mutate(copy_of_fn) edits the copy in place; nodes are addressed by walk index"""
    nodes = list(ast.walk(fn))
    for i, n in enumerate(nodes):
        if isinstance(n, ast.stmt) and n is not fn and not isinstance(n, (ast.FunctionDef, ast.ClassDef, ast.Pass, ast.Import, ast.ImportFrom)):
            if isinstance(n, ast.Expr) and isinstance(n.value, ast.Constant):
                continue  # docstring
            if is_logging(n):
                continue
            if isinstance(n, (ast.If, ast.For, ast.While, ast.Try, ast.With)):
                pass  # compound statements are deleted too (whole block dropped)
            yield "SDL", f"delete `{ast.unparse(n)[:90]}`", i, None
        if isinstance(n, (ast.If, ast.While, ast.IfExp)):
            yield "NEG", f"negate test `{ast.unparse(n.test)[:80]}`", i, None
        if isinstance(n, ast.Compare):
            for k, op in enumerate(n.ops):
                if type(op) in SWAP:
                    yield "ROR", f"`{ast.unparse(n)[:80]}` op {k} -> {SWAP[type(op)].__name__}", i, k
        if isinstance(n, ast.BoolOp):
            yield "LCR", f"and<->or in `{ast.unparse(n)[:80]}`", i, None
        if isinstance(n, ast.UnaryOp) and isinstance(n.op, ast.Not):
            yield "UOD", f"drop not in `{ast.unparse(n)[:80]}`", i, None
        if isinstance(n, ast.Call) and len(n.args) >= 2 and not any(isinstance(a, ast.Starred) for a in n.args[:2]) \
                and ast.dump(n.args[0]) != ast.dump(n.args[1]):
            yield "ARG", f"swap first two arguments of `{ast.unparse(n)[:80]}`", i, None
        if isinstance(n, ast.Call) and len(n.keywords) >= 2 and all(k.arg for k in n.keywords[:2]) \
                and ast.dump(n.keywords[0].value) != ast.dump(n.keywords[1].value):
            yield "KWS", f"swap values of the first two keywords of `{ast.unparse(n)[:80]}`", i, None
        if isinstance(n, ast.Constant) and isinstance(n.value, bool):
            yield "CON", f"{n.value} -> {not n.value}", i, None
        elif isinstance(n, ast.Constant) and isinstance(n.value, int):
            yield "CON", f"{n.value} -> {n.value + 1}", i, 1
            if n.value != 0:
                yield "CON", f"{n.value} -> {n.value - 1}", i, -1
        elif isinstance(n, ast.Constant) and isinstance(n.value, float):
            yield "CON", f"{n.value} -> {n.value * 10 + 1}", i, None
        if isinstance(n, ast.Break):
            yield "BRK", "break -> continue", i, None
        if isinstance(n, ast.Continue):
            yield "BRK", "continue -> break", i, None
        if isinstance(n, ast.BinOp) and isinstance(n.op, (ast.Add, ast.Sub, ast.Mult, ast.Div)):
            yield "AOR", f"operator of `{ast.unparse(n)[:80]}` changed", i, None
        if isinstance(n, ast.Attribute) and n.attr in ("add", "discard", "remove", "append", "update", "difference_update", "extend"):
            yield "MTH", f"`{ast.unparse(n)[:60]}` method changed", i, None
        if isinstance(n, ast.Call) and isinstance(n.func, ast.Attribute) and n.func.attr == "copy" and not n.args:
            yield "CPY", f"`{ast.unparse(n)[:60]}` -> no copy", i, None
        if isinstance(n, ast.Slice):
            yield "SLC", "slice bound shifted", i, None


def apply(fn, kind, i, k):
    nodes = list(ast.walk(fn))
    n = nodes[i]
    if kind == "SDL":
        for par in ast.walk(fn):
            for fld, val in ast.iter_fields(par):
                if isinstance(val, list) and any(x is n for x in val):
                    val[[j for j, x in enumerate(val) if x is n][0]] = ast.copy_location(ast.Pass(), n)
                    return True
        return False
    if kind == "NEG":
        n.test = ast.UnaryOp(op=ast.Not(), operand=n.test)
    elif kind == "ROR":
        n.ops[k] = SWAP[type(n.ops[k])]()
    elif kind == "LCR":
        n.op = ast.Or() if isinstance(n.op, ast.And) else ast.And()
    elif kind == "UOD":
        return replace(fn, n, n.operand)
    elif kind == "ARG":
        n.args[0], n.args[1] = n.args[1], n.args[0]
    elif kind == "KWS":
        n.keywords[0].value, n.keywords[1].value = n.keywords[1].value, n.keywords[0].value
    elif kind == "CON":
        if isinstance(n.value, bool):
            n.value = not n.value
        elif isinstance(n.value, int):
            n.value = n.value + k
        else:
            n.value = n.value * 10 + 1
    elif kind == "BRK":
        return replace(fn, n, ast.Continue() if isinstance(n, ast.Break) else ast.Break())
    elif kind == "AOR":
        n.op = {ast.Add: ast.Sub, ast.Sub: ast.Add, ast.Mult: ast.Div, ast.Div: ast.Mult}[type(n.op)]()
    elif kind == "MTH":
        n.attr = {"add": "discard", "discard": "add", "remove": "add", "append": "remove", "update": "difference_update",
                  "difference_update": "update", "extend": "append"}[n.attr]
    elif kind == "CPY":
        return replace(fn, n, n.func.value)
    elif kind == "SLC":
        if n.lower is None:
            n.lower = ast.Constant(value=1)
        else:
            n.lower = ast.BinOp(left=n.lower, op=ast.Add(), right=ast.Constant(value=1))
    return True


def replace(fn, old, new):
    for par in ast.walk(fn):
        for fld, val in ast.iter_fields(par):
            if val is old:
                setattr(par, fld, ast.copy_location(new, old))
                return True
            if isinstance(val, list):
                for j, x in enumerate(val):
                    if x is old:
                        val[j] = ast.copy_location(new, old)
                        return True
    return False


def job(args):
    prop, path, qn, kind, desc, i, k, baseline = args
    tmp = tempfile.mkdtemp(prefix="verif_am_")
    try:
        shutil.copytree("/repo/pddl_plus_parser", os.path.join(tmp, "pddl_plus_parser"))
        full = os.path.join(tmp, path)
        tree = ast.parse(open(full).read())
        fn = find_current(tree, qn)
        if fn is None or not apply(fn, kind, i, k):
            return None
        ast.fix_missing_locations(tree)
        try:
            src = ast.unparse(tree)
            compile(src, full, "exec")
        except Exception:
            return None
        open(full, "w").write(src)
        rc, finds, aerr = R.run_check(prop, tmp)
        new = [f for f in finds if f not in baseline]
        status = "caught" if new else ("analysis-error" if rc == 2 else "silent")
        return dict(prop=prop, file=path, fn=qn, kind=kind, desc=desc, idx=i, k=k, status=status, rules=sorted({f[0] for f in new}), err=aerr[:200] if rc == 2 else "")
    finally:
        shutil.rmtree(tmp, ignore_errors=True)


def unparsed_baseline(prop):
    """the check is run on the ast.unparse()d tree too: unparse must not change findings (it drops comments / formatting only)"""
    return R.run_check(prop, "/repo")[1]


def main():
    ap = argparse.ArgumentParser()
    ap.add_argument("--props", default=None)
    ap.add_argument("--jobs", type=int, default=14)
    ap.add_argument("--out", default="/tmp/automut.json")
    ap.add_argument("--max-per-fn", type=int, default=80)
    args = ap.parse_args()
    props = [json.loads(l) for l in open(os.path.join(R.VERIF, "properties.jsonl"))]
    want = set(args.props.split(",")) if args.props else None
    jobs = []
    for p in props:
        if want and p["id"] not in want:
            continue
        baseline = unparsed_baseline(p["id"])
        seen = set()
        for path, a, b in anchors(p):
            for qn in functions_at_base(path, a, b):
                if (path, qn) in seen:
                    continue
                seen.add((path, qn))
                full = os.path.join("/repo", path)
                if not os.path.exists(full):
                    continue
                fn = find_current(ast.parse(open(full).read()), qn)
                if fn is None:
                    continue
                ms = list(mutants_of(fn))
                step = max(1, len(ms) // args.max_per_fn)
                for kind, desc, i, k in ms[::step][:args.max_per_fn] if len(ms) > args.max_per_fn else ms:
                    jobs.append((p["id"], path, qn, kind, desc, i, k, baseline))
    print(f"{len(jobs)} mutants", flush=True)
    res = []
    with ProcessPoolExecutor(args.jobs) as ex:
        for r in ex.map(job, jobs, chunksize=4):
            if r:
                res.append(r)
    json.dump(res, open(args.out, "w"), indent=1)
    by = {}
    for r in res:
        by.setdefault(r["prop"], {"caught": 0, "silent": 0, "analysis-error": 0})[r["status"]] += 1
    for p, c in sorted(by.items()):
        print(p, c)
    return 0


if __name__ == "__main__":
    sys.exit(main())
