#!/venv/bin/python
"""A behaviour-preserving refactoring must leave every check silent: apply patch.diff to /repo, run the 20 quick checks, report any
new finding, lost known finding or ANALYSIS-ERROR, and restore /repo."""
import os, subprocess, sys
sys.path.insert(0, os.path.dirname(os.path.abspath(__file__)))
from eval_seeded import all_checks, ALL

def main():
    d = sys.argv[1]
    st = subprocess.run(["git", "-C", "/repo", "status", "--porcelain"], capture_output=True, text=True).stdout.strip()
    if st:
        print("REFUSING: /repo dirty"); return 2
    base = all_checks(ALL)
    r = subprocess.run(["git", "-C", "/repo", "apply", os.path.join(d, "patch.diff")], capture_output=True, text=True)
    if r.returncode:
        print("PATCH DOES NOT APPLY:", r.stderr[:300]); return 2
    try:
        res = all_checks(ALL)
    finally:
        subprocess.run(["git", "-C", "/repo", "checkout", "--", "."], check=True)
    bad = 0
    for p in ALL:
        rc, finds, out = res[p]
        b = [x[:4] for x in base[p][1]]
        if rc == 2:
            print(f"  {p}: ANALYSIS-ERROR {out.strip().splitlines()[-1][:400]}"); bad += 1
        for f in finds:
            if f[:4] not in b:
                print(f"  {p}: FALSE ALARM {f[0]} {f[2]} <{f[3]}> {f[4]}"); bad += 1
        for x in base[p][1]:
            if x[:4] not in [f[:4] for f in finds] and rc != 2:
                print(f"  {p}: known finding vanished {x[0]} {x[2]} <{x[3]}>")
    print("RESULT:", "SILENT" if not bad else f"{bad} PROBLEM(S)")
    return 1 if bad else 0

if __name__ == "__main__":
    sys.exit(main())
