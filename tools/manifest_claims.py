"""Per-property claims: technique, what the level means, trusted base."""

TRUST = ("Trusted: CPython's ast of the files under /repo/pddl_plus_parser (the library is never imported or run by the check); the "
         "annotation-driven call / type resolution of the engine (resolution statistics are in every evidence file); the AST-level inlining of "
         "private helpers into the public entry points the rules anchor on (sa/inline.py: parameter binding, return-as-jump, partial evaluation "
         "of constant-bound parameters, loop-to-any normalisation, the exact desugarings listed in DESIGN.md 13.2 -- conditional receivers, "
         "next(generator, default), setdefault, loops over constant tuples, map / filter, dispatch tables, operator.* / attrgetter / lambda "
         "application, calls through function-valued locals split by definition tag, short-circuit operands in statement form -- all "
         "semantics-preserving rewrites of a copy of the function); the oracle tables "
         "frozen in the rule modules (contracts, exclusions), each with its reason. ")


def register(claim):
    claim("C01",
          "path enumeration over statement CFGs of the parser dispatch loops (no-silent-drop), finite guard valuation over head tests (head-strip, polarity, constant-valuation of section dispatch), table and arm coverage; public entry points with helpers inlined",
          "Decides necessary conditions of faithful-or-rejected parsing for every domain text at once: on every acyclic path through each node "
          "handler the node is consumed or rejected; a stripped head is pinned or kept; (not ..) polarity and (in)equality routing; one arm per "
          "section storing into the matching field; length-guarded positional operands; accepted operators have evaluator entries; trailing typed-list "
          "groups are flushed; operator-to-operator tables are the identity, complement or mirror (complement under not). It does not decide that the stored formula equals the written one. Per class of input node (head token, small lengths, list / flat) the parser's guards are valuated and sink, rejection and recursive call sites are decided on the CFG (C01.forms.*); node loops are not left early; every Domain field parse_domain reads is set by the constructor.",
          TRUST + "Findings recorded as known (repeated arguments collapse in name-keyed signatures) are listed in known_findings.json.",
          "DESIGN.md 4/C01")
    claim("C02",
          "class valuation of isinstance dispatch on the flattened evaluator / translator (statements executed per operand class), abstract truth tables, finite valuation of the literal evaluator, valuation-aware def-use provenance",
          "Decides the structural clauses of 'applicable iff precondition true': operator tables, literal truth value over (polarity, membership), "
          "every operand class translated-and-attached or rejected, fold identity and per-arm folding, (in)equality semantics, subtype range of "
          "quantifiers, pass-through of Operator.is_applicable, argument positions of grounded fluent leaves. Truth of whole formulas in whole states is not decided. On the current tree the check "
          "reports the known defect family that nested or / forall preconditions are ignored. A supported operand class is never refused, operand walks are not left early, class tests have the operand first, the instantiation map is stored where the quantified evaluation reads it, the state is read into every fluent leaf (C02.readstate / missing / branch).",
          TRUST + "Six known findings (KF2-KF4) are reported as KNOWN-FINDING.",
          "DESIGN.md 4/C02")
    claim("C03",
          "finite guard valuation over the CFG of Operator.apply, def-use provenance of state arguments, CFG ordering (delete-then-add), symbolic execution of assignment helpers, effect analysis (escape)",
          "Decides for all states and domains: an effect group fires iff its antecedents hold in the pre-state parameter; effects are applied to the "
          "copy that is returned; removals cannot follow insertions and are polarity-filtered; assign/increase/decrease compute v/old+v/old-v; numeric "
          "right-hand sides read the pre-state; the universal pass dominates the return and ranges by subtype (no conforming object skipped); every conditional group grounds its discrete and its numeric effects; classes kept in sets compare on condition and consequents; no operator-owned fluent object "
          "escapes into the successor. The frame condition and full successor equality are not decided. Effect groups are instantiated before they are read, no walk over groups / objects / effects is left early, absent problem objects are not dereferenced, the predicate map is read only for present keys and new sets are stored, numeric right-hand sides are evaluated in the pre-state when one is given.",
          TRUST, "DESIGN.md 4/C03")
    claim("C04",
          "def-use chains over the CFG (loop-carried state threading), finite guard valuation (refusal table), handler / wiring provenance",
          "Decides: the state handed to each step is the initial state or the previous triplet's next_state; exactly one triplet per plan line in "
          "plan order; apply raises exactly for (validate, inapplicable, not allowed); the exporter catches that error and rebuilds the successor "
          "from the pre-state; the allow flag comes from the constructor (default False). Per-step successor correctness is C03. The operator is grounded before its effect groups are walked under every flag valuation, no effect group is skipped by leaving the walk, the successor is bound on the path through the handler and labelled non-initial.",
          TRUST, "DESIGN.md 4/C04")
    claim("C05",
          "must-pass-through (dominators) on validator CFGs, no-silent-drop path enumeration, provenance of stored values, sibling idiom check",
          "Decides: every ground atom / fluent returned by the problem parser is dominated by an arity check, a per-argument subtype check and an "
          "object lookup (and a function-name check); unknown components and a foreign domain name raise; sections are routed to their fields; the "
          "trailing untyped object group is kept and typed by the constant 'object'; values are float(third item) under the fluent's name. That stored content equals the text is not decided. Arity / length / head gates accept exactly the well-formed shapes (C05.gates), argument tokens and conjuncts come from the right slices (C05.positions), constructor arguments are paired with the right parameters, the object walk starts at 0 and advances by what it reads on every path, no memo outlives the domain.",
          TRUST + "assert-based checks vanish under python -O (noted in evidence).", "DESIGN.md 4/C05")
    claim("C06",
          "type-inference-driven lint (no ==/!= on PDDLType), registration / identity dataflow in parse_types, finite valuation of the ancestor walk",
          "Decides: conformance is always tested with is_sub_type in the right direction; every type built by parse_types is registered and never "
          "replaces a registered object (order independence hazards); the ancestor walk returns True only on name equality, False at the root and "
          "otherwise recurses on the parent; 'object' is the root. Order independence of arbitrary re-implementations is not decided. The typed-list walk consumes every token exactly once and is not left early, names and the separator keep their roles, every member of a group is linked, the root test keeps its polarity, the hierarchy graph has every type as a node and parent -> child edges.",
          TRUST, "DESIGN.md 4/C06")
    claim("C07",
          "interprocedural effect (mutation) summaries over access paths with ownership classification of fields; escape analysis",
          "Decides, independently of the call history (which is what the property quantifies over): no function outside the mutators-by-contract "
          "writes below a field that holds a constructor argument, below a parameter of a public entry point, or into a module-level object; no "
          "owner-mutated object is stored into a state handed to it; State.copy is deep down to the fact / fluent objects. With no library write to "
          "shared objects the thread-interleaving clause follows. Mutation by user code through remaining aliases is not decided. Grounded numeric leaves are fresh objects; numeric effects are evaluated on the pre-state when given.",
          TRUST + "267 obligations (237 entry points) on the current tree; default arguments that build objects count as shared; UNKNOWN-provenance writes are counted (0 today).", "DESIGN.md 4/C07")
    claim("C08",
          "backward slicing for field coverage, abstract evaluation of string-building code into string shapes (polarity, typed lists, parenthesis balance, value text), keyword sets, provenance (order, options); public printers with helpers inlined",
          "Decides: each domain printer's text depends on every declared field of what it prints; negative literal text is '(not '+positive+')'; "
          "written keywords are reader heads; templates are balanced; signatures are printed in order; print options reach nested prints (known "
          "finding: they do not) and print() emits what __str__ emits; every constant except the placeholder named 'object' is written; integers are printed by an exact integer test. Equality after re-parsing is not decided. Every printer path returns text, every non-empty collection of the domain reaches the text for sizes 1 and >= 2, tree printers keep (op left right) / (left op right), lift fluent leaves and never truncate non-integers; with should_simplify=False nothing passes the simplifier.",
          TRUST + "Three known findings (KF9).", "DESIGN.md 4/C08")
    claim("C09",
          "backward slicing for field coverage, template keywords / balance, provenance of the (:domain ..) reference",
          "Decides: the problem text depends on every field of Problem named by the property, object / fact / fluent lines on all their parts, "
          "keywords are parse_problem heads, templates are balanced, every alternative of an object line is '<name> - <type>'. Round-trip equality is not decided. Every section writer path depends on each collection it was given unless that collection is empty; repeated and single arguments of a fluent line are printed as often as they occur.",
          TRUST + "One known finding (position of repeated fluent arguments, KF1).", "DESIGN.md 4/C09")
    claim("C10",
          "keyword-set agreement writer/reader, sibling obligation cross-check, def-use threading in parse_trajectory, no-silent-drop",
          "Decides: writers' section keywords equal the reader's heads; the trajectory fluent reader discharges the obligations of the problem "
          "parser's (arity, types when known, repeated-argument bookkeeping); components are chained (pre-state = initial or copy of previous "
          "post-state), one per operator line, malformed alternation raises; exporter layout. State equality after the round trip is not decided. Per element kind the state reader stores on every path of a turn and hands facts / fluents to the right State field; the fluent and atom readers accept well-formed input in both modes, take name and arguments from the right tokens, pair types in the right direction; joint actions keep every entry; section readers get item[1:].",
          TRUST, "DESIGN.md 4/C10")
    claim("C11",
          "def-use chain from text to tokens, regex-AST of the comment pattern, finite valuation of the recursive reader",
          "Decides: no separator is deleted, lower(), parentheses padded, whitespace split, ';' comments cut before tokenising, both input modes "
          "feed tokenize(); the reader raises on empty input and stray ')', collects sub-forms to the matching ')' and returns atoms unchanged. The "
          "missing end-of-input check is reported as a known finding. Both input modes are accepted, the line walk is not left early, every element added to the stream is one token.",
          TRUST, "DESIGN.md 4/C11")
    claim("C12",
          "abstract evaluation of operator-table lambdas over a 5-point ordering domain, rational normal forms, def-use provenance for operand order",
          "Decides for every input at once: the arithmetic table computes x<op>y, the comparison table is tolerant for = <= >= and strict for < >, "
          "the tolerance is the configured EPSILON with rel_tol pinned to 0, assign/increase/decrease set v / old+v / old-v, child 0 / child 1 are "
          "left / right operand at every evaluation, construction and printing site, environment values are converted to numbers, a fluent the state does not mention reads as the constant 0. Floating-point "
          "results are not decided. Per class of expression text construct_expression_tree builds the right node (literal = float(token), operator = head, operands = elements 1 and 2, fluent = fresh PDDLFunction over the written arguments); calculate and set_expression_value reach every leaf; evaluate_expression dispatches assignments and comparisons to their tables.",
          TRUST + "Abstract model of math.isclose: |x-y| <= abs_tol when rel_tol = 0.", "DESIGN.md 4/C12")
    claim("C13",
          "table vocabulary check, regex-AST injectivity argument for the symbol naming, guard/use consistency, exact-class dispatch coverage (thin claim)",
          "THIN: equivalence of sympy-simplified text for all valuations is out of reach of a static argument. Decided are necessary conditions only: "
          "emitted operators are + - * /, the fluent->symbol naming deletes no distinguishing characters, an integer printed under a round() guard is "
          "int(round()) and the integer test is exact (no tolerance), the elimination algebra holds under every choice of its condition-dependent constants, the atom dispatch covers sympy's number classes, sides and operator of (in)equalities are kept. Structural clauses only: every path returns text, the outer parentheses of a comparison are cut once and each side is parsed from its own text, right-hand sides keep zeros, every condition reaches exactly one simplifier and its result the output, each sympy node kind reaches its own construct, the power expansion has exponent many factors, zero-dropping drops only values that round to 0.",
          TRUST + "Four known findings (KF7a-c) are reported on the current tree.", "DESIGN.md 4/C13 and section 8")
    claim("C14",
          "AST symmetry of __eq__ operands, finite valuation of its result, effect-analysis freshness of State.copy, constructor field maps, backward slicing",
          "Decides: __eq__ compares the same order-free view of facts and of fluents of both operands and returns their conjunction; State.copy "
          "returns fresh containers with fresh element objects and propagates is_init; element copies initialise every declared field from the "
          "original; serialize depends on both fields and is_init and prints the views __eq__ compares. Injectivity of serialisation is not decided. Copy hands each container to the same-named field and keeps polarity.",
          TRUST, "DESIGN.md 4/C14")
    claim("C15",
          "guard-structure analysis of the packing loop, finite valuation of the validator, provenance-labelled interference pairs (thin claim)",
          "THIN: conservation, per-agent order and final-state equality over all plans are not decided. Decided: every slot store after the first is "
          "under the well-definedness test; the validator accepts only with a free slot, applicability in the step's pre-state and no interference "
          "(six required intersections present, over whole parameter lists and whole effect groups); one JointActionCall per step from nop-initialised slots indexed by agent; state threading through "
          "apply_actions on the non-nop members. The remaining plan only shrinks: no return with actions left and no head read of an empty plan; a nop slot does not end the member walk; the regex scans the plan text.",
          TRUST, "DESIGN.md 4/C15 and section 8")
    claim("C16",
          "finite guard valuation of apply_actions, def-use provenance of the accumulated state, loop threading, constructor-argument rule",
          "Decides: member applicability is asked on the original state, effects accumulate on its copy, refusal iff (inapplicable and not allowed), "
          "nop skipped before the schema lookup, the single-member shortcut passes the flag; the multi-agent exporter threads states with one "
          "triplet per joint action, built by one apply_actions call on the previous state and the whole member list; every applied Operator is built with the problem objects. Permutation independence is not decided. The allow flag defaults to False everywhere; the single-member shortcut is taken for exactly one member and applies it; every applied Operator is built from its own member; parse_action_call collects every group as (token 0, tokens 1..); the triplet records a NOPOperator per nop and the member's operator otherwise.",
          TRUST, "DESIGN.md 4/C16")
    claim("C17",
          "effect analysis (writes to module-level objects), def-use provenance of merge calls (same-named fields), finite valuation of the de-duplication guard",
          "Decides: combining never writes into shared module-level state; each mergeable field of the combined domain / problem is fed from the "
          "same-named field of every agent file into a fresh object; facts are inserted iff their ground text is absent, goal literals pass a set, the walk over an agent's facts is never left early; "
          "the exporter writes every constant; dummy actions only on request. Order independence for conflicting values is not decided. The combination's name is merged, agent files are parsed completely, a predicate used by an added dummy action is declared.",
          TRUST, "DESIGN.md 4/C17")
    claim("C18",
          "container mutate-while-iterate pattern over the CFG (simultaneous substitution), backward slice of visited fields, provenance of rebuilt pairs",
          "Decides: every change_signature builds the renamed signature from a snapshot in the old order with the old types (so overlapping maps "
          "such as swaps are safe) and no path returns before the rewrite; (in)equality pairs are rebuilt component-wise; Action.change_signature visits every field that mentions "
          "parameters (known finding: conditional / universal effects and nested pairs are not). Behavioural equivalence is not decided. Class tests have the operand first.",
          TRUST + "Three known findings (KF8).", "DESIGN.md 4/C18")
    claim("C19",
          "regex-AST analysis of the step pattern, def-use provenance of emitted steps, finite valuation of the status function",
          "Decides: nothing inside the step capture group can match a line break and the step ends at its line's end, the step number is not anchored to the line start, the captured class admits every character of action names; steps are "
          "group(1).lower().strip() in match order; 'ok' only under the plan marker, otherwise an empty list; ENHSP: one lower-cased line per input "
          "line. That real logs contain nothing else matching the pattern is an assumption. Non-empty step lists are returned and written, both plan-less classes are reachable and decided by the unsolvability markers, regex calls have (pattern, log) in that order.",
          TRUST, "DESIGN.md 4/C19")
    claim("C20",
          "def-use provenance of the parameter map and of per-position lookups, finite valuation over 'is a domain constant', loop completeness",
          "Decides: parameter map = zip(signature, call arguments) in order; declared parameter i is bound through the literal's i-th argument; "
          "constants keep name and own type, parameters take the action's type; effect groups ground all their effects (discrete and numeric on every path), one group per schema group; "
          "the precondition translation attaches every operand class (known finding: nested / forall are dropped). Set equality with the substituted "
          "schema is not decided. The literal's typed signature gets the constant's own type / the action's parameter type; per kind of numeric node the grounded node is a new node with the right value and operands in order.",
          TRUST + "Five known findings (KF1, KF2, KF4).", "DESIGN.md 4/C20")
