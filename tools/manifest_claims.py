"""Per-property claims: technique, what the level means, trusted base. Edited as rules are added."""


def register(claim):
    claim("C12",
          "abstract evaluation of operator-table lambdas over a 5-point ordering domain + rational normal forms; def-use provenance for operand order",
          "Decides, for every input at once, the structural clauses of C12: the arithmetic table computes x<op>y, the comparison "
          "table is tolerant for = <= >= and strict for < >, the tolerance is the configured EPSILON, assign/increase/decrease set "
          "v / old+v / old-v, and child 0 / child 1 are left / right operand at every evaluation, construction and printing site. "
          "Floating-point results are not decided.",
          "Trusted: CPython ast, the abstract model of math.isclose (|x-y|<=abs_tol when rel_tol=0), the folding of module constants.",
          "DESIGN.md section 4 C12")
