#!/venv/bin/python
"""Regenerates /verif/MANIFEST.json from the CLAIMS table below and the rule modules that exist."""
import json
import os
import sys

HERE = os.path.dirname(os.path.abspath(__file__))
VERIF = os.path.dirname(HERE)
sys.path.insert(0, VERIF)

PY = "/venv/bin/python"

# property id -> (technique, level text, level note, design ref)
CLAIMS = {}


def claim(pid, technique, text, note, ref):
    CLAIMS[pid] = dict(technique=technique, text=text, note=note, ref=ref)


from tools.manifest_claims import register  # noqa: E402

register(claim)

ALL = [f"C{i:02d}" for i in range(1, 21)]


def main():
    checks = []
    na = []
    pending = json.load(open(os.path.join(HERE, "pending_reasons.json")))
    for pid in ALL:
        modp = os.path.join(VERIF, "sa", "rules", pid.lower() + ".py")
        if pid in CLAIMS and os.path.exists(modp):
            c = CLAIMS[pid]
            checks.append({
                "property_id": pid,
                "quick_cmd": f"{PY} /verif/check {pid} --tier quick",
                "thorough_cmd": f"{PY} /verif/check {pid} --tier thorough",
                "evidence_file": f"/verif/evidence/{pid}.json",
                "replay_cmd_template": f"{PY} /verif/check {pid} --replay {{path}}",
                "engine": "sa",
                "level_claimed": {"category": "other", "text": c["text"], "design_ref": c["ref"]},
                "level_note": c["note"],
                "technique": c["technique"],
            })
        else:
            na.append({"property_id": pid, "reason": pending.get(pid, "check not built yet (see DESIGN.md section 9)")})
    man = {
        "version": 1,
        "setup_cmd": f"{PY} -m compileall -q /verif/sa /verif/check >/dev/null 2>&1; {PY} /verif/check C12 --no-evidence >/dev/null; true",
        "hooks": {
            "guard": "PDDL_PLUS_PARSER_VERIF",
            "enable": "none needed: the checks read the source with ast and never import or instrument the library",
            "baseline_off_cmd": "cd /repo && /venv/bin/python -m pytest -ra -q -p no:cacheprovider --timeout=900 --continue-on-collection-errors",
            "source_commits": [],
            "add_only": True,
        },
        "engines": [{
            "name": "sa",
            "path": "/verif/sa",
            "serves_properties": [c["property_id"] for c in checks],
            "kind_free_text": "repository-specific static analysis over Python ast: resolver + annotation-driven types, "
                              "statement CFG with dominators / reaching definitions, def-use provenance, finite guard "
                              "valuation, abstract evaluation of operator tables, effect (mutation) summaries, field coverage, "
                              "string-template and regex-AST rules",
        }],
        "checks": checks,
        "not_applicable": na,
        "notes": "All checks are static (source is parsed, never executed). Exit 2 + ANALYSIS-ERROR means the analysis "
                 "could not run (anchor vanished / construct not interpreted); it is never a silent pass. Known genuine "
                 "defects that are recorded rather than repaired are listed in /verif/known_findings.json.",
    }
    json.dump(man, open(os.path.join(VERIF, "MANIFEST.json"), "w"), indent=1)
    print(f"MANIFEST.json: {len(checks)} checks, {len(na)} not_applicable")


if __name__ == "__main__":
    main()
