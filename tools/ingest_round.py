#!/venv/bin/python
"""Later campaigns: copy the deliverables of the round-N sub-agents (<root>/B*/refactor*, <root>/S*/defect*) into
/verif/benign/B<N>-Cxx-n and /verif/seeded/S<N>-Cxx-n.  Seeded defects are confirmed first (tools/verify_seeded.py in a scratch
worktree: applies, compiles, test baselines unchanged, demo 0 -> 1).

usage: ingest_round.py --round 3 [--root /tmp/r3] [--no-verify]
"""
import argparse
import json
import os
import re
import shutil
import subprocess
import sys
from concurrent.futures import ThreadPoolExecutor

PY = "/venv/bin/python"
VERIF = os.path.dirname(os.path.dirname(os.path.abspath(__file__)))


def prop_of(d):
    notes = os.path.join(d, "notes.md")
    if not os.path.exists(notes):
        return None
    head = open(notes).read(3000)
    m = re.search(r"\bC(\d\d)\b", head)
    return f"C{m.group(1)}" if m else None


def next_id(kind_dir, prefix, prop):
    k = 1
    while os.path.isdir(os.path.join(VERIF, kind_dir, f"{prefix}-{prop}-{k}")):
        k += 1
    return f"{prefix}-{prop}-{k}"


def verify(d, slot):
    env = dict(os.environ, VERIFY_WT=f"/tmp/wt/verify{slot}")
    r = subprocess.run([PY, os.path.join(VERIF, "tools", "verify_seeded.py"), d], capture_output=True, text=True, env=env)
    log = (r.stdout + r.stderr).strip()
    open(os.path.join(d, "verify.log"), "w").write(log)
    return "VERIFIED" in log, log


def main():
    ap = argparse.ArgumentParser()
    ap.add_argument("--round", type=int, default=2)
    ap.add_argument("--root", default=None)
    ap.add_argument("--no-verify", action="store_true")
    args = ap.parse_args()
    args.root = args.root or f"/tmp/r{args.round}"
    benign, seeded = [], []
    for g in sorted(os.listdir(args.root)):
        gd = os.path.join(args.root, g)
        if not os.path.isdir(gd):
            continue
        for sub in sorted(os.listdir(gd)):
            d = os.path.join(gd, sub)
            if not os.path.isfile(os.path.join(d, "patch.diff")):
                continue
            if sub.startswith("refactor"):
                benign.append(d)
            elif sub.startswith("defect"):
                seeded.append(d)
    for d in benign:
        prop = prop_of(d)
        if prop is None:
            print("skip (no property id in notes.md)", d)
            continue
        marker = os.path.join(d, ".ingested")
        if os.path.exists(marker):
            continue
        bid = next_id("benign", f"B{args.round}", prop)
        out = os.path.join(VERIF, "benign", bid)
        os.makedirs(out)
        for fn in ("patch.diff", "notes.md", "equiv.py"):
            if os.path.exists(os.path.join(d, fn)):
                shutil.copy(os.path.join(d, fn), os.path.join(out, fn))
        open(marker, "w").write(bid)
        print("benign", bid, "<-", d)
    todo = [d for d in seeded if not os.path.exists(os.path.join(d, ".ingested"))]
    results = {}
    if not args.no_verify:
        def worker(slot):
            return {d: verify(d, slot) for i, d in enumerate(todo) if i % 8 == slot}     # one scratch worktree per slot, jobs of a slot in sequence

        with ThreadPoolExecutor(8) as ex:
            for part in ex.map(worker, range(8)):
                results.update(part)
    for d in todo:
        prop = prop_of(d)
        ok, log = results.get(d, (True, "not verified (--no-verify)"))
        if prop is None or not ok:
            print("skip (not verified)" if prop else "skip (no property id)", d, "|", log.splitlines()[-1][:200] if log else "")
            continue
        sid = next_id("seeded", f"S{args.round}", prop)
        out = os.path.join(VERIF, "seeded", sid)
        os.makedirs(out)
        for fn in ("patch.diff", "demo.py", "notes.md"):
            if os.path.exists(os.path.join(d, fn)):
                shutil.copy(os.path.join(d, fn), os.path.join(out, fn))
        files = sorted(set(re.findall(r"^\+\+\+ b/(\S+)", open(os.path.join(d, "patch.diff")).read(), re.M)))
        meta = {"id": sid, "breaks_property": prop, "round": args.round,
                "written_by": "sub-agent that saw only the property text and a scratch worktree (nothing from /verif)",
                "files_changed": files,
                "confirmed": {"how": "tools/verify_seeded.py in a scratch worktree: patch applies, package compiles, pinned suite and wider suite as baseline, "
                                     "demo.py exits 0 on the unchanged tree and 1 on the changed tree", "log": log.splitlines()[-12:]}}
        json.dump(meta, open(os.path.join(out, "meta.json"), "w"), indent=1)
        open(os.path.join(d, ".ingested"), "w").write(sid)
        print("seeded", sid, "<-", d)


if __name__ == "__main__":
    sys.exit(main())
