"""E6 -- field coverage: which fields of an object flow into a function's result (backward slice),
and which source expression each field of a constructed object is initialised from."""
from __future__ import annotations

import ast
from typing import Dict, List, Optional, Set, Tuple

from .core import FuncInfo, Repo, names_in


def _base_name(e: ast.AST) -> Optional[str]:
    while not isinstance(e, ast.Name) and hasattr(e, "value"):
        e = e.value
    return e.id if isinstance(e, ast.Name) else None


def _relevant(fn: ast.AST, sink: str, control: bool):
    """(relevant names, relevant expressions) of a backward slice from the function result"""
    rel: Set[str] = set()
    relexprs: List[ast.AST] = []
    rets = [n for n in ast.walk(fn) if isinstance(n, (ast.Return, ast.Yield, ast.YieldFrom)) and n.value is not None]
    for r in rets:
        rel |= names_in(r.value)
        relexprs.append(r.value)
    return rel, relexprs


def param_flows_to_result(repo: Repo, f: FuncInfo, param: str, depth: int = 0) -> bool:
    """does the value of `param` flow (data flow) into f's result?"""
    got = slice_fields(repo, f, "\0none", None, depth + 1, set(), control=False, want_names=True)
    return param in got


_DUNDER_OF = {"str": "__str__", "repr": "__repr__", "hash": "__hash__", "len": "__len__", "bool": "__bool__", "iter": "__iter__"}


def slice_fields(repo: Repo, f: FuncInfo, root: str, cls: Optional[str], depth: int = 0, seen: Optional[set] = None,
                 sink: str = "return", control: bool = True, want_names: bool = False) -> Set[str]:
    """Fields of the object named `root` that are read in f on some path *and* flow into the result
    (return / yield value; or, with sink='self', into the object itself).  Methods and properties of the
    same object (root.m(), root.p) and super().m() are followed three levels deep."""
    seen = seen if seen is not None else set()
    fn = f.node
    rel: Set[str] = set()
    relexprs: List[ast.AST] = []
    rets = [n for n in ast.walk(fn) if isinstance(n, (ast.Return, ast.Yield, ast.YieldFrom)) and n.value is not None]
    for r in rets:
        rel |= names_in(r.value)
        relexprs.append(r.value)
    if sink == "effects":
        # every call / store is a sink (used for mutators such as change_signature: "which fields are visited")
        for n in ast.walk(fn):
            if isinstance(n, ast.Call):
                relexprs.append(n)
                rel |= names_in(n)
            elif isinstance(n, (ast.Assign, ast.AugAssign)):
                relexprs.append(n.value)
                rel |= names_in(n.value)
                for t in (n.targets if isinstance(n, ast.Assign) else [n.target]):
                    relexprs.append(t)
                    rel |= names_in(t)
    defs: List[Tuple[Set[str], ast.AST]] = []
    for n in ast.walk(fn):
        if isinstance(n, ast.Assign):
            for t in n.targets:
                defs.append((names_in(t), n.value))
        elif isinstance(n, ast.AugAssign):
            defs.append((names_in(n.target), n.value))
        elif isinstance(n, ast.AnnAssign) and n.value is not None:
            defs.append((names_in(n.target), n.value))
        elif isinstance(n, ast.For):
            defs.append((names_in(n.target), n.iter))
        elif isinstance(n, ast.Call) and isinstance(n.func, ast.Attribute) and n.func.attr in (
                "append", "extend", "add", "update", "insert", "setdefault") and isinstance(n.func.value, (ast.Name, ast.Subscript, ast.Attribute)):
            b = _base_name(n.func.value)
            if b:
                for a in n.args:
                    defs.append(({b}, a))
        elif isinstance(n, ast.NamedExpr):
            defs.append((names_in(n.target), n.value))
    changed = True
    while changed:
        changed = False
        for tg, src in defs:
            if tg & rel and not any(src is x for x in relexprs):
                relexprs.append(src)
                rel |= names_in(src)
                changed = True
        for n in (ast.walk(fn) if control else ()):
            if isinstance(n, (ast.If, ast.While, ast.IfExp)) and not any(n.test is x for x in relexprs):
                inner = list(ast.walk(n))
                if any(any(x is y for y in relexprs) for x in inner) or any(isinstance(x, (ast.Return, ast.Yield)) for x in inner):
                    relexprs.append(n.test)
                    rel |= names_in(n.test)
                    changed = True
    if want_names:
        return rel
    # plain copies of the root (parameter bindings of helpers analysed in place) denote the same object
    roots = {root}
    grew = True
    while grew:
        grew = False
        for n in ast.walk(fn):
            if isinstance(n, (ast.Assign, ast.AnnAssign)) and isinstance(n.value, ast.Name) and n.value.id in roots:
                for t in (n.targets if isinstance(n, ast.Assign) else [n.target]):
                    if isinstance(t, ast.Name) and t.id not in roots:
                        roots.add(t.id)
                        grew = True
    fields: Set[str] = set()
    for e in relexprs:
        blocked = _blocked_by_callee(repo, f, e, root, depth) if depth < 3 else set()
        for n in ast.walk(e):
            if isinstance(n, ast.Attribute) and isinstance(n.value, ast.Name) and n.value.id in roots and id(n) not in blocked:
                fields.add(n.attr)
            # str(obj) / repr(obj) / hash(obj) / f"{obj}" read what the corresponding special method reads
            if isinstance(n, ast.Call) and isinstance(n.func, ast.Name) and n.func.id in _DUNDER_OF and len(n.args) == 1 \
                    and isinstance(n.args[0], ast.Name) and n.args[0].id in roots:
                fields.add(_DUNDER_OF[n.func.id])
            if isinstance(n, ast.FormattedValue) and isinstance(n.value, ast.Name) and n.value.id in roots:
                fields.add("__repr__" if n.conversion == 114 else "__str__")
    out: Set[str] = set()
    for fld in fields:
        m = repo.find_method(cls, fld) if cls else None
        if m is not None and depth < 3 and (m.qn, fld) not in seen:
            seen.add((m.qn, fld))
            selfname = m.params[0] if m.params else "self"
            out |= slice_fields(repo, m, selfname, m.cls, depth + 1, seen, sink="return", control=control)
        else:
            out.add(fld)
    for e in relexprs:
        for n in ast.walk(e):
            if isinstance(n, ast.Call) and isinstance(n.func, ast.Attribute) and isinstance(n.func.value, ast.Call) and \
                    isinstance(n.func.value.func, ast.Name) and n.func.value.func.id == "super" and cls and root == (f.self_name or "self"):
                for b in repo.classes[cls].bases:
                    m = repo.find_method(b, n.func.attr)
                    if m is not None and depth < 3 and (m.qn, "super") not in seen:
                        seen.add((m.qn, "super"))
                        out |= slice_fields(repo, m, m.params[0], m.cls, depth + 1, seen, control=control)
    return out


def _blocked_by_callee(repo: Repo, f: FuncInfo, e: ast.AST, root: str, depth: int) -> Set[int]:
    """ids of `root.field` nodes that are handed to a helper of the repository whose result does not depend on that argument"""
    blocked: Set[int] = set()
    for c in ast.walk(e):
        if not isinstance(c, ast.Call):
            continue
        cat, tg = repo.resolve_call(f, c)
        if cat != "repo" or len(tg) != 1 or tg[0][1] is None:
            continue
        callee = tg[0][1]
        if callee.qn == f.qn:
            continue
        params = list(callee.params)
        if callee.is_method and isinstance(c.func, ast.Attribute):
            params = params[1:]
        bound = list(zip(params, c.args)) + [(k.arg, k.value) for k in c.keywords if k.arg]
        for pn, arg in bound:
            attrs = [n for n in ast.walk(arg) if isinstance(n, ast.Attribute) and isinstance(n.value, ast.Name) and n.value.id == root]
            if attrs and pn in callee.params and not param_flows_to_result(repo, callee, pn, depth):
                blocked |= {id(a) for a in attrs}
    return blocked


# ----------------------------------------------------------------------------- constructor field sources
def ctor_param_of_field(repo: Repo, cname: str, _depth: int = 0) -> Dict[str, Set[str]]:
    """{field: {constructor parameter names it is initialised from}} following super().__init__ chains;
    a field initialised from something else maps to {'<expr>'}."""
    out: Dict[str, Set[str]] = {}
    init = repo.find_method(cname, "__init__")
    if init is None or _depth > 4:
        return out
    s = init.self_name
    params = set(init.params[1:])
    for n in ast.walk(init.node):
        if isinstance(n, ast.Assign):
            for t in n.targets:
                if isinstance(t, ast.Attribute) and isinstance(t.value, ast.Name) and t.value.id == s:
                    srcs = names_in(n.value) & params
                    out.setdefault(t.attr, set()).update(srcs or {"<expr>"})
        if isinstance(n, ast.Call) and isinstance(n.func, ast.Attribute) and n.func.attr == "__init__" and \
                isinstance(n.func.value, ast.Call) and isinstance(n.func.value.func, ast.Name) and n.func.value.func.id == "super":
            for b in repo.classes[init.cls].bases:
                if b not in repo.classes:
                    continue
                parent = ctor_param_of_field(repo, b, _depth + 1)
                pinit = repo.find_method(b, "__init__")
                if pinit is None:
                    continue
                pparams = pinit.params[1:]
                bound: Dict[str, ast.AST] = {}
                for p, a in zip(pparams, n.args):
                    bound[p] = a
                for k in n.keywords:
                    if k.arg:
                        bound[k.arg] = k.value
                for fld, ps in parent.items():
                    for p in ps:
                        if p in bound:
                            srcs = names_in(bound[p]) & params
                            out.setdefault(fld, set()).update(srcs or {"<expr>"})
                        elif p != "<expr>":
                            out.setdefault(fld, set()).add("<default>")
    return out


def constructed_field_sources(repo: Repo, f: FuncInfo, call: ast.Call, cname: str) -> Dict[str, List[ast.AST]]:
    """For `x = C(args...)` (+ later `x.fld = expr`) in f: {field: [source expressions in f]}"""
    mapping = ctor_param_of_field(repo, cname)
    init = repo.find_method(cname, "__init__")
    bound: Dict[str, ast.AST] = {}
    if init is not None:
        pparams = init.params[1:]
        for p, a in zip(pparams, call.args):
            bound[p] = a
        for k in call.keywords:
            if k.arg:
                bound[k.arg] = k.value
    out: Dict[str, List[ast.AST]] = {}
    for fld, ps in mapping.items():
        for p in ps:
            if p in bound:
                out.setdefault(fld, []).append(bound[p])
    # post-construction assignments to the variable holding the object
    var = None
    for n in ast.walk(f.node):
        if isinstance(n, ast.Assign) and n.value is call and len(n.targets) == 1 and isinstance(n.targets[0], ast.Name):
            var = n.targets[0].id
    if var:
        for n in ast.walk(f.node):
            if isinstance(n, ast.Assign):
                for t in n.targets:
                    if isinstance(t, ast.Attribute) and isinstance(t.value, ast.Name) and t.value.id == var:
                        out.setdefault(t.attr, []).append(n.value)
    return out
