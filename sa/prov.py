"""Flow-sensitive value provenance inside one function (def-use chains over the CFG).

`Prov(repo, f).trace(expr, at_node)` returns a set of *paths*.  A path is a tuple of steps that leads
from a root to the value of `expr`:

  roots :  'param:<name>'  'self'  'global:<name>'  'const:<repr>'  'fresh:<kind>'  'ext:<callee>'  'unknown:<why>'
  steps :  'attr:<name>'  'item'  'item:<const>'  'slice:<lo>:<hi>'  'elem'  'unpack:<i>'
           'call:<method>'         (method called on the value, result taken)
           'arg<i>:<callee>'       (value passed as i-th argument of callee, result taken)
           'kw:<name>:<callee>'    (same, keyword argument)

Names are resolved through reaching definitions, so the answer is per program point.  Local names are
irrelevant: only parameters, fields and callees appear in a path.
"""
from __future__ import annotations

import ast
from typing import Dict, List, Optional, Set, Tuple

from . import cfg as C
from .core import FuncInfo, Repo, parent_map

Path = Tuple[str, ...]
SHELLS = {"fresh:list", "fresh:tuple", "fresh:set", "fresh:dict", "fresh:comp", "fresh:list()", "fresh:set()", "fresh:dict()", "fresh:tuple()"}
SHELL_PASS = {"arg0:enumerate", "arg0:list", "arg0:sorted", "arg0:tuple", "arg0:set", "arg0:reversed", "arg0:iter", "call:items", "call:keys",
              "call:values", "call:copy", "arg0:dict"}
MAXLEN = 14
MAXPATHS = 1500


KEY_ITER_PASS = {"arg0:enumerate", "arg0:list", "arg0:sorted", "arg0:tuple", "arg0:set", "arg0:reversed", "arg0:iter", "call:keys"}


def _after_setval_keysonly(p) -> bool:
    """the path is a VALUE stored into a dict followed only by steps that iterate the dict's keys"""
    idx = [i for i, x in enumerate(p) if x.startswith("in:setval@")]
    if not idx:
        return False
    return all(x in KEY_ITER_PASS or (x.startswith("arg") and x.endswith(":zip")) for x in p[idx[-1] + 1:])


def callee_name(call: ast.Call) -> str:
    f = call.func
    if isinstance(f, ast.Name):
        return f.id
    if isinstance(f, ast.Attribute):
        return f.attr
    return "<expr>"


class Prov:
    def __init__(self, repo: Repo, f: FuncInfo):
        self.repo = repo
        self.f = f
        self.g = C.cfg_of(f.node)
        self.rd = C.ReachingDefs(self.g, f.params)
        self.parents = parent_map(f.node)
        self._under = None
        self._node_of_expr: Dict[int, int] = {}
        for n in self.g.nodes():
            s = self.g.stmt[n]
            if s is None:
                continue
            roots = []
            h = C.header(s)
            if h is not None:
                roots.append(h)
            if isinstance(s, ast.For):
                roots.append(s.target)
            if isinstance(s, ast.With):
                roots.extend(it.optional_vars for it in s.items if it.optional_vars is not None)
            for r in roots:
                for sub in ast.walk(r):
                    self._node_of_expr[id(sub)] = n
        # flow-insensitive content flows into local containers: X.append(v), X.add(v), X[k] = v, ...
        self._content: Dict[str, List[Tuple[str, ast.AST]]] = {}
        for nd in ast.walk(f.node):
            if isinstance(nd, ast.Call) and isinstance(nd.func, ast.Attribute) and isinstance(nd.func.value, ast.Name) \
                    and nd.func.attr in ("append", "add", "extend", "update", "insert", "setdefault", "appendleft"):
                for a in nd.args:
                    self._content.setdefault(nd.func.value.id, []).append((nd.func.attr, a))
            elif isinstance(nd, ast.Call) and isinstance(nd.func, ast.Attribute) and isinstance(nd.func.value, ast.Subscript) \
                    and isinstance(nd.func.value.value, ast.Name) and nd.func.attr in ("append", "add", "extend", "update", "insert", "appendleft"):
                # d[k].append(v): content of a group inside a local dict (regrouping); marked with '[]'
                for a in nd.args:
                    self._content.setdefault(nd.func.value.value.id, []).append((nd.func.attr + "[]", a))
            elif isinstance(nd, ast.Assign):
                for t in nd.targets:
                    if isinstance(t, ast.Subscript) and isinstance(t.value, ast.Name):
                        # a dict's values are reached by subscripting only, its keys by iterating only
                        self._content.setdefault(t.value.id, []).append(("setval" if self._is_dict(t.value) else "setitem", nd.value))
                        if not isinstance(t.slice, ast.Slice):
                            self._content.setdefault(t.value.id, []).append(("setkey", t.slice))

    def _alias_group(self, name: str) -> Set[str]:
        """local names connected to `name` by plain copies (`a = b`, the parameter bindings of helpers analysed in place): they denote the
        same container object, so what is put into one is in the other"""
        if not hasattr(self, "_alias_classes"):
            cls: Dict[str, Set[str]] = {}
            for nm, v, _st in C.simple_bindings(self.f.node):
                if isinstance(v, ast.Name) and nm.split("__")[0] != "" and ("__i" in nm or "__g" in nm or "__c" in nm or "__i" in v.id or "__g" in v.id):
                    a, b = cls.setdefault(nm, {nm}), cls.setdefault(v.id, {v.id})
                    u = a | b
                    for x in u:
                        cls[x] = u
            self._alias_classes = cls
        return self._alias_classes.get(name, {name})

    def _is_dict(self, name: ast.Name) -> bool:
        try:
            t = self.repo.types(self.f).typeof(name)
        except Exception:
            return False
        return bool(t) and t[0] == "dict"

    # ------------------------------------------------------------------
    def node_of(self, expr: ast.AST) -> int:
        n = self._node_of_expr.get(id(expr))
        if n is None:
            # climb to the enclosing statement
            cur = expr
            while cur in self.parents:
                cur = self.parents[cur]
                n = self._node_of_expr.get(id(cur))
                if n is not None:
                    return n
                nn = self.g.node_of(cur)
                if nn is not None:
                    return nn
            raise KeyError(f"expression not in CFG: {ast.dump(expr)[:80]}")
        return n

    def trace(self, expr: ast.AST, at: Optional[int] = None, keys: bool = False, under=None) -> Set[Path]:
        """keys=True also returns the paths of subscript index expressions (marked by the step 'askey').
        under=(val, seen): provenance under a valuation of guard atoms -- conditional expressions decided by `val` contribute
        only the chosen branch and only definitions at CFG nodes in `seen` (the nodes reachable under the valuation) count."""
        if at is None:
            at = self.node_of(expr)
        # traces nest (a valuation may itself ask for provenance): the state of the trace in progress is put aside
        saved = (getattr(self, "_under", None), getattr(self, "_defmemo", None), getattr(self, "_frames", None))
        if not hasattr(self, "_plainmemo"):
            self._plainmemo = {}
        self._under = under
        self._defmemo = self._plainmemo if under is None else {}    # contributions under a valuation are not those of the plain trace
        self._frames = []
        try:
            out = self._trace(expr, at, frozenset(), 0)
        finally:
            self._under, self._defmemo, self._frames = saved
            if self._frames is None:
                self._frames = []
            if self._defmemo is None:
                self._defmemo = self._plainmemo
        if not keys:
            out = {p for p in out if "askey" not in p}
        return out

    # ------------------------------------------------------------------
    def _ext(self, paths: Set[Path], step: str) -> Set[Path]:
        out = set()
        shell_step = step == "elem" or step.startswith("item")
        for p in paths:
            if shell_step and p[0] in SHELLS and all(x in SHELL_PASS or (x.startswith("arg") and x.endswith(":zip")) for x in p[1:]):
                continue  # the elements of a fresh container are its 'in:' flows, the container object has no others
            if step == "elem" and _after_setval_keysonly(p):
                continue
            if shell_step and step != "elem" and p[-1].startswith("in:setkey@"):
                continue
            if step.startswith("unpack:") and len(p) >= 2 and p[-1] == "elem" and p[-2].endswith(":zip") and p[-2].startswith("arg") \
                    and p[-2][3:-4].isdigit() and p[-2][3:-4] != step[7:]:
                continue  # the i-th component of an element of zip(a0, a1, ..) comes from a_i only
            if (step.startswith("unpack:") or step.startswith("item:")) and step.split(":", 1)[1].isdigit():
                # (a, b)[0] / x, y = (a, b): the element put into a display at position j and taken out at position i
                if p[-1].startswith("in:") and p[-1][3:].isdigit():
                    if p[-1][3:] == step.split(":", 1)[1]:
                        out.add(p[:-1])
                    continue
                if p in (("fresh:tuple",), ("fresh:list",)):
                    continue        # the display object itself is not one of its elements
            rec = self._record_step(p, step)
            if rec is not None:
                if rec != ():
                    out.add(rec)    # reading back the field of a record that was just built: the constructor argument itself
                continue
            if step.startswith(("arg", "kw:")) and step in p:
                # a value fed again through the same call position with nothing but call positions in between (loop-carried
                # accumulators): one step says it
                i = len(p) - 1 - p[::-1].index(step)
                if all(x.startswith(("arg", "kw:")) for x in p[i + 1:]):
                    out.add(p)
                    continue
            out.add(p + (step,) if len(p) < MAXLEN else p)
        return out

    def _record_step(self, p: Path, step: str):
        """`Rec(a, b).x` / `x, y = Rec(a, b)` / `Rec(a, b)[0]` for a record class (NamedTuple / dataclass without own constructor): the path
        of the matching constructor argument (put in, taken out again); () when the path belongs to another field; None when not applicable"""
        last = p[-1]
        if not (last.startswith("arg") or last.startswith("kw:") or last.startswith("fresh:")):
            return None
        cls = last.rsplit(":", 1)[1] if ":" in last else ""
        ci = self.repo.classes.get(cls)
        if ci is not None and not getattr(ci, "record_kind", None) and step.startswith("attr:"):
            return self._plain_ctor_step(p, step, cls)
        if ci is None or not getattr(ci, "record_kind", None):
            return None
        names = [f for f, _d in ci.record_fields]
        want = None
        if step.startswith("attr:") and step[5:] in names:
            want = step[5:]
        elif ci.record_kind == "namedtuple" and (step.startswith("unpack:") or step.startswith("item:")):
            k = step.split(":", 1)[1]
            if k.lstrip("-").isdigit() and -len(names) <= int(k) < len(names):
                want = names[int(k)]
        if want is None:
            return None
        if last.startswith("fresh:"):
            return () if len(p) == 1 else None      # the record object itself has no content of its own
        if last.startswith("kw:"):
            have = last.split(":")[1]
        else:
            i = last[3:last.index(":")]
            have = names[int(i)] if i.isdigit() and int(i) < len(names) else None
        return p[:-1] if have == want else ()

    def _plain_ctor_step(self, p: Path, step: str, cls: str):
        """`Cls(a, b).x` for an ordinary class whose constructor stores a parameter unchanged (`self.x = b`, the only store into self.x in
        __init__): the path of that argument; () when the argument at hand feeds another field; None when the constructor is not that plain"""
        cache = self.repo.__dict__.setdefault("_plain_ctor_fields", {})
        if cls not in cache:
            fields = None
            init = self.repo.find_method(cls, "__init__")
            if init is not None and getattr(init, "node", None) is not None and init.params:
                self_name = init.params[0]
                params = [x for x in init.params[1:]]
                stores: Dict[str, list] = {}
                for n in ast.walk(init.node):
                    tg = n.targets if isinstance(n, ast.Assign) else [n.target] if isinstance(n, (ast.AnnAssign, ast.AugAssign)) else []
                    for t in tg:
                        if isinstance(t, ast.Attribute) and isinstance(t.value, ast.Name) and t.value.id == self_name:
                            stores.setdefault(t.attr, []).append((n, getattr(n, "value", None)))
                rebound = {x.id for n in ast.walk(init.node) for x in ([n] if isinstance(n, ast.Name) and isinstance(n.ctx, ast.Store) else [])}
                fields = {}
                for a, lst in stores.items():
                    if len(lst) == 1 and isinstance(lst[0][0], (ast.Assign, ast.AnnAssign)) and isinstance(lst[0][1], ast.Name) and lst[0][1].id in params \
                            and lst[0][1].id not in rebound and lst[0][0] in init.node.body:
                        fields[a] = lst[0][1].id
                fields = (params, fields, set(stores))
            cache[cls] = fields
        got = cache[cls]
        if got is None:
            return None
        params, fields, stored = got
        want = step[5:]
        last = p[-1]
        if last.startswith("fresh:"):
            return None
        if last.startswith("kw:"):
            have = last.split(":")[1]
        else:
            i = last[3:last.index(":")]
            have = params[int(i)] if i.isdigit() and int(i) < len(params) else None
        if want in fields:
            return p[:-1] if fields[want] == have else ()
        return None

    def _comp_binding(self, name_node: ast.Name):
        """If the name is bound by an enclosing comprehension, return (generator, position-in-target)."""
        cur = name_node
        while cur in self.parents:
            par = self.parents[cur]
            if isinstance(par, (ast.ListComp, ast.SetComp, ast.GeneratorExp, ast.DictComp)):
                for gen in par.generators:
                    if name_node.id in C.target_names(gen.target):
                        # not when the name occurs inside that generator's own iter
                        if not any(x is name_node for x in ast.walk(gen.iter)):
                            return gen
            if isinstance(par, ast.Lambda):
                if name_node.id in [a.arg for a in par.args.args]:
                    return "lambda"
            cur = par
        return None

    def _paired(self, target: ast.AST, value: ast.AST, name: str) -> Optional[ast.AST]:
        """a, b = x, y  ->  the value expression paired with `name` (None when the shapes do not match)"""
        if isinstance(target, ast.Name):
            return value if target.id == name else None
        if isinstance(target, (ast.Tuple, ast.List)) and isinstance(value, (ast.Tuple, ast.List)) and len(target.elts) == len(value.elts) \
                and not any(isinstance(e, ast.Starred) for e in list(target.elts) + list(value.elts)):
            for te, ve in zip(target.elts, value.elts):
                if name in C.target_names(te):
                    return self._paired(te, ve, name)
        return None

    def _unpack(self, target: ast.AST, name: str, base: Set[Path]) -> Set[Path]:
        if isinstance(target, ast.Name):
            return base
        if isinstance(target, (ast.Tuple, ast.List)):
            star = next((k for k, e in enumerate(target.elts) if isinstance(e, ast.Starred)), None)
            for i, e in enumerate(target.elts):
                if name in C.target_names(e):
                    if isinstance(e, ast.Starred):
                        # head, *rest = xs: `rest` is the slice xs[i:] (xs[i:-k] when k names follow)
                        after = len(target.elts) - i - 1
                        return self._unpack(e.value, name, self._ext(base, f"slice:{i}:" + (f"-{after}" if after else "")))
                    if star is not None and i > star:
                        return self._unpack(e, name, self._ext(base, f"item:{i - len(target.elts)}"))
                    return self._unpack(e, name, self._ext(base, f"unpack:{i}"))
        if isinstance(target, ast.Starred):
            return self._unpack(target.value, name, base)
        return base

    def _trace(self, e: ast.AST, at: int, seen: frozenset, depth: int) -> Set[Path]:
        if depth > 40:
            self._note(taint=True)
            return {("unknown:depth",)}
        T = lambda x: self._trace(x, at, seen, depth + 1)
        if isinstance(e, ast.Constant):
            return {(f"const:{e.value!r}",)}
        if isinstance(e, ast.JoinedStr):
            out = {("fresh:fstring",)}
            for v in e.values:
                if isinstance(v, ast.FormattedValue):
                    out |= self._ext(T(v.value), "arg0:format")
            return out
        if isinstance(e, ast.Name):
            return self._trace_name(e, at, seen, depth)
        if isinstance(e, ast.Attribute):
            return self._ext(T(e.value), f"attr:{e.attr}")
        if isinstance(e, ast.Subscript):
            sl = e.slice
            if isinstance(sl, ast.Slice):
                lo = ast.unparse(sl.lower) if sl.lower else ""
                hi = ast.unparse(sl.upper) if sl.upper else ""
                return self._ext(T(e.value), f"slice:{lo}:{hi}")
            if isinstance(sl, ast.Constant):
                return self._ext(T(e.value), f"item:{sl.value!r}")
            if isinstance(sl, ast.UnaryOp) and isinstance(sl.op, ast.USub) and isinstance(sl.operand, ast.Constant):
                return self._ext(T(e.value), f"item:-{sl.operand.value!r}")
            return self._ext(T(e.value), "item") | self._ext(T(sl), "askey")
        if isinstance(e, ast.Starred):
            return self._ext(T(e.value), "elem")
        if isinstance(e, ast.IfExp):
            if getattr(self, "_under", None) is not None:
                tv = C.eval3(e.test, self._under[0])
                if tv is True:
                    return T(e.body)
                if tv is False:
                    return T(e.orelse)
            return T(e.body) | T(e.orelse)
        if isinstance(e, ast.BoolOp):
            out = set()
            for v in e.values:
                out |= T(v)
            return out
        if isinstance(e, (ast.List, ast.Tuple, ast.Set)):
            out = {(f"fresh:{type(e).__name__.lower()}",)}
            positional = not isinstance(e, ast.Set)
            for i, x in enumerate(e.elts):
                if isinstance(x, ast.Starred):
                    positional = False      # what follows a starred element has no fixed position
                out |= self._ext(T(x), f"in:{i}" if positional else "in:elt")
            return out
        if isinstance(e, ast.Dict):
            out = {("fresh:dict",)}
            for k, v in zip(e.keys, e.values):
                if k is None:
                    out |= self._ext(T(v), "in:**")
                else:
                    out |= self._ext(T(k), "in:key") | self._ext(T(v), "in:value")
            return out
        if isinstance(e, (ast.ListComp, ast.SetComp, ast.GeneratorExp)):
            return {("fresh:comp",)} | self._ext(T(e.elt), "in:elt")
        if isinstance(e, ast.DictComp):
            return {("fresh:comp",)} | self._ext(T(e.key), "in:key") | self._ext(T(e.value), "in:value")
        if isinstance(e, ast.Call):
            return self._trace_call(e, at, seen, depth)
        if isinstance(e, ast.BinOp):
            return self._ext(T(e.left), f"binop:{type(e.op).__name__}:l") | self._ext(T(e.right), f"binop:{type(e.op).__name__}:r")
        if isinstance(e, ast.UnaryOp):
            return self._ext(T(e.operand), f"unop:{type(e.op).__name__}")
        if isinstance(e, ast.Compare):
            out = self._ext(T(e.left), "cmp")
            for c in e.comparators:
                out |= self._ext(T(c), "cmp")
            return out
        if isinstance(e, ast.NamedExpr):
            return T(e.value)
        if isinstance(e, ast.Lambda):
            return {("fresh:lambda",)}
        if isinstance(e, (ast.Await, ast.YieldFrom, ast.Yield)) and e.value is not None:
            return T(e.value)
        return {(f"unknown:{type(e).__name__}",)}

    def _trace_call(self, e: ast.Call, at: int, seen, depth) -> Set[Path]:
        T = lambda x: self._trace(x, at, seen, depth + 1)
        out: Set[Path] = set()
        cn = callee_name(e)
        if isinstance(e.func, ast.Attribute):
            out |= self._ext(T(e.func.value), f"call:{cn}")
            if cn in ("get", "pop", "setdefault") and e.args and not isinstance(e.args[0], ast.Starred):
                out |= self._ext(T(e.args[0]), "askey")     # d.get(k): k is the key that selects the value (like d[k])
        for i, a in enumerate(e.args):
            out |= self._ext(T(a), f"arg{i}:{cn}")
        for k in e.keywords:
            out |= self._ext(T(k.value), f"kw:{k.arg}:{cn}")
        if isinstance(e.func, ast.Name):
            r = self.repo.lookup(self.f.mod.name, e.func.id)
            if r and r[0] == "class":
                out.add((f"fresh:{e.func.id}",))
            elif r and r[0] == "external":
                out.add((f"ext:{e.func.id}",))
            elif not e.args and not e.keywords:
                out.add((f"fresh:{e.func.id}()",))
        if not out:
            out.add((f"fresh:{cn}()",))
        if len(out) > MAXPATHS:
            out = set(sorted(out)[:MAXPATHS])
        return out

    def _note(self, hit=None, visited=None, hits=None, taint=False) -> None:
        """book-keeping for the memo of definition contributions: what the evaluation in progress consulted / found cut"""
        if not self._frames:
            return
        top = self._frames[-1]
        if hit is not None:
            top[1].add(hit)
        if visited:
            top[0] |= visited
        if hits:
            top[1] |= hits
        if taint:
            top[2] = True

    def _def_paths(self, name: str, d: int, s2, depth: int) -> Set[Path]:
        """what the definition of `name` at node d contributes"""
        out: Set[Path] = set()
        if d == self.g.entry:
            out.add((f"param:{name}",))
            return out
        st = self.g.stmt[d]
        if isinstance(st, ast.Assign):
            for t in st.targets:
                if name in C.target_names(t):
                    paired = self._paired(t, st.value, name)
                    if paired is not None:
                        out |= self._trace(paired, d, s2, depth + 1)
                    else:
                        out |= self._unpack(t, name, self._trace(st.value, d, s2, depth + 1))
        elif isinstance(st, ast.AnnAssign) and st.value is not None:
            out |= self._trace(st.value, d, s2, depth + 1)
        elif isinstance(st, ast.AugAssign):
            out |= self._ext(self._trace(st.value, d, s2, depth + 1), f"aug:{type(st.op).__name__}")
            # previous value: x += e keeps what x held (a list / text that is extended, a number that is accumulated); the name is read
            # at the statement itself, where the incoming definitions are the ones before it
            try:
                out |= self._trace_name(ast.Name(id=name, ctx=ast.Load()), d, s2, depth + 1)
            except (KeyError, RecursionError):
                pass
            out.add((f"aug:{name}",))
        elif isinstance(st, ast.For):
            base = self._ext(self._trace(st.iter, d, s2, depth + 1), "elem")
            out |= self._unpack(st.target, name, base)
        elif isinstance(st, ast.With):
            for it in st.items:
                if it.optional_vars is not None and name in C.target_names(it.optional_vars):
                    out |= self._ext(self._trace(it.context_expr, d, s2, depth + 1), "with")
        elif isinstance(st, ast.ExceptHandler):
            out.add(("fresh:exception",))
        else:
            h = C.header(st)
            found = False
            if h is not None:
                for n in ast.walk(h):
                    if isinstance(n, ast.NamedExpr) and name in C.target_names(n.target):
                        out |= self._trace(n.value, d, s2, depth + 1)
                        found = True
            if not found:
                out.add((f"unknown:def@{type(st).__name__}",))
        return out

    def _trace_name(self, e: ast.Name, at: int, seen, depth) -> Set[Path]:
        name = e.id
        cb = self._comp_binding(e)
        if cb == "lambda":
            return {(f"param:lambda.{name}",)}
        if cb is not None:
            base = self._ext(self._trace(cb.iter, at, seen, depth + 1), "elem")
            return self._unpack(cb.target, name, base)
        if self.f.is_method and name == self.f.self_name:
            defs = self.rd.defs_reaching(at, name)
            if defs <= {self.g.entry}:
                return {("self",)}
        defs = self.rd.defs_reaching(at, name)
        # a use inside the defining statement's own header sees the incoming defs (already IN[at])
        if not defs:
            r = self.repo.lookup(self.f.mod.name, name)
            if r:
                if r[0] == "const":
                    ok, v = self.repo.fold(r[1], r[2])
                    if ok and not isinstance(v, list):
                        return {(f"const:{v!r}",), (f"global:{name}",)}
                return {(f"global:{name}",)}
            return {(f"builtin:{name}",)}
        out: Set[Path] = set()
        if getattr(self, "_under", None) is not None:
            live = {d for d in defs if d in self._under[1] or d == self.g.entry}
            defs = live or defs
        for d in defs:
            key = (name, d)
            if key in seen:
                self._note(hit=key)     # a definition on the current resolution stack is not followed again
                continue
            # the contribution of a definition depends on the context only through which of the definitions it (transitively)
            # consults are on the resolution stack: it is reused wherever exactly the same ones are cut
            got = None
            for V, H, res in self._defmemo.get(key, ()):
                if H <= seen and not (V & seen):
                    got = (V, H, res)
                    break
            if got is not None:
                self._note(visited=got[0] | {key}, hits=got[1])
                out |= got[2]
                continue
            frame = [set(), set(), False]
            self._frames.append(frame)
            try:
                contrib = self._def_paths(name, d, seen | {key}, depth)
            finally:
                self._frames.pop()
            V, H, tainted = frame
            H.discard(key)
            V.discard(key)
            if not tainted:
                ents = self._defmemo.setdefault(key, [])
                if len(ents) < 12:
                    ents.append((frozenset(V), frozenset(H), contrib))
            self._note(visited=V | {key}, hits=H, taint=tainted)
            out |= contrib
        ckey = ("content", name)
        group = self._alias_group(name)
        if any(n_ in self._content for n_ in group):
            if ckey in seen:
                self._note(hit=ckey)
            else:
                self._note(visited={ckey})
        if any(n_ in self._content for n_ in group) and ckey not in seen and not (self.f.is_method and name == self.f.self_name):
            mine = self.rd.defs_reaching(at, name)
            entries = [(n_, meth, arg) for n_ in sorted(group) for meth, arg in self._content.get(n_, [])]
            for cname, meth, arg in entries:
                try:
                    an = self.node_of(arg)
                except KeyError:
                    continue
                if cname == name and mine and not (self.rd.defs_reaching(an, name) & mine):
                    continue  # the store goes into another object that merely had the same variable name
                if getattr(self, "_under", None) is not None and an not in self._under[1]:
                    continue
                out |= self._ext(self._trace(arg, an, seen | {ckey}, depth + 1), f"in:{meth}@{name}")
        if len(out) > MAXPATHS:
            out = set(sorted(out)[:MAXPATHS])
        return out


# ---------------------------------------------------------------------- path queries
def roots(paths: Set[Path]) -> Set[str]:
    return {p[0] for p in paths}


def has_step(paths: Set[Path], prefix: str) -> bool:
    return any(any(s.startswith(prefix) for s in p) for p in paths)


def paths_from(paths: Set[Path], root: str) -> Set[Path]:
    return {p for p in paths if p[0] == root}


def strip_noise(p: Path) -> Path:
    """drop steps that do not change identity of the underlying object for rule purposes"""
    return tuple(s for s in p if not s.startswith("with"))
