"""E7b -- shapes of the text a function builds (abstract evaluation of string / list-of-string building code).

A *shape* describes every string the expression can evaluate to as a regular template:

    Lit(text)                          literal text
    Hole(node)                         a value that is not built here (attribute, call result, parameter, ...)
    Cat([shape, ...])                  concatenation
    Rep(body, sep, loop)               zero or more repetitions of `body` (one per element of loop.iter that passes loop.conds),
                                       separated by `sep`
    Alt(test, a, b)                    `a` when test holds, else `b`
    Unk(why)                           not interpreted

and a *sequence shape* describes a list of strings:   Seq([item, ...])  with item = shape | RepItems([item, ...], loop)

The evaluation follows local names through reaching definitions (so intermediate variables, `+=` accumulation in loops,
`append` / `extend` in loops, `sep.join(...)`, f-strings, `+`, `str.format`, conditional expressions and if/else-assigned names all
denote the same shape).  `render(shape, hole)` gives a canonical text in which holes are named by the rule (from provenance), so a
rule states the expected layout once and every way of writing it is accepted.  Nothing is executed.
"""
from __future__ import annotations

import ast
import string
from typing import Callable, Dict, List, Optional, Tuple

from . import cfg as C
from .core import FuncInfo, Repo
from .prov import callee_name


class Shape:
    pass


class Lit(Shape):
    def __init__(self, text: str):
        self.text = text


class Hole(Shape):
    def __init__(self, node: ast.AST, at: Optional[int] = None):
        self.node = node
        self.at = at


class Cat(Shape):
    def __init__(self, parts: List[Shape]):
        self.parts = parts


class Loop:
    def __init__(self, iter_: ast.AST, target: Optional[ast.AST], conds: List[ast.AST], node: Optional[ast.AST] = None):
        self.iter, self.target, self.conds, self.node = iter_, target, conds, node


class Rep(Shape):
    def __init__(self, body: Shape, sep: Optional[Shape], loop: Loop):
        self.body, self.sep, self.loop = body, sep, loop


class Alt(Shape):
    def __init__(self, test: ast.AST, a: Shape, b: Shape):
        self.test, self.a, self.b = test, a, b


class Unk(Shape):
    def __init__(self, why: str, node: Optional[ast.AST] = None):
        self.why, self.node = why, node


class RepItems:
    def __init__(self, items: list, loop: Loop):
        self.items, self.loop = items, loop


class AltItems:
    """items contributed when `test` holds (a) / does not hold (b)"""

    def __init__(self, test: ast.AST, a: list, b: list):
        self.test, self.a, self.b = test, a, b


class Seq:
    def __init__(self, items: list, ordered: str = ""):
        self.items = items
        self.ordered = ordered     # "" | "sorted" | "reversed" | "set"


class NotInterpretable(Exception):
    pass


EMPTY_CTORS = ("list", "deque")


class Evaluator:
    def __init__(self, repo: Repo, f: FuncInfo):
        from . import lib as L
        self.repo, self.f = repo, f
        self.g = C.cfg_of(f.node)
        self.rd = L.rd_of(f)
        self.pm = L.parents_of(f)
        self.p = L.prov(repo, f)

    # ------------------------------------------------------------------ helpers
    def node_of(self, e: ast.AST) -> int:
        return self.p.node_of(e)

    def _enclosing(self, n: ast.AST, stop: Optional[ast.AST] = None) -> List[ast.AST]:
        """enclosing statements (innermost first) up to, not including, `stop` / the function"""
        out, cur = [], n
        while cur in self.pm:
            cur = self.pm[cur]
            if cur is stop or cur is self.f.node:
                break
            if isinstance(cur, ast.stmt):
                out.append(cur)
        return out

    def _loops_between(self, site: ast.AST, use: ast.AST) -> List[ast.AST]:
        """loops that enclose `site` but not `use` (outermost first)"""
        use_enc = set(map(id, self._enclosing(use)))
        return [s for s in reversed(self._enclosing(site)) if isinstance(s, (ast.For, ast.While)) and id(s) not in use_enc]

    def _conds_between(self, site: ast.AST, outer: Optional[ast.AST]) -> List[Tuple[ast.AST, bool]]:
        """(test, branch taken) of the if statements between `site` and the enclosing `outer` statement"""
        out = []
        cur = site
        while cur in self.pm:
            par = self.pm[cur]
            if par is outer or par is self.f.node:
                break
            if isinstance(par, ast.If) and isinstance(cur, ast.stmt):
                out.append((par.test, any(cur is s for s in par.body)))
            cur = par
        return out

    def _const_global(self, name: str):
        r = self.repo.lookup(self.f.mod.name, name)
        if r and r[0] == "const":
            ok, v = self.repo.fold(r[1], r[2])
            if ok and isinstance(v, str):
                return v
        return None

    # ------------------------------------------------------------------ strings
    def string(self, e: ast.AST, depth: int = 0) -> Shape:
        if depth > 25:
            return Unk("depth", e)
        S = lambda x: self.string(x, depth + 1)
        if isinstance(e, ast.Constant):
            return Lit(e.value if isinstance(e.value, str) else str(e.value)) if isinstance(e.value, (str, int)) and not isinstance(e.value, bool) else Hole(e)
        if isinstance(e, ast.JoinedStr):
            parts: List[Shape] = []
            for v in e.values:
                if isinstance(v, ast.Constant):
                    parts.append(Lit(str(v.value)))
                elif isinstance(v, ast.FormattedValue):
                    parts.append(S(v.value) if v.format_spec is None and v.conversion == -1 else Hole(v))
            return Cat(parts)
        if isinstance(e, ast.BinOp) and isinstance(e.op, ast.Add):
            return Cat([S(e.left), S(e.right)])
        if isinstance(e, ast.IfExp):
            return Alt(e.test, S(e.body), S(e.orelse))
        if isinstance(e, ast.Call):
            fn = e.func
            if isinstance(fn, ast.Name) and fn.id == "str" and len(e.args) == 1:
                inner = S(e.args[0])
                return inner if not isinstance(inner, (Unk,)) else Hole(e)
            if isinstance(fn, ast.Attribute) and fn.attr == "join" and len(e.args) == 1:
                sep = S(fn.value)
                alt = self._list_alternatives(e.args[0])
                if alt is not None:
                    test, a, b = alt
                    try:
                        return Alt(test, self._join(sep, self.sequence(a, depth + 1)), self._join(sep, self.sequence(b, depth + 1)))
                    except NotInterpretable as ex:
                        return Unk(f"join argument: {ex}", e)
                try:
                    seq = self.sequence(e.args[0], depth + 1)
                except NotInterpretable as ex:
                    return Unk(f"join argument: {ex}", e)
                return self._join(sep, seq)
            if isinstance(fn, ast.Attribute) and fn.attr == "format":
                tmpl = S(fn.value)
                if isinstance(tmpl, Lit):
                    return self._format(tmpl.text, e, depth)
                return Unk("format on a non-literal template", e)
            if isinstance(fn, ast.Attribute) and fn.attr in ("strip", "rstrip", "lstrip", "lower", "upper") :
                return Hole(e)
            return Hole(e)
        if isinstance(e, ast.Name):
            return self._name(e, depth)
        return Hole(e)

    def _format(self, text: str, call: ast.Call, depth: int) -> Shape:
        parts: List[Shape] = []
        auto = 0
        try:
            parsed = list(string.Formatter().parse(text))
        except ValueError:
            return Unk("bad format string", call)
        kw = {k.arg: k.value for k in call.keywords if k.arg}
        for lit, field, spec, conv in parsed:
            if lit:
                parts.append(Lit(lit))
            if field is None:
                continue
            if spec or conv:
                parts.append(Hole(call))
                continue
            if field == "":
                idx = auto
                auto += 1
                arg = call.args[idx] if idx < len(call.args) else None
            elif field.isdigit():
                arg = call.args[int(field)] if int(field) < len(call.args) else None
            else:
                arg = kw.get(field)
            parts.append(self.string(arg, depth + 1) if arg is not None else Unk(f"format field {field!r}", call))
        return Cat(parts)

    def _join(self, sep: Shape, seq: Seq) -> Shape:
        parts: List[Shape] = []

        def conv(items, first: bool) -> List[Shape]:
            out: List[Shape] = []
            for it in items:
                if isinstance(it, RepItems):
                    inner = conv(it.items, False)
                    body = Cat(_interleave(inner, sep)) if len(inner) != 1 else inner[0]
                    out.append(Rep(body, sep, it.loop))
                elif isinstance(it, AltItems):
                    out.append(Alt(it.test, Cat(_interleave(conv(it.a, False), sep)), Cat(_interleave(conv(it.b, False), sep))))
                elif isinstance(it, tuple):
                    continue
                else:
                    out.append(it)
            return out

        parts = conv(seq.items, True)
        sh = Cat(_interleave(parts, sep))
        if seq.ordered:
            sh.ordered = seq.ordered   # type: ignore[attr-defined]
        return sh

    def _name(self, e: ast.Name, depth: int) -> Shape:
        cb = self.p._comp_binding(e)
        if cb is not None:
            return Hole(e)
        try:
            at = self.node_of(e)
        except KeyError:
            return Hole(e)
        defs = sorted(self.rd.defs_reaching(at, e.id))
        if not defs:
            v = self._const_global(e.id)
            return Lit(v) if v is not None else Hole(e)
        if defs == [self.g.entry]:
            return Hole(e)
        return self._from_defs(e, defs, depth, frozenset())

    def _from_defs(self, e: ast.Name, defs, depth: int, visiting: frozenset) -> Shape:
        plain, augs = [], []
        for d in defs:
            st = self.g.stmt[d] if d != self.g.entry else None
            if isinstance(st, ast.AugAssign) and isinstance(st.op, ast.Add):
                augs.append((d, st))
            elif isinstance(st, ast.Assign) and len(st.targets) == 1 and isinstance(st.targets[0], ast.Name):
                plain.append(st)
            elif isinstance(st, ast.AnnAssign) and st.value is not None:
                plain.append(st)
            else:
                return Hole(e)
        if not augs:
            return self._plain(plain, e, depth)
        # accumulation: the value before the earliest `+=` (its own reaching definitions), then every `+=` in source order
        augs.sort(key=lambda x: (x[1].lineno, x[1].col_offset))
        incoming = set()
        for d, st in augs:
            incoming |= {x for x in self.rd.defs_reaching(d, e.id)}
        aug_nodes = {d for d, _ in augs}
        base_defs = sorted((incoming | {self.g.node_of(p_) for p_ in plain}) - aug_nodes - set(visiting) - {None})
        if base_defs and depth < 20:
            base = self._from_defs(e, base_defs, depth + 1, visiting | aug_nodes)
        else:
            base = Unk("accumulator without initial value", e)
        parts = [base]
        for _d, a_ in augs:
            piece = self.string(a_.value, depth + 1)
            parts.append(self._guarded(piece, a_, e))
        return Cat(_merge_reps(_flat(Cat(parts))))

    def _guarded(self, piece: Shape, site: ast.stmt, use: ast.AST):
        """wrap a piece contributed at `site` in the loops / conditions that lie between it and the use"""
        loops = self._loops_between(site, use)
        inner_outer = loops[-1] if loops else None
        # conditions inside the innermost loop (or up to the function when not in a loop that excludes the use)
        use_enc = set(map(id, self._enclosing(use)))
        conds = []
        cur = site
        while cur in self.pm:
            par = self.pm[cur]
            if par is self.f.node or id(par) in use_enc:
                break
            if isinstance(par, ast.If) and isinstance(cur, ast.stmt):
                conds.append((par.test, any(cur is s for s in par.body)))
            if isinstance(par, (ast.For, ast.While)):
                for t, br in reversed(conds):
                    piece = Alt(t, piece, Lit("")) if br else Alt(t, Lit(""), piece)
                conds = []
                piece = Rep(piece, None, Loop(par.iter if isinstance(par, ast.For) else par.test, getattr(par, "target", None), [], par))
            cur = par
        for t, br in reversed(conds):
            piece = Alt(t, piece, Lit("")) if br else Alt(t, Lit(""), piece)
        return piece

    def _plain(self, plain: List[ast.stmt], use: ast.Name, depth: int) -> Shape:
        if len(plain) == 1:
            return self.string(plain[0].value, depth + 1)
        if len(plain) == 2:
            # if/else-assigned
            a, b = plain
            for st in self._enclosing(a):
                if isinstance(st, ast.If):
                    in_a_body = any(a is x for s in st.body for x in ast.walk(s))
                    in_b_else = any(b is x for s in st.orelse for x in ast.walk(s))
                    in_b_body = any(b is x for s in st.body for x in ast.walk(s))
                    in_a_else = any(a is x for s in st.orelse for x in ast.walk(s))
                    if in_a_body and in_b_else:
                        return Alt(st.test, self.string(a.value, depth + 1), self.string(b.value, depth + 1))
                    if in_b_body and in_a_else:
                        return Alt(st.test, self.string(b.value, depth + 1), self.string(a.value, depth + 1))
            # default then conditional overwrite:  x = A ; if t: x = B
            first, second = sorted(plain, key=lambda s: (s.lineno, s.col_offset))
            for st in self._enclosing(second):
                if isinstance(st, ast.If) and not any(first is x for x in ast.walk(st)):
                    in_body = any(second is x for s in st.body for x in ast.walk(s))
                    sa, sb = self.string(second.value, depth + 1), self.string(first.value, depth + 1)
                    return Alt(st.test, sa, sb) if in_body else Alt(st.test, sb, sa)
            # guard clause:  if t: x = A; <leave> ... x = B     (the statements after the if are its else branch)
            for st in self._enclosing(first):
                if isinstance(st, ast.If) and not getattr(st, "_inline_block", False) and not any(second is x for x in ast.walk(st)):
                    in_body = any(first is x for s in st.body for x in ast.walk(s))
                    branch = st.body if in_body else st.orelse
                    if branch and _leaves(branch[-1]):
                        sa, sb = self.string(first.value, depth + 1), self.string(second.value, depth + 1)
                        return Alt(st.test, sa, sb) if in_body else Alt(st.test, sb, sa)
                    break
        return Unk(f"{len(plain)} definitions of {use.id}", use)

    # ------------------------------------------------------------------ sequences
    def sequence(self, e: ast.AST, depth: int = 0) -> Seq:
        if depth > 25:
            raise NotInterpretable("depth")
        if isinstance(e, (ast.List, ast.Tuple)):
            items = []
            for x in e.elts:
                if isinstance(x, ast.Starred):
                    items.extend(self.sequence(x.value, depth + 1).items)
                else:
                    items.append(self.string(x, depth + 1))
            return Seq(items)
        if isinstance(e, (ast.ListComp, ast.GeneratorExp, ast.SetComp)):
            body: list = [self.string(e.elt, depth + 1)]
            for gen in reversed(e.generators):
                body = [RepItems(body, Loop(gen.iter, gen.target, list(gen.ifs), e))]
            return Seq(body, "set" if isinstance(e, ast.SetComp) else "")
        if isinstance(e, ast.Call) and isinstance(e.func, ast.Name) and e.func.id in ("list", "tuple", "sorted", "reversed", "set") and e.args:
            inner = self.sequence(e.args[0], depth + 1)
            if e.func.id in ("sorted", "reversed", "set"):
                inner = Seq(inner.items, e.func.id)
            return inner
        if isinstance(e, ast.Call) and isinstance(e.func, ast.Name) and e.func.id in EMPTY_CTORS and not e.args:
            return Seq([])
        if isinstance(e, ast.BinOp) and isinstance(e.op, ast.Add):
            a, b = self.sequence(e.left, depth + 1), self.sequence(e.right, depth + 1)
            return Seq(a.items + b.items)
        if isinstance(e, ast.BinOp) and isinstance(e.op, ast.Mult):
            lst, cnt = (e.left, e.right) if isinstance(e.left, (ast.List, ast.Tuple)) else (e.right, e.left)
            if isinstance(lst, (ast.List, ast.Tuple)):
                inner = self.sequence(lst, depth + 1)
                return Seq([RepItems(inner.items, Loop(cnt, None, [], e))])
        if isinstance(e, ast.IfExp):
            raise NotInterpretable("conditional list")
        if isinstance(e, ast.Name):
            return self._list_name(e, depth)
        if isinstance(e, ast.Call) and isinstance(e.func, ast.Attribute) and e.func.attr in ("keys", "values", "copy") and not e.args:
            inner = e.func.value
            return Seq([RepItems([Hole(e)], Loop(e, None, [], e))])
        if isinstance(e, (ast.Attribute, ast.Subscript, ast.Call)):
            # an iterable that is not built here: one string per element
            return Seq([RepItems([Hole(e)], Loop(e, None, [], e))])
        raise NotInterpretable(f"{type(e).__name__} as a list of strings")

    def _list_alternatives(self, e: ast.AST):
        """a list name assigned in both branches of an if/else: (test, value when true, value when false)"""
        if not isinstance(e, ast.Name):
            return None
        try:
            at = self.node_of(e)
        except KeyError:
            return None
        defs = [d for d in self.rd.defs_reaching(at, e.id) if d != self.g.entry]
        if len(defs) != 2:
            return None
        a, b = (self.g.stmt[d] for d in defs)
        if not all(isinstance(x, ast.Assign) and len(x.targets) == 1 and isinstance(x.targets[0], ast.Name) for x in (a, b)):
            return None
        for st in self._enclosing(a):
            if isinstance(st, ast.If):
                in_a_body = any(a is x for s_ in st.body for x in ast.walk(s_))
                in_b_else = any(b is x for s_ in st.orelse for x in ast.walk(s_))
                in_b_body = any(b is x for s_ in st.body for x in ast.walk(s_))
                in_a_else = any(a is x for s_ in st.orelse for x in ast.walk(s_))
                if in_a_body and in_b_else:
                    return st.test, a.value, b.value
                if in_b_body and in_a_else:
                    return st.test, b.value, a.value
        return None

    def _list_name(self, e: ast.Name, depth: int) -> Seq:
        alt = self._list_alternatives(e)
        if alt is not None:
            test, a, b = alt
            return Seq([AltItems(test, self.sequence(a, depth + 1).items, self.sequence(b, depth + 1).items)])
        at = self.node_of(e)

        def root_defs(node, seen=None):
            """definitions that bind the name, looking through `name += ..` (an in-place extension, handled as a mutation below)"""
            seen = set() if seen is None else seen
            out = set()
            for d in self.rd.defs_reaching(node, e.id):
                if d in seen:
                    continue
                seen.add(d)
                st_ = self.g.stmt[d]
                if isinstance(st_, ast.AugAssign) and isinstance(st_.target, ast.Name) and isinstance(st_.op, ast.Add):
                    out |= root_defs(d, seen)
                else:
                    out.add(d)
            return out

        defs = sorted(root_defs(at))
        if len(defs) != 1 or defs[0] == self.g.entry:
            raise NotInterpretable(f"list {e.id} has {len(defs)} definitions")
        st = self.g.stmt[defs[0]]
        if not (isinstance(st, (ast.Assign, ast.AnnAssign)) and st.value is not None):
            raise NotInterpretable(f"definition of {e.id}")
        seq = self.sequence(st.value, depth + 1)
        items = list(seq.items)
        ordered = seq.ordered
        # mutations of the list between its definition and the use, in source order
        muts = []
        for n in ast.walk(self.f.node):
            if isinstance(n, ast.Call) and isinstance(n.func, ast.Attribute) and isinstance(n.func.value, ast.Name) and n.func.value.id == e.id:
                muts.append(n)
            elif isinstance(n, ast.Assign) and any(isinstance(t, ast.Subscript) and isinstance(t.value, ast.Name) and t.value.id == e.id for t in n.targets):
                muts.append(n)
            elif isinstance(n, ast.AugAssign) and ((isinstance(n.target, ast.Name) and n.target.id == e.id) or
                                                   (isinstance(n.target, ast.Subscript) and isinstance(n.target.value, ast.Name) and n.target.value.id == e.id)):
                muts.append(n)
        muts.sort(key=lambda n: (n.lineno, n.col_offset))
        for m in muts:
            try:
                mn = self.node_of(m) if not isinstance(m, ast.stmt) else self.g.node_of(m)
            except KeyError:
                continue
            if mn is None or defs[0] not in root_defs(mn):
                continue
            if m.lineno > e.lineno and not self._loops_between(m, e) and not any(isinstance(s, (ast.For, ast.While)) for s in self._enclosing(e)):
                continue   # after the use
            if m is self.pm.get(e) or any(m is x for x in self._enclosing(e)):
                continue
            new: list
            if isinstance(m, ast.Call):
                meth = m.func.attr
                if meth == "append" and len(m.args) == 1:
                    new = [self.string(m.args[0], depth + 1)]
                elif meth == "extend" and len(m.args) == 1:
                    new = self.sequence(m.args[0], depth + 1).items
                elif meth == "insert" and len(m.args) == 2 and isinstance(m.args[0], ast.Constant) and m.args[0].value == 0:
                    items = self._wrap_site([self.string(m.args[1], depth + 1)], m, e) + items
                    continue
                elif meth == "sort":
                    ordered = "sorted"
                    continue
                elif meth in ("copy", "index", "count", "__len__", "join"):
                    continue
                else:
                    raise NotInterpretable(f"{e.id}.{meth}(...)")
                items = _merge(items, self._wrap_site(new, m, e))
            elif isinstance(m, ast.AugAssign) and isinstance(m.target, ast.Name):
                items = _merge(items, self._wrap_site(self.sequence(m.value, depth + 1).items, m, e))
            else:
                # element update: x[0] = f"({x[0]}" ;  x[-1] = f"{x[-1]})" ; x[-1] += ")"
                tgt = m.targets[0] if isinstance(m, ast.Assign) else m.target
                idx = _const_index(tgt.slice)
                if idx not in (0, -1) or self._loops_between(m, e):
                    raise NotInterpretable(f"update of {e.id}[{ast.unparse(tgt.slice)}]")
                if isinstance(m, ast.AugAssign):
                    pre, post = [], [self.string(m.value, depth + 1)]
                else:
                    sh = self.string(m.value, depth + 1)
                    parts = _flat(sh)
                    k = [i for i, x in enumerate(parts) if isinstance(x, Hole) and isinstance(x.node, ast.Subscript) and isinstance(x.node.value, ast.Name)
                         and x.node.value.id == e.id and _const_index(x.node.slice) == idx]
                    if len(k) != 1:
                        raise NotInterpretable(f"update of {e.id}[{idx}] does not wrap the old element")
                    pre, post = parts[:k[0]], parts[k[0] + 1:]
                items = _wrap_end(items, idx, pre, post)
        return Seq(items, ordered)

    def _wrap_site(self, new: list, site: ast.AST, use: ast.AST) -> list:
        """items contributed at `site`: once per iteration of the loops between the site and the use"""
        stmt = site
        while not isinstance(stmt, ast.stmt):
            stmt = self.pm[stmt]
        use_enc = set(map(id, self._enclosing(use)))
        cur = stmt
        conds: list = []
        while cur in self.pm:
            par = self.pm[cur]
            if par is self.f.node or id(par) in use_enc:
                break
            if isinstance(par, ast.If) and isinstance(cur, ast.stmt):
                conds.append((par.test, any(cur is s for s in par.body)))
            if isinstance(par, (ast.For, ast.While)):
                lp = Loop(par.iter if isinstance(par, ast.For) else par.test, getattr(par, "target", None), [], par)
                lp.guards = list(reversed(conds))   # type: ignore[attr-defined]
                conds = []
                new = [RepItems(new, lp)]
            cur = par
        if conds:
            raise NotInterpretable("conditional append outside a loop")
        return new


def _leaves(st: ast.stmt) -> bool:
    """the statement transfers control away (return / raise / continue / break / the jump that ends a helper analysed in place)"""
    from .cfg import InlineJump
    return isinstance(st, (ast.Return, ast.Raise, ast.Continue, ast.Break, InlineJump))


def _merge(items: list, new: list) -> list:
    """contributions of consecutive statements of the same loop body belong to the same iteration"""
    if len(new) == 1 and isinstance(new[0], RepItems) and items and isinstance(items[-1], RepItems) and \
            items[-1].loop.node is new[0].loop.node and new[0].loop.node is not None and \
            [ast.dump(t) + str(b) for t, b in getattr(items[-1].loop, "guards", [])] == [ast.dump(t) + str(b) for t, b in getattr(new[0].loop, "guards", [])]:
        merged = RepItems(_merge(list(items[-1].items), list(new[0].items)), items[-1].loop)
        return items[:-1] + [merged]
    return items + new


def _merge_reps(parts: List[Shape]) -> List[Shape]:
    """pieces appended by consecutive statements of the same loop body belong to the same iteration"""
    out: List[Shape] = []
    for p in parts:
        if isinstance(p, Rep) and out and isinstance(out[-1], Rep) and p.sep is None and out[-1].sep is None and \
                p.loop.node is not None and p.loop.node is out[-1].loop.node:
            prev = out.pop()
            out.append(Rep(Cat(_merge_reps(_flat(prev.body) + _flat(p.body))), None, prev.loop))
        else:
            out.append(p)
    return out


def _const_index(sl: ast.AST):
    if isinstance(sl, ast.Constant) and isinstance(sl.value, int):
        return sl.value
    if isinstance(sl, ast.UnaryOp) and isinstance(sl.op, ast.USub) and isinstance(sl.operand, ast.Constant):
        return -sl.operand.value
    return None


def _interleave(parts: List[Shape], sep: Shape) -> List[Shape]:
    out: List[Shape] = []
    for i, p in enumerate(parts):
        if i:
            out.append(sep)
        out.append(p)
    return out


def _flat(sh: Shape) -> List[Shape]:
    if isinstance(sh, Cat):
        out: List[Shape] = []
        for p in sh.parts:
            out.extend(_flat(p))
        return out
    return [sh]


def _wrap_end(items: list, idx: int, pre: List[Shape], post: List[Shape]) -> list:
    """prefix / suffix on the first (idx 0) or last (idx -1) string of the sequence; inside a trailing repetition the suffix is
    recorded on the sequence end (it applies to the last element whatever the number of iterations)"""
    items = list(items)
    if idx == 0 and items and isinstance(items[0], Shape):
        items[0] = Cat(list(pre) + [items[0]] + list(post))
    elif idx == -1 and items and isinstance(items[-1], Shape) and len(items) == 1:
        items[-1] = Cat(list(pre) + [items[-1]] + list(post))
    elif idx == 0:
        items.insert(0, ("wrap-first", pre, post))
    else:
        items.append(("wrap-last", pre, post))
    return items


# --------------------------------------------------------------------------- rendering
def render(sh, hole: Callable[[ast.AST], str], valuation: Optional[Callable[[ast.AST], Optional[bool]]] = None) -> str:
    """canonical text of a shape: literals verbatim, holes as {name}, repetitions as [body]* / [body]*sep"""
    if isinstance(sh, Lit):
        return sh.text
    if isinstance(sh, Hole):
        return "{" + hole(sh.node) + "}"
    if isinstance(sh, Cat):
        return "".join(render(p, hole, valuation) for p in sh.parts)
    if isinstance(sh, Rep):
        sep = render(sh.sep, hole, valuation) if sh.sep is not None else ""
        return "[" + render(sh.body, hole, valuation) + "]*" + (f"<{sep}>" if sep else "")
    if isinstance(sh, Alt):
        v = C.eval3(sh.test, valuation) if valuation is not None else None
        if v is True:
            return render(sh.a, hole, valuation)
        if v is False:
            return render(sh.b, hole, valuation)
        a, b = render(sh.a, hole, valuation), render(sh.b, hole, valuation)
        return a if a == b else f"<{a}|{b}>"
    if isinstance(sh, Unk):
        return "{?" + sh.why + "}"
    raise TypeError(sh)


def render_seq(seq: Seq, hole: Callable[[ast.AST], str], valuation=None) -> List[str]:
    """one canonical text per element; repetitions as a nested list marker"""
    out: List[str] = []

    def go(items):
        for it in items:
            if isinstance(it, AltItems):
                out.append("<")
                go(it.a)
                out.append("|")
                go(it.b)
                out.append(">")
            elif isinstance(it, RepItems):
                out.append("[")
                go(it.items)
                out.append("]*")
            elif isinstance(it, tuple):
                kind, pre, post = it
                out.append(f"{kind}:" + "".join(render(x, hole, valuation) for x in pre) + "_" + "".join(render(x, hole, valuation) for x in post))
            else:
                out.append(render(it, hole, valuation))

    go(seq.items)
    return out


def literals(sh) -> List[str]:
    """all literal fragments of a shape (both branches of alternatives)"""
    if isinstance(sh, Lit):
        return [sh.text]
    if isinstance(sh, Cat):
        return [x for p in sh.parts for x in literals(p)]
    if isinstance(sh, Rep):
        return literals(sh.body) + (literals(sh.sep) if sh.sep is not None else [])
    if isinstance(sh, Alt):
        return literals(sh.a) + literals(sh.b)
    return []


def holes(sh) -> List[ast.AST]:
    if isinstance(sh, Hole):
        return [sh.node]
    if isinstance(sh, Cat):
        return [x for p in sh.parts for x in holes(p)]
    if isinstance(sh, Rep):
        return holes(sh.body) + (holes(sh.sep) if sh.sep is not None else [])
    if isinstance(sh, Alt):
        return holes(sh.a) + holes(sh.b)
    return []


def unknowns(sh) -> List[str]:
    if isinstance(sh, Unk):
        return [sh.why]
    if isinstance(sh, Cat):
        return [x for p in sh.parts for x in unknowns(p)]
    if isinstance(sh, Rep):
        return unknowns(sh.body) + (unknowns(sh.sep) if sh.sep is not None else [])
    if isinstance(sh, Alt):
        return unknowns(sh.a) + unknowns(sh.b)
    return []


def branches(sh, limit: int = 64) -> List[Shape]:
    """the alternative-free shapes a shape can take (conditional pieces chosen either way)"""
    if isinstance(sh, Alt):
        return (branches(sh.a, limit) + branches(sh.b, limit))[:limit]
    if isinstance(sh, Cat):
        outs: List[List[Shape]] = [[]]
        for p in sh.parts:
            bs = branches(p, limit)
            outs = [o + [b] for o in outs for b in bs][:limit]
        return [Cat(o) for o in outs]
    if isinstance(sh, Rep):
        return [Rep(b, sh.sep, sh.loop) for b in branches(sh.body, limit)]
    return [sh]


def reps(sh) -> List[Rep]:
    """all repetitions inside a shape (outermost first)"""
    out: List[Rep] = []
    if isinstance(sh, Rep):
        out.append(sh)
        out += reps(sh.body)
    elif isinstance(sh, Cat):
        for p in sh.parts:
            out += reps(p)
    elif isinstance(sh, Alt):
        out += reps(sh.a) + reps(sh.b)
    return out
