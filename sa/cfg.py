"""E2/E3 -- per-function statement CFG, dominators, reaching definitions, valuation-directed reachability.

Nodes are statements (compound statements contribute their *header*: the `if` test, the loop iterable,
the `with` items, the `try` marker).  Exceptions raised implicitly by calls are not edges; `raise` and a
failing `assert` go to the synthetic RAISE node.  An `except` handler is entered from the `try` marker
(any statement of the body may raise).
"""
from __future__ import annotations

import ast
import itertools
from typing import Callable, Dict, Iterable, List, Optional, Set, Tuple


class CFG:
    def __init__(self):
        self.kind: Dict[int, str] = {}
        self.stmt: Dict[int, Optional[ast.AST]] = {}
        self.succ: Dict[int, List[Tuple[int, object]]] = {}
        self.pred: Dict[int, List[Tuple[int, object]]] = {}
        self.loop_of: Dict[int, Optional[int]] = {}   # innermost enclosing loop head node
        self.n = 0
        self.entry = self.new(None, "entry")
        self.exit = self.new(None, "exit")
        self.raise_ = self.new(None, "raise-exit")

    def new(self, stmt, kind="stmt", loop=None) -> int:
        i = self.n
        self.n += 1
        self.kind[i] = kind
        self.stmt[i] = stmt
        self.succ[i] = []
        self.pred[i] = []
        self.loop_of[i] = loop
        return i

    def edge(self, a: int, b: int, label=None):
        self.succ[a].append((b, label))
        self.pred[b].append((a, label))

    def nodes(self) -> Iterable[int]:
        return range(self.n)

    def node_of(self, stmt: ast.AST) -> Optional[int]:
        for i, s in self.stmt.items():
            if s is stmt:
                return i
        return None

    def node_containing(self, node: ast.AST) -> Optional[int]:
        """CFG node whose header/statement contains the given AST node (innermost)."""
        best = None
        for i, s in self.stmt.items():
            if s is None:
                continue
            for sub in ast.walk(header(s)) if header(s) is not None else ():
                if sub is node:
                    best = i
        return best


def header(s: ast.AST):
    """The part of a statement that is evaluated at its CFG node."""
    if isinstance(s, (ast.If, ast.While)):
        return s.test
    if isinstance(s, ast.For):
        return ast.Tuple(elts=[s.iter], ctx=ast.Load())  # target is a def, iter is a use
    if isinstance(s, ast.With):
        return ast.Tuple(elts=[it.context_expr for it in s.items], ctx=ast.Load())
    if isinstance(s, ast.Try):
        return None
    if isinstance(s, (ast.FunctionDef, ast.ClassDef)):
        return None
    return s


# the class names stay 'If' / 'Pass' so that name-dispatching visitors (ast.unparse, NodeTransformer) treat them as such
InlineBlock = type("If", (ast.If,), {"label": "", "_inline_block": True,
                                     "__doc__": "`if True:` block holding the body of an inlined helper; `label` names it for InlineJump"})
InlineJump = type("Pass", (ast.Pass,), {"label": "", "_inline_jump": True,
                                        "__doc__": "the helper's `return`: control continues after the InlineBlock with the same label"})


def build(body: List[ast.stmt]) -> CFG:
    g = CFG()
    blocks: Dict[str, list] = {}

    def link(preds, n):
        for p, l in preds:
            g.edge(p, n, l)

    def seq(stmts, preds, loop):
        cur = preds
        for s in stmts:
            cur = one(s, cur, loop)
        return cur

    def one(s, preds, loop):
        lh = loop["head"] if loop else None
        if isinstance(s, InlineBlock):
            n = g.new(s, "if", lh)
            link(preds, n)
            blocks.setdefault(s.label, []).append([])       # copies of a block may nest: a jump leaves the innermost one
            t = seq(s.body, [(n, True)], loop)
            return t + blocks[s.label].pop()
        if isinstance(s, InlineJump):
            n = g.new(s, "stmt", lh)
            link(preds, n)
            if blocks.get(s.label):
                blocks[s.label][-1].append((n, None))
                return []
            return [(n, None)]      # a jump whose block is not around it any more: falls through
        if isinstance(s, ast.If):
            n = g.new(s, "if", lh)
            link(preds, n)
            t = seq(s.body, [(n, True)], loop)
            f = seq(s.orelse, [(n, False)], loop) if s.orelse else [(n, False)]
            return t + f
        if isinstance(s, (ast.For, ast.While)):
            n = g.new(s, "loop", lh)
            link(preds, n)
            inner = {"head": n, "breaks": []}
            b = seq(s.body, [(n, "iter")], inner)
            link(b, n)
            out = [(n, "done")]
            if s.orelse:
                out = seq(s.orelse, [(n, "done")], loop)
            return out + inner["breaks"]
        if isinstance(s, ast.Return):
            n = g.new(s, "return", lh)
            link(preds, n)
            g.edge(n, g.exit)
            return []
        if isinstance(s, ast.Raise):
            n = g.new(s, "raise", lh)
            link(preds, n)
            g.edge(n, g.raise_)
            return []
        if isinstance(s, ast.Continue):
            n = g.new(s, "continue", lh)
            link(preds, n)
            if loop:
                g.edge(n, loop["head"], "continue")
            return []
        if isinstance(s, ast.Break):
            n = g.new(s, "break", lh)
            link(preds, n)
            if loop:
                loop["breaks"].append((n, None))
            return []
        if isinstance(s, ast.Assert):
            n = g.new(s, "assert", lh)
            link(preds, n)
            g.edge(n, g.raise_, "fail")
            return [(n, "ok")]
        if isinstance(s, ast.Try):
            n = g.new(s, "try", lh)
            link(preds, n)
            b = seq(s.body, [(n, None)], loop)
            outs = seq(s.orelse, b, loop) if s.orelse else b
            for h in s.handlers:
                hn = g.new(h, "except", lh)
                g.edge(n, hn, "except")
                outs = outs + seq(h.body, [(hn, None)], loop)
            if s.finalbody:
                outs = seq(s.finalbody, outs, loop)
            return outs
        if isinstance(s, ast.With):
            n = g.new(s, "with", lh)
            link(preds, n)
            return seq(s.body, [(n, None)], loop)
        if isinstance(s, ast.Match):
            n = g.new(s, "match", lh)
            link(preds, n)
            outs = [(n, "nomatch")]
            for c in s.cases:
                outs = outs + seq(c.body, [(n, "case")], loop)
            return outs
        n = g.new(s, "stmt", lh)
        link(preds, n)
        return [(n, None)]

    ends = seq(body, [(g.entry, None)], None)
    for p, l in ends:
        g.edge(p, g.exit, l)
    return g


_cfg_cache: Dict[int, CFG] = {}
_PINNED: list = []


def pin(obj):
    """caches are keyed by id(node): a node whose id is a cache key is kept alive for the process, so that the id is never reused by a
    tree built later (a stale hit would make results depend on the allocator)"""
    _PINNED.append(obj)
    return obj


def cfg_of(fn_node: ast.AST) -> CFG:
    k = id(fn_node)
    if k not in _cfg_cache:
        pin(fn_node)
        _cfg_cache[k] = build(fn_node.body)
    return _cfg_cache[k]


# --------------------------------------------------------------------------- dominators
def dominators(g: CFG, start: Optional[int] = None, reverse: bool = False) -> Dict[int, Set[int]]:
    """dom[n] = set of nodes that dominate n (post-dominate when reverse=True, w.r.t. a virtual sink
    joining EXIT and RAISE)."""
    nodes = list(g.nodes())
    if reverse:
        sink = -1
        preds = {n: [m for m, _ in g.succ[n]] for n in nodes}
        preds[g.exit] = [sink]
        preds[g.raise_] = [sink]
        preds[sink] = []
        nodes = nodes + [sink]
        start = sink
    else:
        preds = {n: [m for m, _ in g.pred[n]] for n in nodes}
        start = g.entry if start is None else start
    allset = set(nodes)
    dom = {n: set(allset) for n in nodes}
    dom[start] = {start}
    changed = True
    while changed:
        changed = False
        for n in nodes:
            if n == start:
                continue
            ps = [dom[p] for p in preds[n]]
            new = set.intersection(*ps) if ps else set()
            new = new | {n}
            if new != dom[n]:
                dom[n] = new
                changed = True
    return dom


def reachable_from(g: CFG, src: int, avoid: Iterable[int] = (), follow: Optional[Callable] = None) -> Set[int]:
    avoid = set(avoid)
    seen = set()
    stack = [src]
    while stack:
        n = stack.pop()
        if n in seen or n in avoid:
            continue
        seen.add(n)
        for m, l in g.succ[n]:
            if follow is None or follow(n, m, l):
                stack.append(m)
    return seen


# --------------------------------------------------------------------------- defs / uses
def target_names(t: ast.AST) -> Set[str]:
    out = set()
    if isinstance(t, ast.Name):
        out.add(t.id)
    elif isinstance(t, (ast.Tuple, ast.List)):
        for e in t.elts:
            out |= target_names(e)
    elif isinstance(t, ast.Starred):
        out |= target_names(t.value)
    return out


def defs_of(s: Optional[ast.AST]) -> Set[str]:
    """names (re)bound by the statement at its CFG node."""
    if s is None:
        return set()
    out: Set[str] = set()
    if isinstance(s, ast.Assign):
        for t in s.targets:
            out |= target_names(t)
    elif isinstance(s, (ast.AnnAssign, ast.AugAssign)):
        out |= target_names(s.target)
    elif isinstance(s, ast.For):
        out |= target_names(s.target)
    elif isinstance(s, ast.With):
        for it in s.items:
            if it.optional_vars is not None:
                out |= target_names(it.optional_vars)
    elif isinstance(s, ast.ExceptHandler):
        if s.name:
            out.add(s.name)
    elif isinstance(s, (ast.Import, ast.ImportFrom)):
        for a in s.names:
            out.add((a.asname or a.name).split(".")[0])
    h = header(s)
    if h is not None:
        for n in ast.walk(h):
            if isinstance(n, ast.NamedExpr):
                out |= target_names(n.target)
    return out


class ReachingDefs:
    """Classic reaching definitions; a definition is (name, node id). Parameters are defined at ENTRY."""

    def __init__(self, g: CFG, params: Iterable[str]):
        self.g = g
        self.params = list(params)
        gen: Dict[int, Set[Tuple[str, int]]] = {}
        kill_names: Dict[int, Set[str]] = {}
        for n in g.nodes():
            names = defs_of(g.stmt[n])
            if n == g.entry:
                names = set(self.params)
            gen[n] = {(x, n) for x in names}
            kill_names[n] = names
        live = reachable_from(g, g.entry)       # statements after an unconditional jump define nothing that reaches anything
        self.IN: Dict[int, Set[Tuple[str, int]]] = {n: set() for n in g.nodes()}
        self.OUT: Dict[int, Set[Tuple[str, int]]] = {n: (set(gen[n]) if n in live else set()) for n in g.nodes()}
        work = [n for n in g.nodes() if n in live]
        while work:
            n = work.pop()
            if n not in live:
                continue
            new_in = set()
            for p, _ in g.pred[n]:
                new_in |= self.OUT[p]
            self.IN[n] = new_in
            new_out = {d for d in new_in if d[0] not in kill_names[n]} | gen[n]
            if new_out != self.OUT[n]:
                self.OUT[n] = new_out
                for m, _ in g.succ[n]:
                    work.append(m)

    def defs_reaching(self, node: int, name: str) -> Set[int]:
        return {d for (x, d) in self.IN[node] if x == name}


# --------------------------------------------------------------------------- three-valued guards (E3)
def _boolish(e: ast.AST) -> bool:
    """syntactically a truth value: a comparison, a negation, a boolean constant, bool(..), a conjunction / disjunction of such -- or a
    plain name (its definitions are evaluated the same way and give None unless they are truth values themselves)"""
    if isinstance(e, ast.Compare) or (isinstance(e, ast.UnaryOp) and isinstance(e.op, ast.Not)) or (isinstance(e, ast.Constant) and isinstance(e.value, bool)):
        return True
    if isinstance(e, ast.Call) and isinstance(e.func, ast.Name) and e.func.id in ("bool", "isinstance") :
        return True
    if isinstance(e, ast.BoolOp):
        return all(_boolish(x) for x in e.values)
    if isinstance(e, ast.IfExp):
        return _boolish(e.body) and _boolish(e.orelse)
    return isinstance(e, ast.Name)


def eval3(e: ast.AST, val: Callable[[ast.AST], Optional[bool]]):
    """Kleene evaluation of a boolean expression; `val` maps an atom expression to True/False/None."""
    v = val(e)
    if v is not None:
        return v
    if isinstance(e, ast.BoolOp):
        vs = [eval3(x, val) for x in e.values]
        if isinstance(e.op, ast.And):
            if any(x is False for x in vs):
                return False
            return True if all(x is True for x in vs) else None
        if any(x is True for x in vs):
            return True
        return False if all(x is False for x in vs) else None
    if isinstance(e, ast.UnaryOp) and isinstance(e.op, ast.Not):
        x = eval3(e.operand, val)
        return None if x is None else (not x)
    if isinstance(e, ast.Compare) and len(e.ops) == 1 and isinstance(e.comparators[0], ast.Constant) \
            and isinstance(e.comparators[0].value, bool):
        x = eval3(e.left, val)
        if x is None:
            return None
        eq = x == e.comparators[0].value
        return eq if isinstance(e.ops[0], (ast.Eq, ast.Is)) else (not eq)
    if isinstance(e, ast.Call) and isinstance(e.func, ast.Name) and e.func.id == "bool" and len(e.args) == 1 and not e.keywords:
        return eval3(e.args[0], val)
    if isinstance(e, ast.Compare) and len(e.ops) == 1 and isinstance(e.ops[0], (ast.Is, ast.IsNot, ast.Eq, ast.NotEq)) \
            and _boolish(e.left) and _boolish(e.comparators[0]):
        # `(a in s) is expected`: two truth values compared
        x, y = eval3(e.left, val), eval3(e.comparators[0], val)
        if x is None or y is None:
            return None
        return (x == y) if isinstance(e.ops[0], (ast.Is, ast.Eq)) else (x != y)
    if isinstance(e, ast.IfExp):
        t = eval3(e.test, val)
        if t is True:
            return eval3(e.body, val)
        if t is False:
            return eval3(e.orelse, val)
        a, b = eval3(e.body, val), eval3(e.orelse, val)
        return a if a == b else None
    if isinstance(e, ast.Constant) and isinstance(e.value, bool):
        return e.value
    if isinstance(e, ast.Call) and isinstance(e.func, ast.Name) and e.func.id == "bool" and len(e.args) == 1:
        return eval3(e.args[0], val)
    return None


def reach_under(g: CFG, val: Callable[[ast.AST], Optional[bool]], start: Optional[int] = None,
                avoid: Iterable[int] = (), no_iter: Iterable[int] = (), edges: Optional[Set[Tuple[int, int]]] = None) -> Set[int]:
    """Nodes reachable from ENTRY when every branch whose test is decided by `val` is taken that way only (`edges`, when given,
    receives the (from, to) pairs that were followed)."""
    seen: Set[int] = set()
    avoid = set(avoid)
    stack = [g.entry if start is None else start]
    while stack:
        n = stack.pop()
        if n in seen or n in avoid:
            continue
        seen.add(n)
        kind, stmt = g.kind[n], g.stmt[n]
        for m, l in g.succ[n]:
            if l == "iter" and n in no_iter:
                continue
            if kind == "if" or (kind == "loop" and isinstance(stmt, ast.While)):
                bv = eval3(stmt.test, val)
                if kind == "if" and bv is not None and l != bv:
                    continue
                if kind == "loop" and bv is not None:
                    if (l == "iter") != bv and l in ("iter", "done"):
                        continue
            if kind == "assert":
                bv = eval3(stmt.test, val)
                if bv is True and l == "fail":
                    continue
                if bv is False and l == "ok":
                    continue
            if edges is not None and m not in avoid:
                edges.add((n, m))
            stack.append(m)
    return seen


# --------------------------------------------------------------------------- path enumeration
def acyclic_paths(g: CFG, start: int, stops: Callable[[int], bool], skip_inner_loops: bool = True,
                  limit: int = 20000) -> List[List[Tuple[int, object]]]:
    """All simple paths from `start` until a node satisfying `stops` (inclusive) or EXIT/RAISE.
    Each path is a list of (node, label of the edge leaving it)."""
    out: List[List[Tuple[int, object]]] = []

    def dfs(n, path, onpath):
        if len(out) > limit:
            raise RuntimeError("path explosion")
        if n in (g.exit, g.raise_) or (n != start and stops(n)):
            out.append(path + [(n, None)])
            return
        succs = g.succ[n]
        if not succs:
            out.append(path + [(n, None)])
            return
        for m, l in succs:
            if skip_inner_loops and g.kind[n] == "loop" and n != start and l == "iter":
                continue
            if m in onpath:
                # back edge: the path ends by returning to a node already visited
                out.append(path + [(n, l), (m, "back")])
                continue
            dfs(m, path + [(n, l)], onpath | {m})

    dfs(start, [], {start})
    return out


def simple_bindings(node: ast.AST):
    """(name, value expression) for every plain binding below `node`: `x = e`, `x: T = e`, and the pairs of `a, b = e1, e2`"""
    for n in ast.walk(node):
        if isinstance(n, ast.Assign):
            for t in n.targets:
                if isinstance(t, ast.Name):
                    yield t.id, n.value, n
                elif isinstance(t, (ast.Tuple, ast.List)) and isinstance(n.value, (ast.Tuple, ast.List)) and len(t.elts) == len(n.value.elts) \
                        and not any(isinstance(e, ast.Starred) for e in list(t.elts) + list(n.value.elts)):
                    for te, ve in zip(t.elts, n.value.elts):
                        if isinstance(te, ast.Name):
                            yield te.id, ve, n
        elif isinstance(n, ast.AnnAssign) and n.value is not None and isinstance(n.target, ast.Name):
            yield n.target.id, n.value, n


def stmts_in(body: List[ast.stmt]) -> Iterable[ast.stmt]:
    for s in body:
        yield s
        for fld in ("body", "orelse", "finalbody"):
            sub = getattr(s, fld, None)
            if isinstance(sub, list) and sub and isinstance(sub[0], ast.stmt):
                yield from stmts_in(sub)
        if isinstance(s, ast.Try):
            for h in s.handlers:
                yield from stmts_in(h.body)
        if isinstance(s, ast.Match):
            for c in s.cases:
                yield from stmts_in(c.body)
