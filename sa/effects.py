"""E5 -- effect / ownership analysis: which heap locations may a function write, and where do values escape.

Atoms are (root, path):  root in ('param', name) | ('self',) | ('global', name) | ('fresh', site) | ('unknown', why);
path is a tuple of field names with '[]' for "an element of".  Local names are resolved through reaching
definitions (flow-sensitive per variable); fields of fresh objects are kept in a per-function map
(flow-insensitive), function summaries are iterated to a fixpoint over the call graph:

  MUT(f)   = {(root, path, kind)}   kind = 'content' (container changed) | 'attr:<x>' (field assigned)
  RET(f)   = atoms the result may alias
  STORE(f) = {(container atom, stored value atom)} for stores into non-fresh containers
"""
from __future__ import annotations

import ast
import collections
from typing import Dict, List, Optional, Set, Tuple

from . import cfg as C
from .core import (CONTAINER_MUTATORS, AnalysisError, FuncInfo, Repo, is_logging_call, parent_map, unparse)

K = 12
Atom = Tuple[tuple, tuple]

FRESH_BUILTINS = {"dict", "list", "set", "sorted", "tuple", "frozenset", "deque", "defaultdict", "Counter", "reversed",
                  "zip", "enumerate", "iter", "range", "filter", "map", "OrderedDict"}
IMMUT_BUILTINS = {"str", "int", "float", "len", "bool", "repr", "hash", "isinstance", "min", "max", "sum", "abs",
                  "round", "format", "any", "all", "print", "open", "type", "getattr", "hasattr", "id", "callable", "issubclass"}
ELEMENT_ADDERS = {"add", "append", "insert", "appendleft"}
BULK_ADDERS = {"update", "extend", "extendleft"}


def trunc(p: tuple) -> tuple:
    """k-limiting with collapse of recursive container patterns: ...children[] children[] -> ...children[]"""
    if len(p) >= 4 and p[-1] == "[]":
        f = p[-2]
        for i in range(len(p) - 3):
            if p[i] == f and p[i + 1] == "[]":
                return p[: i + 2]
    if len(p) >= 3 and p[-1] != "[]" and not p[-1].startswith(("+", "!")) and p.count(p[-1]) >= 3:
        i = p.index(p[-1])
        return p[: i + 1]
    return p[:K]


class Summary:
    def __init__(self, f: FuncInfo):
        self.f = f
        self.mut: Set[tuple] = set()
        self.mutsites: Dict[tuple, Set[tuple]] = collections.defaultdict(set)  # mut -> {(lineno, via, text)}
        self.ret: Set[Atom] = set()
        self.selffields: Dict[str, Set[Atom]] = collections.defaultdict(set)
        self.fresh: Dict[tuple, Dict[str, Set[Atom]]] = {}
        self.fresh_when: Dict[tuple, Set[int]] = collections.defaultdict(set)  # (root, field, atom) -> CFG nodes of the stores (-1: at creation)
        self.stores: Set[tuple] = set()          # (container atom, value atom, lineno)
        self.unknown_muts: Set[tuple] = set()


def _shared_default(d) -> bool:
    """a default argument value is evaluated ONCE, when the function is defined: a container display / comprehension, the result of
    any call that can build an object (`DEFAULT.copy()`, `dict()`, `Factory()`), or a module-level object handed on by name is one
    object shared by all calls that leave the argument out"""
    if d is None or isinstance(d, ast.Constant):
        return False
    if isinstance(d, ast.Tuple):
        return any(_shared_default(x) for x in d.elts)
    if isinstance(d, (ast.Dict, ast.List, ast.Set, ast.ListComp, ast.SetComp, ast.DictComp)):
        return True
    if isinstance(d, ast.Call):
        f_ = d.func
        nm = f_.id if isinstance(f_, ast.Name) else (f_.attr if isinstance(f_, ast.Attribute) else "")
        return nm not in ("float", "int", "str", "bool", "frozenset", "tuple", "bytes", "getLogger", "compile", "Path")
    if isinstance(d, (ast.UnaryOp, ast.BinOp, ast.Compare, ast.JoinedStr, ast.Lambda)):
        return False
    return False


WORK_BUDGET = 20000     # definition contributions computed per function before contexts are merged (see _Analyzer.name)


class Effects:
    def __init__(self, repo: Repo):
        self.repo = repo
        # every function is analysed with its private helpers in place (sa.inline): flow-sensitive facts (what a container holds
        # at this point, which class an operand has) then survive the extraction of helpers
        from .inline import flatten
        self.sums: Dict[str, Summary] = {f.qn: Summary(flatten(repo, f)) for f in repo.all_funcs()}
        self.rounds = 0
        self._table_cache: Dict[Tuple[str, str], List[FuncInfo]] = {}
        self.run()

    # ------------------------------------------------------------------
    def run(self):
        # worklist by dependency: a function is re-analysed only when its own summary or the summary of a callee it applied changed
        deps: Dict[str, Set[str]] = {}
        changed_prev: Set[str] = set(self.sums)
        for it in range(30):
            self.rounds = it + 1
            changed_now: Set[str] = set()
            for qn, s in self.sums.items():
                if it > 0 and qn not in changed_prev and not (deps.get(qn, set()) & changed_prev):
                    continue
                a = _Analyzer(self, s)
                a.run()
                deps[qn] = a.used
                if a.changed:
                    changed_now.add(qn)
            if not changed_now:
                break
            changed_prev = changed_now
        else:
            raise AnalysisError("effect analysis did not reach a fixpoint in 30 rounds")

    def table_functions(self, modname: str, name: str) -> List[FuncInfo]:
        """functions stored as values of a module-level dict literal (call through TABLE[k](...))"""
        key = (modname, name)
        if key not in self._table_cache:
            out = []
            r = self.repo.lookup(modname, name)
            if r and r[0] == "const" and isinstance(r[1], ast.Dict):
                for v in r[1].values:
                    if isinstance(v, ast.Name):
                        rr = self.repo.lookup(r[2], v.id)
                        if rr and rr[0] == "func":
                            fi = self.repo.funcs.get(f"{self.repo.mods[rr[2]].short}::{v.id}")
                            if fi:
                                out.append(fi)
            self._table_cache[key] = out
        return self._table_cache[key]

    # ------------------------------------------------------------------ class-level field classification
    def field_kinds(self, cname: str, fld: str, _seen=None) -> Set[str]:
        """{'OWNED','INPUT','GLOBAL','UNKNOWN'} from every `self.fld = ...` in the class and its bases."""
        _seen = _seen or set()
        if (cname, fld) in _seen:
            return set()
        _seen.add((cname, fld))
        kinds: Set[str] = set()
        for c in self.repo.mro(cname):
            ci = self.repo.classes[c]
            for mn in ci.methods:
                s = self.sums.get(f"{self.repo.mods[ci.mod].short}::{c}.{mn}")
                if s is None or fld not in s.selffields:
                    continue
                for r, p in s.selffields[fld]:
                    if r[0] == "param":
                        kinds.add("INPUT")
                    elif r[0] == "global":
                        kinds.add("GLOBAL")
                    elif r[0] == "fresh":
                        kinds.add("OWNED")
                    elif r[0] == "self":
                        if p:
                            kinds |= self.field_kinds(cname, p[0], _seen) or {"OWNED"}
                        else:
                            kinds.add("OWNED")
                    else:
                        kinds.add("UNKNOWN")
        return kinds


class _Analyzer:
    def __init__(self, eff: Effects, s: Summary):
        self.eff = eff
        self.repo = eff.repo
        self.s = s
        self.f = s.f
        self.te = self.repo.types(self.f)
        self.g = C.cfg_of(self.f.node)
        from . import lib as _L
        self.rd = _L.rd_of(self.f)
        self.parents = _L.parents_of(self.f)
        self.changed = False
        self.memo: Dict[tuple, Set[Atom]] = {}
        self.cuts = 0
        self.defmemo: Dict[tuple, list] = {}
        self._frames: List[list] = []
        self._work = 0
        self.used: Set[str] = set()
        self.sites: Dict[int, tuple] = {}
        self.compute_facts()
        self._after: Dict[int, Set[int]] = {}
        self._local_prefix = self.f.qn + "@"

    def after(self, n: int) -> Set[int]:
        """CFG nodes that can execute after node n"""
        if n not in self._after:
            out: Set[int] = set()
            for m, _ in self.g.succ[n]:
                out |= C.reachable_from(self.g, m)
            self._after[n] = out
        return self._after[n]

    def _put(self, root: tuple, fld: str, atoms: Set[Atom], at: int = -1):
        d = self.s.fresh.setdefault(root, {})
        cur = d.setdefault(fld, set())
        if not atoms <= cur:
            cur |= atoms
            self.changed = True
        for a in atoms:
            w = self.s.fresh_when[(root, fld, a)]
            if at not in w:
                w.add(at)
                self.changed = True

    # ------------------------------------------------------------------ isinstance facts (path-sensitivity lite)
    def _facts_of_test(self, test: ast.AST, positive: bool) -> List[Tuple[str, str, bool]]:
        """facts (expr text, class, polarity) implied when `test` evaluates to `positive`"""
        out: List[Tuple[str, str, bool]] = []
        if isinstance(test, ast.UnaryOp) and isinstance(test.op, ast.Not):
            return self._facts_of_test(test.operand, not positive)
        if isinstance(test, ast.BoolOp):
            if (isinstance(test.op, ast.And) and positive) or (isinstance(test.op, ast.Or) and not positive):
                for v in test.values:
                    out += self._facts_of_test(v, positive)
            return out
        if isinstance(test, ast.Call) and isinstance(test.func, ast.Name) and test.func.id == "isinstance" and len(test.args) == 2:
            c = test.args[1]
            names = [c.id] if isinstance(c, ast.Name) else [x.id for x in getattr(c, "elts", []) if isinstance(x, ast.Name)]
            if len(names) == 1 and names[0] in self.repo.classes:
                out.append((ast.unparse(test.args[0]), names[0], positive))
        return out

    @staticmethod
    def _terminates(body: List[ast.stmt]) -> bool:
        return bool(body) and (isinstance(body[-1], (ast.Return, ast.Raise, ast.Continue, ast.Break)) or getattr(body[-1], "_inline_jump", False))

    def compute_facts(self):
        self.facts: Dict[int, List[Tuple[str, str, bool]]] = {}

        def walk(stmts: List[ast.stmt], facts: List[Tuple[str, str, bool]]):
            cur = list(facts)
            for st in stmts:
                n = self.g.node_of(st)
                if n is not None:
                    self.facts[n] = list(cur)
                if isinstance(st, ast.If):
                    walk(st.body, cur + self._facts_of_test(st.test, True))
                    walk(st.orelse, cur + self._facts_of_test(st.test, False))
                    if self._terminates(st.body) and not self._terminates(st.orelse):
                        cur = cur + self._facts_of_test(st.test, False)
                    elif st.orelse and self._terminates(st.orelse) and not self._terminates(st.body):
                        cur = cur + self._facts_of_test(st.test, True)
                elif isinstance(st, (ast.For, ast.While)):
                    walk(st.body, cur)
                    walk(st.orelse, cur)
                elif isinstance(st, ast.With):
                    walk(st.body, cur)
                elif isinstance(st, ast.Try):
                    walk(st.body, cur)
                    for h in st.handlers:
                        hn = self.g.node_of(h)
                        if hn is not None:
                            self.facts[hn] = list(cur)
                        walk(h.body, cur)
                    walk(st.orelse, cur)
                    walk(st.finalbody, cur)

        walk(self.f.node.body, [])

    def apply_facts(self, e: ast.AST, atoms: Set[Atom], at: int) -> Set[Atom]:
        fs = self.facts.get(at)
        if not fs or not atoms:
            return atoms
        txt = None
        for (x, c, pos) in fs:
            if txt is None:
                txt = ast.unparse(e)
            if x == txt:
                if pos:
                    atoms = self.field(atoms, "+" + c)
                else:
                    atoms = {(r, trunc(p + ("!" + c,))) if not (p and p[-1] == "!" + c) else (r, p) for r, p in atoms}
        return atoms

    # ------------------------------------------------------------------ helpers
    def fresh_root(self, node: ast.AST) -> tuple:
        k = id(node)
        if k not in self.sites:
            self.sites[k] = ("fresh", f"{self.f.qn}@{getattr(node, 'lineno', 0)}:{getattr(node, 'col_offset', 0)}")
        return self.sites[k]

    def newfresh(self, node: ast.AST, fields: Optional[Dict[str, Set[Atom]]] = None) -> Set[Atom]:
        root = self.fresh_root(node)
        self.s.fresh.setdefault(root, {})
        for k, v in (fields or {}).items():
            self._put(root, k, v, -1)
        return {(root, ())}

    def field(self, atoms: Set[Atom], f: str, at: Optional[int] = None) -> Set[Atom]:
        out: Set[Atom] = set()
        if f.startswith("+"):
            # positive type fact: drop atoms known not to be of that class; no path extension
            out = set()
            for r, p in atoms:
                if p and p[-1] == "!" + f[1:]:
                    continue
                if r[0] in ("param", "self") and not (p and p[-1] == f):
                    out.add((r, trunc(p + (f,))))   # kept symbolic: re-applied when a caller substitutes the path
                else:
                    out.add((r, p))
            return out
        for r, p in atoms:
            if r[0] == "fresh" and p == ():
                fm = self.s.fresh.get(r, {})
                if f in fm:
                    if at is not None and r[1].startswith(self._local_prefix):
                        # flow-sensitive contents of containers built in this function: a store is visible only downstream
                        for a in fm[f]:
                            w = self.s.fresh_when.get((r, f, a))
                            if not w or -1 in w or any(at in self.after(n) for n in w):
                                out.add(a)
                    else:
                        out |= fm[f]
                else:
                    out.add((r, (f,)))
            else:
                out.add((r, trunc(p + (f,))))
        return out

    def immutable(self, e: ast.AST) -> bool:
        t = self.te.typeof(e)
        return bool(t) and t[0] in ("str", "num")

    def comp_binding(self, name_node: ast.Name):
        cur = name_node
        while cur in self.parents:
            par = self.parents[cur]
            if isinstance(par, (ast.ListComp, ast.SetComp, ast.GeneratorExp, ast.DictComp)):
                for gen in par.generators:
                    if name_node.id in C.target_names(gen.target) and not any(x is name_node for x in ast.walk(gen.iter)):
                        return gen
            if isinstance(par, ast.Lambda) and name_node.id in [a.arg for a in par.args.args]:
                return "lambda"
            cur = par
        return None

    # ------------------------------------------------------------------ expression values
    def val(self, e: Optional[ast.AST], at: int, seen: frozenset = frozenset()) -> Set[Atom]:
        if e is None:
            return set()
        if isinstance(e, (ast.Constant, ast.JoinedStr, ast.Compare, ast.BinOp, ast.UnaryOp, ast.Lambda)):
            if isinstance(e, ast.BinOp) and isinstance(e.op, ast.Add):
                # list concatenation builds a fresh list of the elements
                l, r = self.val(e.left, at, seen), self.val(e.right, at, seen)
                if l or r:
                    return self.newfresh(e, {"[]": self.field(l, "[]") | self.field(r, "[]")})
            return set()
        if isinstance(e, ast.BoolOp):
            out: Set[Atom] = set()
            for v in e.values:
                out |= self.val(v, at, seen)
            return out
        if isinstance(e, ast.IfExp):
            return self.val(e.body, at, seen) | self.val(e.orelse, at, seen)
        if isinstance(e, ast.NamedExpr):
            return self.val(e.value, at, seen)
        if isinstance(e, ast.Name):
            return self.apply_facts(e, self.name(e, at, seen), at)
        if self.immutable(e):
            # still visit calls for their effects
            for sub in ast.walk(e):
                if isinstance(sub, ast.Call):
                    self.call(sub, at, seen)
                    break
            return set()
        if isinstance(e, ast.Attribute):
            base = self.val(e.value, at, seen)
            bt = self.te.typeof(e.value)
            if bt and bt[0] == "cls" and self.repo.is_property(bt[1], e.attr):
                m = self.repo.find_method(bt[1], e.attr)
                if m is not None:
                    return self.apply_summary(m, {m.params[0]: base}, e, at, is_ctor=False)
            return self.apply_facts(e, self.field(base, e.attr, at), at)
        if isinstance(e, ast.Subscript):
            base = self.val(e.value, at, seen)
            if isinstance(e.slice, ast.Slice):
                return self.newfresh(e, {"[]": self.field(base, "[]")})
            self.val(e.slice, at, seen)
            return self.field(base, "[]", at)
        if isinstance(e, ast.Starred):
            return self.val(e.value, at, seen)
        if isinstance(e, (ast.List, ast.Tuple, ast.Set)):
            el: Set[Atom] = set()
            for x in e.elts:
                el |= self.field(self.val(x.value, at, seen), "[]") if isinstance(x, ast.Starred) else self.val(x, at, seen)
            return self.newfresh(e, {"[]": el})
        if isinstance(e, ast.Dict):
            el = set()
            for k, v in zip(e.keys, e.values):
                el |= self.field(self.val(v, at, seen), "[]") if k is None else self.val(v, at, seen)
            return self.newfresh(e, {"[]": el})
        if isinstance(e, (ast.ListComp, ast.SetComp, ast.GeneratorExp)):
            for gen in e.generators:
                self.val(gen.iter, at, seen)
                for c in gen.ifs:
                    self.val(c, at, seen)
            return self.newfresh(e, {"[]": self.val(e.elt, at, seen)})
        if isinstance(e, ast.DictComp):
            for gen in e.generators:
                self.val(gen.iter, at, seen)
            return self.newfresh(e, {"[]": self.val(e.value, at, seen)})
        if isinstance(e, ast.Call):
            return self.call(e, at, seen)
        if isinstance(e, (ast.Await, ast.Yield, ast.YieldFrom)):
            return self.val(e.value, at, seen)
        return {(("unknown", type(e).__name__), ())}

    def name(self, e: ast.Name, at: int, seen: frozenset) -> Set[Atom]:
        nm = e.id
        cb = self.comp_binding(e)
        if cb == "lambda":
            return set()
        if cb is not None:
            base = self.field(self.val(cb.iter, at, seen), "[]", at)
            if not isinstance(cb.target, ast.Name):
                base = base | self.field(base, "[]")
            return base
        defs = self.rd.defs_reaching(at, nm)
        if not defs:
            r = self.repo.lookup(self.f.mod.name, nm)
            if r and r[0] == "const":
                v = r[1]
                if isinstance(v, (ast.Dict, ast.List, ast.Set, ast.ListComp, ast.DictComp, ast.SetComp)) or isinstance(v, ast.Call):
                    if isinstance(v, ast.Call) and isinstance(v.func, ast.Name) and v.func.id in ("float", "int", "str", "bool"):
                        return set()
                    if isinstance(v, ast.Call) and ast.unparse(v.func).startswith(("re.", "logging.", "os.")):
                        return set()
                    return {(("global", nm), ())}
            return set()
        key = ("name", nm, at)
        if key in self.memo:
            return self.memo[key]
        out: Set[Atom] = set()
        for d in defs:
            k2 = (nm, d)
            if k2 in seen:
                self._note(hit=k2)      # a definition on the current resolution stack is not followed again
                continue
            # the contribution of a definition depends on the context only through which of the definitions it (transitively)
            # consults are on the resolution stack: it is reused wherever exactly the same ones are cut
            got = None
            for V, H, res in self.defmemo.get(k2, ()):
                if H <= seen and not (V & seen):
                    got = (V, H, res)
                    break
            if got is None and self._work > WORK_BUDGET and self.defmemo.get(k2):
                # deeply nested branch structures (a dispatch written out three levels deep) make the number of distinct resolution
                # contexts explode; past the budget a contribution computed in another context is reused: the definitions that were cut
                # there are on some resolution stack of this evaluation as well and contribute where they are resolved
                got = max(self.defmemo[k2], key=lambda e_: len(e_[2]))
            if got is not None:
                self._note(visited=got[0] | {k2}, hits=got[1])
                out |= got[2]
                continue
            frame = [set(), set()]
            self._frames.append(frame)
            try:
                contrib = self._def_atoms(nm, d, seen | {k2})
            finally:
                self._frames.pop()
            V, H = frame
            H.discard(k2)
            V.discard(k2)
            ents = self.defmemo.setdefault(k2, [])
            if len(ents) < 12:
                ents.append((frozenset(V), frozenset(H), contrib))
            self._note(visited=V | {k2}, hits=H)
            out |= contrib
        if not seen:
            self.memo[key] = out
        return out

    def _note(self, hit=None, visited=None, hits=None) -> None:
        if not self._frames:
            return
        top = self._frames[-1]
        if hit is not None:
            top[1].add(hit)
        if visited:
            top[0] |= visited
        if hits:
            top[1] |= hits

    def _def_atoms(self, nm: str, d: int, s2: frozenset) -> Set[Atom]:
        """what the definition of `nm` at node d contributes"""
        self._work += 1
        out: Set[Atom] = set()
        if d == self.g.entry:
            if self.f.is_method and nm == self.f.self_name:
                out.add((("self",), ()))
            else:
                out.add((("param", nm), ()))
            return out
        st = self.g.stmt[d]
        if isinstance(st, ast.Assign):
            comp = None
            for t in st.targets:
                if isinstance(t, (ast.Tuple, ast.List)) and nm in C.target_names(t):
                    comp = self._paired_component(t, st.value, nm, d)
            if comp is not None:
                # a, b = x, y  /  pair = (x, y); a, b = pair : the name gets ITS component only
                return set(self.val(comp[0], comp[1], s2))
            v = self.val(st.value, d, s2)
            for t in st.targets:
                if nm in C.target_names(t):
                    out |= v if isinstance(t, ast.Name) else (self.field(v, "[]") | self.field(self.field(v, "[]"), "[]"))
        elif isinstance(st, ast.AnnAssign):
            out |= self.val(st.value, d, s2)
        elif isinstance(st, ast.AugAssign):
            out |= self.val(st.value, d, s2)
        elif isinstance(st, ast.For):
            it, tg = st.iter, st.target
            pos = None
            if isinstance(tg, (ast.Tuple, ast.List)) and isinstance(it, ast.Call) and isinstance(it.func, ast.Name) and not it.keywords \
                    and not self.rd.defs_reaching(d, it.func.id) and not any(isinstance(e, ast.Starred) for e in list(tg.elts) + list(it.args)):
                # for a, b in zip(X, Y) / for i, x in enumerate(X): every name gets the elements of ITS iterable only
                idx = [i for i, e in enumerate(tg.elts) if nm in C.target_names(e)]
                if it.func.id == "zip" and len(it.args) == len(tg.elts) and len(idx) == 1:
                    pos = (it.args[idx[0]], tg.elts[idx[0]])
                elif it.func.id == "enumerate" and len(it.args) >= 1 and len(tg.elts) == 2 and len(idx) == 1:
                    pos = (it.args[0], tg.elts[1]) if idx[0] == 1 else (None, None)
            if pos is not None:
                if pos[0] is not None:
                    base = self.field(self.val(pos[0], d, s2), "[]", d)
                    out |= base if isinstance(pos[1], ast.Name) else (base | self.field(base, "[]"))
            else:
                base = self.field(self.val(st.iter, d, s2), "[]", d)
                out |= base if isinstance(st.target, ast.Name) else (base | self.field(base, "[]"))
        elif isinstance(st, (ast.With, ast.ExceptHandler, ast.Import, ast.ImportFrom)):
            pass
        else:
            h = C.header(st)
            if h is not None:
                for n in ast.walk(h):
                    if isinstance(n, ast.NamedExpr) and nm in C.target_names(n.target):
                        out |= self.val(n.value, d, s2)
        return out

    def _paired_component(self, target: ast.AST, value: ast.AST, nm: str, at: int, depth: int = 0):
        """(expression, node) of the component of a tuple literal that `nm` receives in `target = value`"""
        if depth > 3 or not isinstance(target, (ast.Tuple, ast.List)) or any(isinstance(e, ast.Starred) for e in target.elts):
            return None
        lit, lit_at = None, at
        if isinstance(value, (ast.Tuple, ast.List)):
            lit = value
        elif isinstance(value, ast.Name):
            defs = [x for x in self.rd.defs_reaching(at, value.id) if x != self.g.entry]
            if len(defs) == 1:
                st = self.g.stmt[defs[0]]
                if isinstance(st, (ast.Assign, ast.AnnAssign)) and st.value is not None and isinstance(st.value, (ast.Tuple, ast.List)) and \
                        (isinstance(st, ast.AnnAssign) or (len(st.targets) == 1 and isinstance(st.targets[0], ast.Name))):
                    lit, lit_at = st.value, defs[0]
        if lit is None or len(lit.elts) != len(target.elts) or any(isinstance(e, ast.Starred) for e in lit.elts):
            return None
        for te, ve in zip(target.elts, lit.elts):
            if isinstance(te, ast.Name) and te.id == nm:
                return ve, lit_at
            if isinstance(te, (ast.Tuple, ast.List)) and nm in C.target_names(te):
                return self._paired_component(te, ve, nm, lit_at, depth + 1)
        return None

    # ------------------------------------------------------------------ calls
    def resolve(self, call: ast.Call, at: int):
        """-> list of (kind, FuncInfo|None, cls)"""
        f = call.func
        if isinstance(f, ast.Subscript):
            # TABLE[key](...)
            if isinstance(f.value, ast.Name) and not self.rd.defs_reaching(at, f.value.id):
                fs = self.eff.table_functions(self.f.mod.name, f.value.id)
                return [("func", x, None) for x in fs]
            return []
        cat, tg = self.repo.resolve_call(self.f, call)
        if cat in ("repo", "ctor"):
            return tg
        return []

    def call(self, call: ast.Call, at: int, seen: frozenset) -> Set[Atom]:
        f = call.func
        args = [self.val(a, at, seen) for a in call.args]
        kw = {k.arg: self.val(k.value, at, seen) for k in call.keywords if k.arg}
        for k in call.keywords:
            if k.arg is None:
                self.val(k.value, at, seen)
        if isinstance(f, ast.Name):
            if f.id in FRESH_BUILTINS and not self.rd.defs_reaching(at, f.id):
                el: Set[Atom] = set()
                for a in args:
                    el |= self.field(a, "[]")
                if f.id in ("zip", "enumerate"):
                    el = el | set()  # tuples of elements: keep element atoms directly
                return self.newfresh(call, {"[]": el})
            if f.id in IMMUT_BUILTINS:
                return set()
            if f.id == "next":
                return self.field(args[0], "[]") if args else set()
            if f.id == "super":
                return {(("self",), ())}
            if f.id == "setattr" and len(args) >= 3:
                self.mutate(args[0], call, "attr:?")
                return set()
        if isinstance(f, ast.Attribute):
            recv = self.val(f.value, at, seen)
            cat, _tg = self.repo.resolve_call(self.f, call)
            if cat in ("container", "str", "builtin", "unknown") and not (cat == "unknown" and f.attr not in CONTAINER_MUTATORS
                                                                          and f.attr not in ("values", "items", "keys", "get", "copy")):
                if f.attr in ("values", "items", "keys"):
                    return self.newfresh(call, {"[]": self.field(recv, "[]", at)})
                if f.attr in ("get", "pop", "setdefault", "popleft", "popitem"):
                    out = self.field(recv, "[]", at)
                    for a in args[1:]:
                        out |= a
                    if f.attr == "setdefault" and len(args) > 1:
                        self.mutate(recv, call)
                        self.store_elem(recv, args[1], call, at)
                    if f.attr in ("pop", "popleft", "popitem"):
                        self.mutate(recv, call)
                    return out
                if f.attr in ("copy", "union", "intersection", "difference", "symmetric_difference"):
                    el = self.field(recv, "[]")
                    for a in args:
                        el |= self.field(a, "[]")
                    return self.newfresh(call, {"[]": el})
                if f.attr in CONTAINER_MUTATORS:
                    self.mutate(recv, call)
                    for a in args:
                        self.store_elem(recv, a if f.attr in ELEMENT_ADDERS else self.field(a, "[]", at), call, at)
                    return set()
                if f.attr in ("split", "join", "format", "lower", "strip", "replace"):
                    return set()
                return set()
        cands = self.resolve(call, at)
        if not cands:
            if isinstance(f, ast.Name):
                r = self.repo.lookup(self.f.mod.name, f.id)
                if r and r[0] == "external":
                    el = set()
                    for a in list(args) + list(kw.values()):
                        el |= a
                    # e.g. AnyNode(value=fn, children=[..]): the new object keeps aliases of its arguments
                    pos = set()
                    for a in args:
                        pos |= a
                    fields = {"[]": pos}
                    for k, v in kw.items():
                        fields[k] = v
                    return self.newfresh(call, fields)
            return set()
        out: Set[Atom] = set()
        for kind, callee, cname in cands:
            if callee is None:
                if kind == "ctor":
                    out |= self.newfresh(call)
                continue
            bind: Dict[str, Set[Atom]] = {}
            params = list(callee.params)
            is_ctor = kind == "ctor"
            if is_ctor:
                bind[params[0]] = self.newfresh(call)
                params = params[1:]
            elif callee.is_method:
                if isinstance(f, ast.Attribute):
                    if isinstance(f.value, ast.Name) and f.value.id == cname and not self.rd.defs_reaching(at, f.value.id):
                        # Class.method(obj, ...) style
                        pass
                    else:
                        bind[params[0]] = self.val(f.value, at, seen)
                        params = params[1:]
            for p, a in zip(params, args):
                bind[p] = a
            for k, v in kw.items():
                bind[k] = v
            out |= self.apply_summary(callee, bind, call, at, is_ctor)
        return out

    def apply_summary(self, callee: FuncInfo, bind: Dict[str, Set[Atom]], node: ast.AST, at: int, is_ctor: bool) -> Set[Atom]:
        cs = self.eff.sums[callee.qn]
        self.used.add(callee.qn)
        importing: Set[tuple] = set()
        memo1: Dict[Atom, Set[Atom]] = {}

        def subst(atoms: Set[Atom]) -> Set[Atom]:
            res: Set[Atom] = set()
            for a in atoms:
                if a not in memo1:
                    memo1[a] = subst1(a)
                res |= memo1[a]
            return res

        def subst1(atom: Atom) -> Set[Atom]:
            res: Set[Atom] = set()
            for r, p in (atom,):
                if r[0] in ("param", "self"):
                    nm = callee.params[0] if r[0] == "self" else r[1]
                    base = bind.get(nm)
                    if base is None:
                        d = callee.defaults.get(nm)
                        if _shared_default(d):
                            res.add((("global", f"<mutable default {callee.qn}:{nm}>"), p))
                        continue
                    cur = base
                    for step in p:
                        cur = self.field(cur, step)
                    res |= cur
                elif r[0] == "fresh":
                    if r in cs.fresh and r not in importing:
                        importing.add(r)
                        self.s.fresh.setdefault(r, {})
                        for k2, v2 in list(cs.fresh[r].items()):
                            self._put(r, k2, subst(set(v2)), -1)
                    cur = {(r, ())}
                    for step in p:
                        cur = self.field(cur, step)
                    res |= cur
                else:
                    res.add((r, p))
            return res

        for m in list(cs.mut):
            mr, mp, mk = m
            for a in subst({(mr, mp)}):
                self.record_mut(a, node, via=callee.qn, kind=mk, origin=m)
        for (cont, value, ln) in list(cs.stores):
            for ca in subst({cont}):
                for va in subst({value}):
                    self.record_store(ca, va, node, at)
        if is_ctor:
            selfatoms = bind[callee.params[0]]
            sroot = next(iter(selfatoms))[0]
            self.s.fresh.setdefault(sroot, {})
            # fields assigned by the constructor chain (own __init__ and super().__init__)
            for fld, atoms in list(cs.selffields.items()):
                self._put(sroot, fld, subst(set(atoms)), -1)
            return selfatoms
        if callee.name == "__init__" and self.f.name == "__init__":
            # super().__init__(...): the fields it assigns are fields of the object under construction
            me = bind.get(callee.params[0], set())
            if ((("self",), ()) in me):
                for fld, atoms in list(cs.selffields.items()):
                    sv = subst(set(atoms))
                    cur = self.s.selffields[fld]
                    if not sv <= cur:
                        cur |= sv
                        self.changed = True
        return subst(set(cs.ret))

    # ------------------------------------------------------------------ recording
    def store_elem(self, recv: Set[Atom], atoms: Set[Atom], node: ast.AST, at: int = -1):
        for r, p in recv:
            if r[0] == "fresh" and p == ():
                self._put(r, "[]", atoms, at)
            elif r[0] in ("param", "self", "global"):
                for va in atoms:
                    self.record_store((r, p), va, node, at)

    def record_store(self, cont: Atom, value: Atom, node: ast.AST, at: int = -1):
        if cont[0][0] in ("fresh", "unknown"):
            if cont[0][0] == "fresh" and cont[1] == ():
                self.store_elem({cont}, {value}, node, at)
            return
        if value[0][0] not in ("param", "self") or cont[0][0] not in ("param", "self"):
            return
        if value[0] == cont[0]:
            return  # moving parts of one object around inside itself
        key = (cont, value, 0)
        if key not in self.s.stores:
            self.s.stores.add(key)
            self.changed = True

    def record_mut(self, atom: Atom, node: ast.AST, via: Optional[str] = None, kind: str = "content", origin=None):
        r, p = atom
        if r[0] == "fresh":
            return
        if r[0] == "unknown":
            self.s.unknown_muts.add((r[1], getattr(node, "lineno", 0)))
            return
        m = (r, p, kind)
        if m not in self.s.mut:
            self.s.mut.add(m)
            self.changed = True
        self.s.mutsites[m].add((getattr(node, "lineno", 0), via, unparse(node, 80), origin))

    def mutate(self, atoms: Set[Atom], node: ast.AST, kind: str = "content"):
        for a in atoms:
            self.record_mut(a, node, kind=kind)

    # ------------------------------------------------------------------ statements
    def run(self):
        g = self.g
        for n in g.nodes():
            st = g.stmt[n]
            if st is None:
                continue
            if isinstance(st, ast.Assign):
                v = self.val(st.value, n)
                for t in st.targets:
                    self.assign(t, v, st, n)
            elif isinstance(st, ast.AnnAssign):
                if st.value is not None:
                    self.assign(st.target, self.val(st.value, n), st, n)
            elif isinstance(st, ast.AugAssign):
                v = self.val(st.value, n)
                if isinstance(st.target, (ast.Subscript, ast.Attribute)):
                    self.mutate(self.val(st.target.value, n), st)
                elif isinstance(st.target, ast.Name) and isinstance(st.op, (ast.Add, ast.BitOr, ast.Sub, ast.BitAnd)):
                    # x += [...] mutates a list in place; strings/numbers are immutable
                    if not self.immutable(st.target):
                        tgt = self.name(st.target, n, frozenset())
                        if tgt and self.te.typeof(st.target) and self.te.typeof(st.target)[0] in ("list", "set", "dict"):
                            self.mutate(tgt, st)
            elif isinstance(st, ast.For):
                self.val(st.iter, n)
                if isinstance(st.target, (ast.Subscript, ast.Attribute)):
                    self.mutate(self.val(st.target.value, n), st)
            elif isinstance(st, ast.Delete):
                for t in st.targets:
                    if isinstance(t, (ast.Subscript, ast.Attribute)):
                        self.mutate(self.val(t.value, n), st)
            elif isinstance(st, ast.Return):
                if st.value is not None:
                    v = self.val(st.value, n)
                    if not v <= self.s.ret:
                        self.s.ret |= v
                        self.changed = True
            elif isinstance(st, ast.Expr):
                if isinstance(st.value, (ast.Yield, ast.YieldFrom)) and st.value.value is not None:
                    v = self.val(st.value.value, n)
                    if isinstance(st.value, ast.YieldFrom):
                        v = self.field(v, "[]") | v
                    if not v <= self.s.ret:
                        self.s.ret |= v
                        self.changed = True
                else:
                    self.val(st.value, n)
            elif isinstance(st, (ast.If, ast.While)):
                self.val(st.test, n)
            elif isinstance(st, ast.With):
                for it in st.items:
                    self.val(it.context_expr, n)
            elif isinstance(st, ast.Assert):
                self.val(st.test, n)
            elif isinstance(st, ast.Raise):
                if st.exc is not None:
                    self.val(st.exc, n)
        # generators: `yield x` inside expressions
        for nd in ast.walk(self.f.node):
            if isinstance(nd, ast.Yield) and nd.value is not None:
                try:
                    at = self._node_for(nd)
                except KeyError:
                    continue
                v = self.val(nd.value, at)
                if not v <= self.s.ret:
                    self.s.ret |= v
                    self.changed = True

    def _node_for(self, e: ast.AST) -> int:
        cur = e
        while cur is not None:
            n = self.g.node_of(cur)
            if n is not None:
                return n
            cur = self.parents.get(cur)
        raise KeyError

    def assign(self, t: ast.AST, v: Set[Atom], st: ast.AST, n: int):
        if isinstance(t, ast.Name):
            return
        if isinstance(t, (ast.Tuple, ast.List)):
            for x in t.elts:
                self.assign(x, self.field(v, "[]") | v, st, n)
            return
        if isinstance(t, ast.Starred):
            self.assign(t.value, v, st, n)
            return
        if isinstance(t, ast.Subscript):
            base = self.val(t.value, n)
            self.mutate(base, st)
            self.store_elem(base, v, st, n)
            return
        if isinstance(t, ast.Attribute):
            base = self.val(t.value, n)
            for r, p in base:
                if r[0] == "fresh" and p == ():
                    self._put(r, t.attr, v, n)
                elif r[0] == "self" and p == ():
                    cur = self.s.selffields[t.attr]
                    if not v <= cur:
                        cur |= v
                        self.changed = True
                    self.record_mut((r, ()), st, kind="attr:" + t.attr)
                else:
                    self.record_mut((r, p), st, kind="attr:" + t.attr)
                    for va in v:
                        self.record_store((r, trunc(p + (t.attr,))), va, st, n)


_cache: Dict[int, Effects] = {}


def effects(repo: Repo) -> Effects:
    if id(repo) not in _cache:
        _cache[id(repo)] = Effects(repo)
    return _cache[id(repo)]


def norm_path(p: tuple) -> tuple:
    """drop the type-fact markers (+C / !C) from an access path"""
    return tuple(x for x in p if not x.startswith(("+", "!")))


def fmt_atom(a: Atom) -> str:
    r, p = a
    p = norm_path(p)
    base = {"param": lambda: f"param:{r[1]}", "self": lambda: "self", "global": lambda: f"global:{r[1]}",
            "fresh": lambda: f"fresh@{r[1].split('@')[-1]}", "unknown": lambda: f"unknown:{r[1]}"}[r[0]]()
    return base + "".join("[]" if s == "[]" else f".{s}" for s in p)
