"""E7 -- string templates: literal parts of f-strings / concatenations / format / join in a function."""
from __future__ import annotations

import ast
import re
from typing import Dict, List, Optional, Set, Tuple

from .core import FuncInfo, Repo

KEYWORD_RE = re.compile(r"(:[a-z][a-z\-]*|[a-z][a-z\-]*:|\bdefine\b|\bdomain\b|\bproblem\b|\band\b|\bor\b|\bnot\b|\bforall\b|\bwhen\b|\bexists\b|\bimply\b|=|<=|>=|<|>)")


def literal_parts(node: ast.AST) -> List[str]:
    """all string literal fragments syntactically inside `node` that take part in building text"""
    out: List[str] = []
    for n in ast.walk(node):
        if isinstance(n, ast.Constant) and isinstance(n.value, str):
            out.append(n.value)
    return out


def function_literals(f: FuncInfo) -> List[str]:
    """string literals of a function except its docstring and logging messages"""
    out: List[str] = []
    body = list(f.node.body)
    if body and isinstance(body[0], ast.Expr) and isinstance(body[0].value, ast.Constant) and isinstance(body[0].value.value, str):
        body = body[1:]
    skip: Set[int] = set()
    for st in body:
        for n in ast.walk(st):
            if isinstance(n, ast.Call):
                s = ast.unparse(n.func)
                if "logger" in s.split(".") or "logging" in s.split("."):
                    for sub in ast.walk(n):
                        skip.add(id(sub))
            if isinstance(n, ast.Raise):
                for sub in ast.walk(n):
                    skip.add(id(sub))
    for st in body:
        for n in ast.walk(st):
            if id(n) in skip:
                continue
            if isinstance(n, ast.Constant) and isinstance(n.value, str):
                out.append(n.value)
    return out


def keywords(lits: List[str]) -> Set[str]:
    out: Set[str] = set()
    for s in lits:
        for m in KEYWORD_RE.finditer(s.lower()):
            out.add(m.group(1))
    return out


def paren_balance(lits: List[str]) -> Tuple[int, int]:
    o = sum(s.count("(") for s in lits)
    c = sum(s.count(")") for s in lits)
    return o, c


def flatten_template(e: ast.AST) -> Optional[List[object]]:
    """f-string / '+' concatenation -> list of str literals and ast holes; None when not reducible"""
    if isinstance(e, ast.Constant) and isinstance(e.value, str):
        return [e.value]
    if isinstance(e, ast.JoinedStr):
        out: List[object] = []
        for v in e.values:
            if isinstance(v, ast.Constant):
                out.append(str(v.value))
            elif isinstance(v, ast.FormattedValue):
                out.append(v.value)
        return out
    if isinstance(e, ast.BinOp) and isinstance(e.op, ast.Add):
        a, b = flatten_template(e.left), flatten_template(e.right)
        if a is None or b is None:
            return None
        return a + b
    return None


def merge_literals(parts: List[object]) -> List[object]:
    out: List[object] = []
    for p in parts:
        if isinstance(p, str) and out and isinstance(out[-1], str):
            out[-1] += p
        else:
            out.append(p)
    return out
