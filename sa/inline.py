"""Flattening: a copy of a function in which calls of private helpers of the repository are inlined (AST level).

Rules anchor on public functions; maintainers are free to extract / rename / split private helpers.  `flatten(repo, f)` returns
a FuncInfo whose body contains the helpers' code in place:

  * a helper is inlinable when it is a repository function / method whose name starts with one underscore, is resolved uniquely,
    is not (mutually) recursive with the function being flattened, is not a generator, and whose returns can be eliminated
    (no `return` inside a loop / try / with of the helper);
  * the helper's locals and parameters are renamed (suffix `__i<n>`), parameters become assignments `p__i = <argument>`, `self`
    of a method called on `self` stays `self`, otherwise it is bound like a parameter;
  * early returns are removed by the classic structured transformation (the statements after an `if` whose branch returns are
    moved into the other branch), the returned value is assigned to `__ret__i<n>` and the call expression is replaced by it;
  * calls nested inside larger expressions are hoisted into a temporary first (evaluation order of side effects is not modelled).

Line numbers of the copied statements are kept, so findings still point at the helper's source line.
"""
from __future__ import annotations

import ast
import copy
import itertools
from typing import Dict, List, Optional, Set, Tuple

from .cfg import InlineBlock, InlineJump
from .core import FuncInfo, Repo, is_logging_call

_counter = itertools.count(1)
MAX_DEPTH = 8


class NotInlinable(Exception):
    pass


class _LoopsToAny(ast.NodeTransformer):
    """`for T in IT: if C: return K` (nothing else in the loop) is `if any(C for T in IT): return K` -- normal form for rules that
    read quantified tests; K must be a constant, only logging may precede the return"""

    def visit_FunctionDef(self, n):
        return n

    visit_AsyncFunctionDef = visit_Lambda = visit_FunctionDef

    def visit_For(self, n):
        self.generic_visit(n)
        if n.orelse or len(n.body) != 1 or not isinstance(n.body[0], ast.If) or n.body[0].orelse:
            return n
        inner = n.body[0]
        tail = inner.body[-1]
        if not (isinstance(tail, ast.Return) and isinstance(tail.value, ast.Constant)):
            return n
        if not all(isinstance(x, ast.Expr) and isinstance(x.value, ast.Call) and is_logging_call(x.value) for x in inner.body[:-1]):
            return n
        if any(isinstance(x, (ast.Yield, ast.YieldFrom, ast.Await, ast.NamedExpr)) for x in ast.walk(inner.test)):
            return n
        gen = ast.GeneratorExp(elt=inner.test, generators=[ast.comprehension(target=n.target, iter=n.iter, ifs=[], is_async=0)])
        call = ast.Call(func=ast.Name(id="any", ctx=ast.Load()), args=[gen], keywords=[])
        new = ast.If(test=call, body=inner.body, orelse=[])
        ast.copy_location(new, n)
        ast.copy_location(call, inner.test)
        ast.copy_location(gen, inner.test)
        ast.fix_missing_locations(new)
        return new


def _has_private_call(e: ast.AST) -> bool:
    for n in ast.walk(e):
        if isinstance(n, ast.Call):
            nm = n.func.attr if isinstance(n.func, ast.Attribute) else (n.func.id if isinstance(n.func, ast.Name) else "")
            if _is_private(nm):
                return True
    return False


class _IfExpToIf(ast.NodeTransformer):
    """`x = A if c else B` / `return A if c else B` with a private helper call in a branch -> an if statement, so that the helper
    can be analysed in place on its own branch"""

    def visit_FunctionDef(self, n):
        return n

    visit_AsyncFunctionDef = visit_Lambda = visit_FunctionDef

    def _split(self, st, value, make):
        if isinstance(value, ast.IfExp) and (_has_private_call(value.body) or _has_private_call(value.orelse)):
            new = ast.If(test=value.test, body=[make(value.body)], orelse=[make(value.orelse)])
            ast.copy_location(new, st)
            ast.fix_missing_locations(new)
            return self.visit(new)
        return st

    def visit_Assign(self, st):
        return self._split(st, st.value, lambda v: ast.copy_location(ast.Assign(targets=copy.deepcopy(st.targets), value=v, lineno=st.lineno), st))

    def visit_AnnAssign(self, st):
        if st.value is None:
            return st
        return self._split(st, st.value, lambda v: ast.copy_location(ast.AnnAssign(target=copy.deepcopy(st.target), annotation=st.annotation, value=v, simple=st.simple), st))

    def visit_Return(self, st):
        if st.value is None:
            return st
        return self._split(st, st.value, lambda v: ast.copy_location(ast.Return(value=v), st))


# ---------------------------------------------------------------------------------------------------------------- function values
_OP_BIN = {"add": ast.Add, "sub": ast.Sub, "mul": ast.Mult, "truediv": ast.Div, "floordiv": ast.FloorDiv, "mod": ast.Mod,
           "and_": ast.BitAnd, "or_": ast.BitOr, "xor": ast.BitXor, "pow": ast.Pow}
_OP_CMP = {"eq": ast.Eq, "ne": ast.NotEq, "lt": ast.Lt, "le": ast.LtE, "gt": ast.Gt, "ge": ast.GtE, "is_": ast.Is, "is_not": ast.IsNot}
_OP_OTHER = {"contains", "not_", "getitem", "truth", "neg"}
_OP_FACTORIES = {"attrgetter", "itemgetter", "methodcaller"}


class FunctionValues:
    """Function values that stand for an expression: operator.add / attrgetter("a") / itemgetter(0) / methodcaller("m") / lambdas, written in
    place or bound once at module level.  `apply(fv, args)` gives the expression the call computes (None: not such a value)."""

    def __init__(self, repo: Optional[Repo], f: Optional[FuncInfo], local_names: Optional[Set[str]]):
        self.repo, self.f, self.local_names = repo, f, local_names

    def _global(self, name: str) -> bool:
        return self.local_names is not None and name not in self.local_names

    def operator_member(self, e: ast.AST) -> Optional[str]:
        """X when e denotes operator.X"""
        if isinstance(e, ast.Attribute) and isinstance(e.value, ast.Name) and self._global(e.value.id):
            if e.value.id == "operator" or self._lookup(e.value.id) == ("module", "operator"):
                return e.attr
            return None
        if isinstance(e, ast.Name) and self._global(e.id):
            r = self._lookup(e.id)
            if r and r[0] == "external" and r[1][0] == "operator":
                return r[1][1]
            if r is None and e.id in _OP_FACTORIES:
                return e.id         # written in a helper of another module that imports it (the names are distinctive)
        return None

    def _lookup(self, name: str):
        if self.repo is None or self.f is None:
            return None
        try:
            r = self.repo.lookup(self.f.mod.name, name)
        except Exception:
            return None
        if not r:
            return None
        if r[0] == "module":
            return ("module", r[1])
        return r

    def functools_member(self, e: ast.AST) -> Optional[str]:
        if isinstance(e, ast.Attribute) and isinstance(e.value, ast.Name) and self._global(e.value.id) and \
                (e.value.id == "functools" or self._lookup(e.value.id) == ("module", "functools")):
            return e.attr
        if isinstance(e, ast.Name) and self._global(e.id):
            r = self._lookup(e.id)
            if r and r[0] == "external" and r[1][0] == "functools":
                return r[1][1]
            if r is None and e.id in ("partial", "reduce"):
                return e.id
        return None

    def itertools_member(self, e: ast.AST) -> Optional[str]:
        if isinstance(e, ast.Attribute) and isinstance(e.value, ast.Name) and self._global(e.value.id) and \
                (e.value.id == "itertools" or self._lookup(e.value.id) == ("module", "itertools")):
            return e.attr
        if isinstance(e, ast.Attribute) and e.attr == "from_iterable" and self.itertools_member(e.value) == "chain":
            return "chain.from_iterable"
        if isinstance(e, ast.Name) and self._global(e.id):
            r = self._lookup(e.id)
            if r and r[0] == "external" and r[1][0] == "itertools":
                return r[1][1]
            if r is None and e.id in ("chain", "starmap"):
                return e.id
        return None

    def is_partial(self, e: ast.AST) -> bool:
        return isinstance(e, ast.Call) and self.functools_member(e.func) == "partial" and bool(e.args) and \
            not any(isinstance(a, ast.Starred) for a in e.args) and not any(k.arg is None for k in e.keywords)

    def is_value(self, e: ast.AST) -> bool:
        if isinstance(e, ast.Lambda):
            return True
        if self.is_partial(e):
            return True
        m = self.operator_member(e)
        if m is not None:
            return m in _OP_BIN or m in _OP_CMP or m in _OP_OTHER
        if isinstance(e, ast.Call) and not e.keywords or isinstance(e, ast.Call) and self.operator_member(e.func) == "methodcaller":
            return self.operator_member(e.func) in _OP_FACTORIES and bool(e.args) and all(isinstance(a, ast.Constant) for a in e.args[:1])
        return False

    def module_value(self, name: str) -> Optional[ast.AST]:
        """the function value a module-level name is bound to (once)"""
        if not self._global(name):
            return None
        r = self._lookup(name)
        if r and r[0] == "const" and isinstance(r[1], ast.AST) and self.is_value(r[1]):
            return r[1]
        return None

    @staticmethod
    def _pure(a: ast.AST) -> bool:
        return isinstance(a, ast.Constant) or _is_pure_path(a)

    def apply(self, fv: ast.AST, args: List[ast.AST], keywords: List[ast.keyword]) -> Optional[ast.AST]:
        if self.is_partial(fv):
            # partial(F, a, k=v)(b) is F(a, b, k=v)
            if any(isinstance(a, ast.Starred) for a in args) or any(k.arg is None for k in keywords):
                return None
            later = {k.arg for k in keywords}
            kws = [copy.deepcopy(k) for k in fv.keywords if k.arg not in later] + [copy.deepcopy(k) for k in keywords]
            inner = copy.deepcopy(fv.args[0])
            new_args = [copy.deepcopy(a) for a in fv.args[1:]] + list(args)
            if self.is_value(inner):
                got = self.apply(inner, new_args, kws)
                if got is not None:
                    return got
            return ast.Call(func=inner, args=new_args, keywords=kws)
        if keywords or any(isinstance(a, ast.Starred) for a in args):
            return None
        if isinstance(fv, ast.Lambda):
            a = fv.args
            if a.posonlyargs or a.kwonlyargs or a.vararg or a.kwarg or a.defaults or len(a.args) != len(args):
                return None
            body = copy.deepcopy(fv.body)
            if any(isinstance(x, (ast.Lambda, ast.NamedExpr, ast.ListComp, ast.SetComp, ast.DictComp, ast.GeneratorExp)) for x in ast.walk(body)) \
                    and not all(self._pure(x) for x in args):
                return None
            for prm, arg in zip(a.args, args):
                uses = sum(1 for x in ast.walk(body) if isinstance(x, ast.Name) and x.id == prm.arg)
                if uses > 1 and not self._pure(arg):
                    return None
            # simultaneous substitution
            mapping = {prm.arg: arg for prm, arg in zip(a.args, args)}

            class Sub(ast.NodeTransformer):
                def visit_Name(self, n):
                    if n.id in mapping and isinstance(n.ctx, ast.Load):
                        return ast.copy_location(copy.deepcopy(mapping[n.id]), n)
                    return n
            return Sub().visit(body)
        m = self.operator_member(fv)
        if m is not None:
            if m in _OP_BIN and len(args) == 2:
                return ast.BinOp(left=args[0], op=_OP_BIN[m](), right=args[1])
            if m in _OP_CMP and len(args) == 2:
                return ast.Compare(left=args[0], ops=[_OP_CMP[m]()], comparators=[args[1]])
            if m == "contains" and len(args) == 2:
                return ast.Compare(left=args[1], ops=[ast.In()], comparators=[args[0]])
            if m == "not_" and len(args) == 1:
                return ast.UnaryOp(op=ast.Not(), operand=args[0])
            if m == "neg" and len(args) == 1:
                return ast.UnaryOp(op=ast.USub(), operand=args[0])
            if m == "getitem" and len(args) == 2:
                return ast.Subscript(value=args[0], slice=args[1], ctx=ast.Load())
            if m == "truth" and len(args) == 1:
                return ast.Call(func=ast.Name(id="bool", ctx=ast.Load()), args=[args[0]], keywords=[])
            return None
        if isinstance(fv, ast.Call) and len(args) == 1:
            fac = self.operator_member(fv.func)
            x = args[0]
            if fac == "attrgetter" and not fv.keywords and fv.args and all(isinstance(a, ast.Constant) and isinstance(a.value, str) for a in fv.args):
                if len(fv.args) > 1 and not self._pure(x):
                    return None

                def chain(path: str):
                    out = copy.deepcopy(x)
                    for part in path.split("."):
                        out = ast.Attribute(value=out, attr=part, ctx=ast.Load())
                    return out
                got = [chain(a.value) for a in fv.args]
                return got[0] if len(got) == 1 else ast.Tuple(elts=got, ctx=ast.Load())
            if fac == "itemgetter" and not fv.keywords and fv.args and all(isinstance(a, ast.Constant) for a in fv.args):
                if len(fv.args) > 1 and not self._pure(x):
                    return None
                got = [ast.Subscript(value=copy.deepcopy(x), slice=copy.deepcopy(a), ctx=ast.Load()) for a in fv.args]
                return got[0] if len(got) == 1 else ast.Tuple(elts=got, ctx=ast.Load())
            if fac == "methodcaller" and fv.args and isinstance(fv.args[0], ast.Constant) and isinstance(fv.args[0].value, str):
                return ast.Call(func=ast.Attribute(value=x, attr=fv.args[0].value, ctx=ast.Load()), args=copy.deepcopy(fv.args[1:]),
                                keywords=copy.deepcopy(fv.keywords))
        return None


def _own_jumps_to_blocks(body: List[ast.stmt], continue_label: str, break_label: str) -> List[ast.stmt]:
    """`continue` / `break` that belong to the loop whose body this is become jumps to the end of the given blocks"""
    def rec(stmts):
        out = []
        for s_ in stmts:
            if isinstance(s_, ast.Continue):
                j = InlineJump()
                j.label = continue_label
                out.append(ast.copy_location(j, s_))
                continue
            if isinstance(s_, ast.Break):
                j = InlineJump()
                j.label = break_label
                out.append(ast.copy_location(j, s_))
                continue
            if isinstance(s_, (ast.For, ast.While, ast.AsyncFor)):
                s_.orelse = rec(s_.orelse)      # the body's own jumps belong to the inner loop
                out.append(s_)
                continue
            for fld in ("body", "orelse", "finalbody"):
                sub = getattr(s_, fld, None)
                if isinstance(sub, list) and sub and isinstance(sub[0], ast.stmt) and not isinstance(s_, (ast.FunctionDef, ast.AsyncFunctionDef, ast.ClassDef)):
                    setattr(s_, fld, rec(sub))
            for h in getattr(s_, "handlers", []) or []:
                h.body = rec(h.body)
            out.append(s_)
        return out
    return rec(body)


def _inline_single_use_iterators(stmts: List[ast.stmt]) -> List[ast.stmt]:
    """`it = <generator expression / map / filter / chain ..>` immediately followed (logging aside) by the only use of `it`, a `for x in it:`
    loop: the expression is put where it is consumed"""
    LAZY = ("map", "filter", "chain", "starmap", "zip", "enumerate", "reversed", "iter")

    def lazy(v: ast.AST) -> bool:
        if isinstance(v, ast.GeneratorExp):
            return True
        if isinstance(v, ast.Call):
            f_ = v.func
            nm = f_.id if isinstance(f_, ast.Name) else (f_.attr if isinstance(f_, ast.Attribute) else "")
            return nm in LAZY or nm == "from_iterable"
        return False

    out: List[ast.stmt] = []
    i = 0
    stmts = list(stmts)
    for st in stmts:
        for fld in ("body", "orelse", "finalbody"):
            sub = getattr(st, fld, None)
            if isinstance(sub, list) and sub and isinstance(sub[0], ast.stmt) and not isinstance(st, (ast.FunctionDef, ast.AsyncFunctionDef, ast.ClassDef)):
                setattr(st, fld, _inline_single_use_iterators(sub))
        for h in getattr(st, "handlers", []) or []:
            h.body = _inline_single_use_iterators(h.body)
    def movable_past(value: ast.AST, name: str, other: ast.stmt) -> bool:
        """a generator expression only evaluates its first iterable when it is created; when that is a plain name / attribute path, creating
        it after a simple statement that neither mentions the generator nor rebinds that name is the same computation"""
        if not (isinstance(value, ast.GeneratorExp) and _is_pure_path(value.generators[0].iter)):
            return False
        if not isinstance(other, (ast.Assign, ast.AnnAssign, ast.AugAssign, ast.Expr)):
            return False
        root = value.generators[0].iter
        while isinstance(root, ast.Attribute):
            root = root.value
        for x in ast.walk(other):
            if isinstance(x, ast.Name) and (x.id == name or (isinstance(root, ast.Name) and x.id == root.id and not isinstance(x.ctx, ast.Load))):
                return False
            if isinstance(x, (ast.Yield, ast.YieldFrom, ast.Await, ast.NamedExpr)):
                return False
        return True

    while i < len(stmts):
        st = stmts[i]
        simple_bind = (isinstance(st, ast.Assign) and len(st.targets) == 1 and isinstance(st.targets[0], ast.Name)) or \
            (isinstance(st, ast.AnnAssign) and isinstance(st.target, ast.Name) and st.value is not None)
        if simple_bind and (lazy(st.value) or isinstance(st.value, ast.Call)):
            name = st.targets[0].id if isinstance(st, ast.Assign) else st.target.id
            j = i + 1
            while j < len(stmts) and not any(isinstance(x, ast.Name) and x.id == name for x in ast.walk(stmts[j])) and \
                    ((isinstance(stmts[j], ast.Expr) and isinstance(stmts[j].value, ast.Call) and is_logging_call(stmts[j].value))
                     or movable_past(st.value, name, stmts[j])):
                j += 1
            if j < len(stmts) and isinstance(stmts[j], ast.For) and isinstance(stmts[j].iter, ast.Name) and stmts[j].iter.id == name:
                uses = sum(1 for later in stmts[i + 1:] for x in ast.walk(later) if isinstance(x, ast.Name) and x.id == name)
                if uses == 1:
                    stmts[j].iter = st.value
                    out.extend(stmts[i + 1:j])
                    i = j
                    continue
        out.append(st)
        i += 1
    return out


_FRESH_EMPTY = ("set", "list", "dict", "frozenset", "tuple")


def _is_fresh_empty(e: ast.AST) -> bool:
    if isinstance(e, (ast.List, ast.Set, ast.Tuple)) and not e.elts:
        return True
    if isinstance(e, ast.Dict) and not e.keys:
        return True
    return isinstance(e, ast.Call) and isinstance(e.func, ast.Name) and e.func.id in _FRESH_EMPTY and not e.args and not e.keywords


def _is_pure_path(e: ast.AST) -> bool:
    """a name or an attribute chain on a name / on a literal (reading it twice is reading it once)"""
    while isinstance(e, ast.Attribute):
        e = e.value
    return isinstance(e, (ast.Name, ast.Constant))


class _Subst(ast.NodeTransformer):
    def __init__(self, name: str, value: ast.AST):
        self.name, self.value = name, value

    def visit_Name(self, n):
        if n.id == self.name and isinstance(n.ctx, ast.Load):
            return ast.copy_location(copy.deepcopy(self.value), n)
        return n


class _SubstName(ast.NodeTransformer):
    """simultaneous substitution of loaded names by expressions (the substituted expressions are not visited again)"""

    def __init__(self, mapping: Dict[str, ast.AST]):
        self.m = mapping

    def visit_Name(self, n):
        if n.id in self.m and isinstance(n.ctx, ast.Load):
            return ast.copy_location(copy.deepcopy(self.m[n.id]), n)
        return n


class _Desugar(ast.NodeTransformer):
    """Exact statement-level desugarings into the forms the engines read:
      * `(A if c else B).m(args)`                      -> `if c: A.m(args) else: B.m(args)`
      * `x = next((E for v in IT if C), D)`            -> `x = D; for v in IT: if C: x = E; break`
      * `R.setdefault(K, <fresh empty>).m(args)`       -> `if K not in R: R[K] = <fresh empty>` ; `R[K].m(args)`     (also `x = R.setdefault(..)`)
      * `for i in (c1, .., cn): BODY` over literal constants (no break / continue of that loop, i not rebound) -> BODY[i:=c1]; ..; BODY[i:=cn]
    """

    def __init__(self, local_names: Optional[Set[str]] = None, repo: Optional[Repo] = None, f: Optional[FuncInfo] = None):
        self.local_names = local_names      # None: unknown, only literal constants are substituted
        self.fv = FunctionValues(repo, f, local_names)

    def visit_Name(self, n):
        # a module-level name bound once to a function value (attrgetter("a"), operator.add, a lambda ..) is that value
        if isinstance(n.ctx, ast.Load):
            v = self.fv.module_value(n.id)
            if v is not None:
                new = copy.deepcopy(v)
                for x in ast.walk(new):
                    ast.copy_location(x, n)
                return new
        return n

    def visit_FunctionDef(self, n):
        return n

    visit_AsyncFunctionDef = visit_Lambda = visit_FunctionDef

    # -- helpers
    @staticmethod
    def _fix(new, at):
        for x in (new if isinstance(new, list) else [new]):
            ast.copy_location(x, at)
            ast.fix_missing_locations(x)
        return new

    def _setdefault(self, call: ast.AST):
        if isinstance(call, ast.Call) and isinstance(call.func, ast.Attribute) and call.func.attr == "setdefault" and len(call.args) == 2 \
                and not call.keywords and _is_pure_path(call.func.value) and _is_pure_path(call.args[0]) and _is_fresh_empty(call.args[1]):
            r, k, v = call.func.value, call.args[0], call.args[1]
            pre = ast.If(test=ast.Compare(left=copy.deepcopy(k), ops=[ast.NotIn()], comparators=[copy.deepcopy(r)]),
                         body=[ast.Assign(targets=[ast.Subscript(value=copy.deepcopy(r), slice=copy.deepcopy(k), ctx=ast.Store())], value=v, lineno=call.lineno)],
                         orelse=[])
            item = ast.Subscript(value=copy.deepcopy(r), slice=copy.deepcopy(k), ctx=ast.Load())
            return pre, item
        return None

    def visit_Call(self, c):
        """`map(F, IT)` -> `(F(v) for v in IT)`, `filter(F, IT)` -> `(v for v in IT if F(v))` (one iterable; F a name, attribute or
        one-parameter lambda, which is applied in place)"""
        self.generic_visit(c)
        unrolled = self._any_all_over_table(c)
        if unrolled is not None:
            return unrolled
        # a generator expression over a static table that is consumed completely and at once (sep.join(..), list(..), sorted(..), sum(..),
        # xs.extend(..)) is the display of its elements: same elements, same evaluation order
        nm_ = c.func.attr if isinstance(c.func, ast.Attribute) else (c.func.id if isinstance(c.func, ast.Name) else "")
        if nm_ in ("join", "list", "tuple", "set", "frozenset", "sorted", "sum", "max", "min", "dict", "extend", "update") and len(c.args) >= 1 \
                and isinstance(c.args[0], ast.GeneratorExp) and not (isinstance(c.func, ast.Name) and self.local_names is not None and nm_ in self.local_names):
            as_list = ast.copy_location(ast.ListComp(elt=c.args[0].elt, generators=c.args[0].generators), c.args[0])
            d = self._comp_as_display(as_list)
            if d is not None:
                c.args[0] = d
        simple = self._simple_call_forms(c)
        if simple is not None:
            return simple
        consumed = self._consumed_generator(c)
        if consumed is not None:
            return consumed
        if self.fv.is_value(c.func):
            got = self.fv.apply(c.func, list(c.args), list(c.keywords))
            if got is not None:
                ast.copy_location(got, c)
                ast.fix_missing_locations(got)
                return got
        if not (isinstance(c.func, ast.Name) and c.func.id in ("map", "filter") and len(c.args) == 2 and not c.keywords
                and not any(isinstance(a, ast.Starred) for a in c.args)):
            return c
        if self.local_names is not None and c.func.id in self.local_names:
            return c
        fn_, it = c.args
        var = f"item__c{next(_counter)}"
        load = lambda: ast.Name(id=var, ctx=ast.Load())
        if self.fv.is_value(fn_):
            applied = self.fv.apply(fn_, [load()], [])
            if applied is None:
                return c
        elif isinstance(fn_, (ast.Name, ast.Attribute)):
            applied = ast.Call(func=fn_, args=[load()], keywords=[])
        elif isinstance(fn_, ast.Constant) and fn_.value is None and c.func.id == "filter":
            applied = load()
        else:
            return c
        comp = ast.comprehension(target=ast.Name(id=var, ctx=ast.Store()), iter=it, ifs=[], is_async=0)
        if c.func.id == "map":
            new = ast.GeneratorExp(elt=applied, generators=[comp])
        else:
            comp.ifs = [applied]
            new = ast.GeneratorExp(elt=load(), generators=[comp])
        ast.copy_location(new, c)
        ast.fix_missing_locations(new)
        return new

    def visit_Expr(self, st):
        self.generic_visit(st)
        c = st.value
        if isinstance(c, ast.Call) and isinstance(c.func, ast.Name) and c.func.id == "setattr" and self.fv._global("setattr") and len(c.args) == 3 \
                and not c.keywords and isinstance(c.args[1], ast.Constant) and isinstance(c.args[1].value, str) and c.args[1].value.isidentifier():
            # setattr(x, "name", v)  ->  x.name = v
            new = ast.Assign(targets=[ast.Attribute(value=c.args[0], attr=c.args[1].value, ctx=ast.Store())], value=c.args[2], lineno=st.lineno)
            return self._fix(new, st)
        if isinstance(c, ast.Call) and isinstance(c.func, ast.Attribute):
            recv = c.func.value
            if isinstance(recv, ast.IfExp):
                def arm(v):
                    call = ast.Call(func=ast.Attribute(value=v, attr=c.func.attr, ctx=ast.Load()), args=copy.deepcopy(c.args), keywords=copy.deepcopy(c.keywords))
                    return self.visit(self._fix(ast.Expr(value=call), st))
                a, b = arm(recv.body), arm(recv.orelse)
                new = ast.If(test=recv.test, body=a if isinstance(a, list) else [a], orelse=b if isinstance(b, list) else [b])
                return self._fix(new, st)
            sd = self._setdefault(recv)
            if sd is not None:
                pre, item = sd
                c.func.value = item
                return self._fix([pre, st], st)
        return st

    def visit_Assign(self, st):
        self.generic_visit(st)
        if len(st.targets) == 1 and isinstance(st.targets[0], (ast.Tuple, ast.List)) and isinstance(st.value, ast.Call):
            rec = self._record_as_tuple(st.value)     # a, b = Rec(x, y): unpacking a NamedTuple just built
            if rec is not None:
                st.value = rec
        if len(st.targets) == 1 and isinstance(st.targets[0], (ast.Tuple, ast.List)) and isinstance(st.value, ast.GeneratorExp):
            d = self._comp_as_display(st.value)      # unpacking consumes the generator completely, at once
            if d is not None:
                st.value = d
        if len(st.targets) == 1 and isinstance(st.targets[0], (ast.Tuple, ast.List)) and isinstance(st.value, (ast.Tuple, ast.List)) \
                and len(st.targets[0].elts) == len(st.value.elts) and all(isinstance(t, ast.Name) for t in st.targets[0].elts) \
                and not any(isinstance(v, ast.Starred) for v in st.value.elts):
            # a, b = x, y  ->  a = x; b = y   (when no target is read on the right: not a swap)
            tnames = {t.id for t in st.targets[0].elts}
            if not any(isinstance(x, ast.Name) and x.id in tnames for v in st.value.elts for x in ast.walk(v)) and len(tnames) == len(st.targets[0].elts):
                parts = [ast.Assign(targets=[t], value=v, lineno=st.lineno) for t, v in zip(st.targets[0].elts, st.value.elts)]
                return self._fix(parts, st)
        if len(st.targets) == 1 and isinstance(st.targets[0], ast.Name):
            sd = self._setdefault(st.value)
            if sd is not None:
                pre, item = sd
                st.value = item
                return self._fix([pre, st], st)
            nx = self._next(st.targets[0], st.value, st)
            if nx is not None:
                return nx
            rd = self._reduce(st.targets[0], st.value, st)
            if rd is not None:
                return rd
        return st

    def visit_Return(self, st):
        self.generic_visit(st)
        if st.value is not None and isinstance(st.value, ast.Call) and self.fv.functools_member(st.value.func) == "reduce":
            tmp = ast.Name(id=f"__acc__c{next(_counter)}", ctx=ast.Store())
            rd = self._reduce(tmp, st.value, st)
            if rd is not None:
                ret = ast.copy_location(ast.Return(value=ast.Name(id=tmp.id, ctx=ast.Load())), st)
                return rd + [ast.fix_missing_locations(ret)]
        return st

    def visit_AnnAssign(self, st):
        self.generic_visit(st)
        if isinstance(st.target, ast.Name) and st.value is not None:
            nx = self._next(st.target, st.value, st)
            if nx is not None:
                return nx
        return st

    def _next(self, target: ast.Name, v: ast.AST, st):
        if not (isinstance(v, ast.Call) and isinstance(v.func, ast.Name) and v.func.id == "next" and len(v.args) == 2 and not v.keywords
                and isinstance(v.args[0], ast.GeneratorExp) and len(v.args[0].generators) == 1 and not v.args[0].generators[0].is_async):
            return None
        gen, default = v.args[0], v.args[1]
        comp = gen.generators[0]
        if any(isinstance(x, (ast.NamedExpr, ast.Yield, ast.YieldFrom, ast.Await)) for x in ast.walk(gen)):
            return None
        if any(isinstance(x, ast.Name) and x.id == target.id for x in ast.walk(gen)):
            return None
        # the generator's own variables stay private to the loop that replaces it
        k = next(_counter)
        ren = _Renamer({x.id: f"{x.id}__c{k}" for x in ast.walk(comp.target) if isinstance(x, ast.Name)})
        gen = copy.deepcopy(gen)
        comp = gen.generators[0]
        comp.target = ren.visit(comp.target)
        comp.ifs = [ren.visit(c) for c in comp.ifs]
        gen.elt = ren.visit(gen.elt)
        init = ast.Assign(targets=[ast.Name(id=target.id, ctx=ast.Store())], value=default, lineno=st.lineno)
        hit = [ast.Assign(targets=[ast.Name(id=target.id, ctx=ast.Store())], value=gen.elt, lineno=st.lineno), ast.Break()]
        body = hit
        if comp.ifs:
            test = comp.ifs[0] if len(comp.ifs) == 1 else ast.BoolOp(op=ast.And(), values=list(comp.ifs))
            body = [ast.If(test=test, body=hit, orelse=[])]
        loop = ast.For(target=comp.target, iter=comp.iter, body=body, orelse=[])
        return self._fix([init, loop], st)

    # ------------------------------------------------------------------ static tables
    def _class_of(self) -> Optional[str]:
        return self.fv.f.cls if self.fv.f is not None else None

    def _static_table(self, e: ast.AST, depth: int = 0) -> Optional[List[ast.AST]]:
        """the element expressions of an iterable whose content is fixed by the source: a tuple / list display, a name bound once to
        one at module level, a class-level attribute (`self.T`, `cls.T`, `Cls.T`), `enumerate` / `zip` / `reversed` / `tuple` / `list` of
        such, `.items()` / `.keys()` / `.values()` of a dict display; None otherwise"""
        if depth > 4:
            return None
        fv = self.fv
        if isinstance(e, (ast.Tuple, ast.List)):
            out: List[ast.AST] = []
            for x in e.elts:
                if isinstance(x, ast.Starred):      # [*T1, *T2] (also what chain(T1, T2) was turned into): the tables spliced
                    sub = self._static_table(x.value, depth + 1)
                    if sub is None:
                        return None
                    cls = getattr(self, "_table_class", None)
                    out.extend(self._class_scoped(y, cls) for y in sub)
                else:
                    out.append(x)
            return out
        if isinstance(e, ast.Name) and e.id in getattr(self, "single_defs", {}):
            # a local bound exactly once (to a display, or to another such local: results of helpers analysed in place)
            return self._static_table(self.single_defs[e.id], depth + 1)
        if isinstance(e, ast.Name) and fv._global(e.id) and fv.repo is not None and fv.f is not None:
            try:
                node = fv.repo.const_node(fv.f.mod.name, e.id)
            except Exception:
                node = None
            return self._static_table(node, depth + 1) if isinstance(node, (ast.Tuple, ast.List, ast.Dict, ast.Call)) else None
        if isinstance(e, ast.Attribute) and isinstance(e.value, ast.Name) and fv.repo is not None and fv.f is not None:
            cls = None
            if fv.f.cls and e.value.id in (fv.f.self_name, "cls"):
                cls = fv.f.cls
            elif e.value.id in fv.repo.classes and fv._global(e.value.id):
                cls = e.value.id
            if cls:
                node = self._class_attr(cls, e.attr)
                if node is not None:
                    self._table_class = cls
                    return self._static_table(node, depth + 1)
            return None
        if isinstance(e, ast.Call) and isinstance(e.func, ast.Name) and fv._global(e.func.id) and not e.keywords:
            if e.func.id in ("tuple", "list", "iter") and len(e.args) == 1:
                return self._static_table(e.args[0], depth + 1)
            if e.func.id == "reversed" and len(e.args) == 1:
                t = self._static_table(e.args[0], depth + 1)
                return None if t is None else list(reversed(t))
            if e.func.id == "enumerate" and len(e.args) in (1, 2):
                t = self._static_table(e.args[0], depth + 1)
                start = 0
                if len(e.args) == 2:
                    if not (isinstance(e.args[1], ast.Constant) and isinstance(e.args[1].value, int)):
                        return None
                    start = e.args[1].value
                return None if t is None else [ast.Tuple(elts=[ast.Constant(value=start + i), x], ctx=ast.Load()) for i, x in enumerate(t)]
            if e.func.id == "zip" and e.args:
                ts = [self._static_table(a, depth + 1) for a in e.args]
                if any(t is None for t in ts):
                    return None
                n = min(len(t) for t in ts)
                return [ast.Tuple(elts=[t[i] for t in ts], ctx=ast.Load()) for i in range(n)]
        if isinstance(e, ast.Call) and isinstance(e.func, ast.Attribute) and e.func.attr in ("items", "keys", "values") and not e.args and not e.keywords:
            d = e.func.value
            if isinstance(d, ast.Name) and fv._global(d.id) and fv.repo is not None and fv.f is not None:
                try:
                    d = fv.repo.const_node(fv.f.mod.name, d.id)
                except Exception:
                    d = None
            elif isinstance(d, ast.Attribute):
                saved = getattr(self, "_table_class", None)
                got = None
                if isinstance(d.value, ast.Name) and fv.f is not None and fv.f.cls and d.value.id in (fv.f.self_name, "cls"):
                    got = self._class_attr(fv.f.cls, d.attr)
                    if got is not None:
                        self._table_class = fv.f.cls
                d = got
            if isinstance(d, ast.Dict) and all(k is not None for k in d.keys):
                if e.func.attr == "keys":
                    return list(d.keys)
                if e.func.attr == "values":
                    return list(d.values)
                return [ast.Tuple(elts=[k, v], ctx=ast.Load()) for k, v in zip(d.keys, d.values)]
        if isinstance(e, ast.Dict) and all(k is not None for k in e.keys):
            return list(e.keys)
        return None

    def _class_attr(self, cls: str, attr: str) -> Optional[ast.AST]:
        repo = self.fv.repo
        for c in repo.mro(cls):
            hits = []
            for b in repo.classes[c].node.body:
                if isinstance(b, ast.Assign) and any(isinstance(t, ast.Name) and t.id == attr for t in b.targets):
                    hits.append(b.value)
                elif isinstance(b, ast.AnnAssign) and isinstance(b.target, ast.Name) and b.target.id == attr and b.value is not None:
                    hits.append(b.value)
            if hits:
                # must not be rebound through self / the class anywhere in the repository's own code of that class
                for fn in repo.classes[c].methods.values():
                    for x in ast.walk(fn):
                        if isinstance(x, ast.Attribute) and x.attr == attr and not isinstance(x.ctx, ast.Load):
                            return None
                return hits[0] if len(hits) == 1 else None
        return None

    def _stable_element(self, e: ast.AST) -> bool:
        """an element that means the same wherever it is written in the function: constants, names the function never binds, attribute
        paths on those, tuples of such, function-value constructors"""
        if isinstance(e, ast.Constant) or isinstance(e, ast.Lambda):
            return True
        if isinstance(e, ast.Name):
            if self.fv.f is not None and self.fv.f.is_method and e.id == self.fv.f.self_name and e.id not in getattr(self, "stored_names", set()):
                return True     # the receiver itself
            return self.local_names is not None and e.id not in self.local_names
        if isinstance(e, ast.Attribute):
            return self._stable_element(e.value)
        if isinstance(e, (ast.Tuple, ast.List)):
            return all(self._stable_element(x) for x in e.elts)
        if isinstance(e, ast.Call):
            return self._stable_element(e.func) and all(self._stable_element(a) for a in e.args) and all(self._stable_element(k.value) for k in e.keywords)
        if isinstance(e, ast.JoinedStr):
            return all(isinstance(v, ast.Constant) for v in e.values)
        return False

    def _class_scoped(self, e: ast.AST, cls: Optional[str]) -> ast.AST:
        """a bare name inside a class-level table that names a method of the class is `Cls.method` for code outside the class body"""
        if cls is None or self.fv.repo is None:
            return e
        repo = self.fv.repo

        class R(ast.NodeTransformer):
            def visit_Name(self_, n):
                if isinstance(n.ctx, ast.Load) and any(n.id in repo.classes[c].methods for c in repo.mro(cls)):
                    return ast.copy_location(ast.Attribute(value=ast.Name(id=cls, ctx=ast.Load()), attr=n.id, ctx=ast.Load()), n)
                return n
        return R().visit(copy.deepcopy(e))

    def _bind(self, target: ast.AST, elem: ast.AST) -> Optional[Dict[str, ast.AST]]:
        if isinstance(target, ast.Name):
            return {target.id: elem}
        if isinstance(target, (ast.Tuple, ast.List)) and isinstance(elem, (ast.Tuple, ast.List)) and len(target.elts) == len(elem.elts) \
                and not any(isinstance(x, ast.Starred) for x in list(target.elts) + list(elem.elts)):
            out: Dict[str, ast.AST] = {}
            for t, v in zip(target.elts, elem.elts):
                sub = self._bind(t, v)
                if sub is None:
                    return None
                out.update(sub)
            return out
        return None

    MAX_TABLE = 12

    def _table_for(self, target: ast.AST, it: ast.AST, body_nodes: List[ast.AST], in_place: bool = False) -> Optional[List[Dict[str, ast.AST]]]:
        """per element of a static table the substitution of the loop variables; None when the loop is not over a static table or the
        variables are rebound in the body"""
        self._table_class = None
        table = self._static_table(it)
        if table is None or not (1 <= len(table) <= self.MAX_TABLE):
            return None
        cls = self._table_class
        table = [self._class_scoped(x, cls) for x in table]

        def pure(x: ast.AST) -> bool:
            if isinstance(x, (ast.Tuple, ast.List)):
                return all(pure(y) for y in x.elts)
            return isinstance(x, ast.Constant) or _is_pure_path(x)

        # (a comprehension is evaluated at one program point: its elements may be locals; a loop body runs statements in between)
        if not all(self._stable_element(x) or (in_place and pure(x)) for x in table):
            return None
        binds = [self._bind(target, x) for x in table]
        if any(b is None for b in binds):
            return None
        names = set(binds[0])
        for root in body_nodes:
            for x in ast.walk(root):
                if isinstance(x, ast.Name) and x.id in names and not isinstance(x.ctx, ast.Load):
                    return None
                if isinstance(x, (ast.FunctionDef, ast.AsyncFunctionDef, ast.Global, ast.Nonlocal)):
                    return None
        return binds

    @staticmethod
    def _subst_many(node: ast.AST, mapping: Dict[str, ast.AST]) -> ast.AST:
        class S(ast.NodeTransformer):
            def visit_Name(self_, n):
                if n.id in mapping and isinstance(n.ctx, ast.Load):
                    return ast.copy_location(copy.deepcopy(mapping[n.id]), n)
                return n
        return S().visit(copy.deepcopy(node))

    def visit_For(self, n):
        """a loop over a static table is written out: one copy of the body per element with the loop variables replaced; `continue`
        ends the copy, `break` ends the whole sequence, the `else` part runs when no copy broke out"""
        self.generic_visit(n)
        nested = self._loop_over_comprehension(n)
        if nested is not None:
            return nested
        binds = self._table_for(n.target, n.iter, n.body)
        if binds is None:
            return n
        k = next(_counter)
        outer = f"t{k}:loop"
        copies: List[ast.stmt] = []
        for idx, mapping in enumerate(binds):
            inner = f"t{k}:{idx}"
            body: List[ast.stmt] = []
            for name, val in mapping.items():       # the loop variables keep their last values
                body.append(ast.Assign(targets=[ast.Name(id=name, ctx=ast.Store())], value=copy.deepcopy(val), lineno=n.lineno))
            for s_ in n.body:
                # what the substitution makes visible (Cls.method(self, ..), a function value in call position ..) is normalised too
                r_ = self.visit(self._subst_many(s_, mapping))
                body.extend(r_ if isinstance(r_, list) else [r_])
            body = _own_jumps_to_blocks(body, inner, outer)
            blk = InlineBlock(test=ast.Constant(value=True), body=body or [ast.Pass()], orelse=[])
            blk.label = inner
            copies.append(blk)
        whole = InlineBlock(test=ast.Constant(value=True), body=copies + list(n.orelse), orelse=[])
        whole.label = outer
        return self._fix([whole], n)

    def _consumed_generator(self, c: ast.Call) -> Optional[ast.AST]:
        """list / set / tuple / frozenset / dict / sorted of a private GENERATOR helper's result: the comprehension over that call (which
        the flattener then expands in place): `dict(self._pairs())` -> `{k: v for k, v in self._pairs()}`"""
        fv = self.fv
        if isinstance(c.func, ast.Attribute) and c.func.attr in ("join", "extend", "update", "writelines") and len(c.args) == 1 and not c.keywords \
                and isinstance(c.args[0], ast.Call) and fv.repo is not None and fv.f is not None:
            # sep.join(self._lines()) / xs.extend(self._items()): the generator helper's elements, as a list comprehension over the call
            try:
                if _resolve_generator(fv.repo, fv.f, c.args[0]) is not None:
                    var = f"item__c{next(_counter)}"
                    comp = ast.ListComp(elt=ast.Name(id=var, ctx=ast.Load()),
                                        generators=[ast.comprehension(target=ast.Name(id=var, ctx=ast.Store()), iter=c.args[0], ifs=[], is_async=0)])
                    c.args[0] = ast.fix_missing_locations(ast.copy_location(comp, c))
                    return c
            except Exception:
                pass
            return None
        if not (isinstance(c.func, ast.Name) and c.func.id in ("list", "set", "tuple", "frozenset", "dict", "sorted") and fv._global(c.func.id)
                and len(c.args) == 1 and not c.keywords and isinstance(c.args[0], ast.Call)) or fv.repo is None or fv.f is None:
            return None
        try:
            if _resolve_generator(fv.repo, fv.f, c.args[0]) is None:
                return None
        except Exception:
            return None
        k = next(_counter)
        gen_call = c.args[0]
        if c.func.id == "dict":
            kk, vv = f"key__c{k}", f"value__c{k}"
            tgt = ast.Tuple(elts=[ast.Name(id=kk, ctx=ast.Store()), ast.Name(id=vv, ctx=ast.Store())], ctx=ast.Store())
            new: ast.AST = ast.DictComp(key=ast.Name(id=kk, ctx=ast.Load()), value=ast.Name(id=vv, ctx=ast.Load()),
                                        generators=[ast.comprehension(target=tgt, iter=gen_call, ifs=[], is_async=0)])
        else:
            var = f"item__c{k}"
            comp = [ast.comprehension(target=ast.Name(id=var, ctx=ast.Store()), iter=gen_call, ifs=[], is_async=0)]
            if c.func.id == "set":
                new = ast.SetComp(elt=ast.Name(id=var, ctx=ast.Load()), generators=comp)
            else:
                lst = ast.ListComp(elt=ast.Name(id=var, ctx=ast.Load()), generators=comp)
                new = lst if c.func.id == "list" else ast.Call(func=c.func, args=[lst], keywords=[])
        ast.copy_location(new, c)
        return ast.fix_missing_locations(new)

    def _simple_call_forms(self, c: ast.Call) -> Optional[ast.AST]:
        """getattr(x, "name") -> x.name;  Cls.method(self, a) -> self.method(a);  chain.from_iterable(X) -> (y for x in X for y in x);
        chain(a, b) -> [*a, *b];  starmap(F, IT) -> (F(*t) for t in IT)"""
        fv = self.fv
        new: Optional[ast.AST] = None
        if isinstance(c.func, ast.Name) and c.func.id == "getattr" and fv._global("getattr") and len(c.args) == 2 and not c.keywords \
                and isinstance(c.args[1], ast.Constant) and isinstance(c.args[1].value, str) and c.args[1].value.isidentifier():
            new = ast.Attribute(value=c.args[0], attr=c.args[1].value, ctx=ast.Load())
        elif isinstance(c.func, ast.Attribute) and isinstance(c.func.value, ast.Name) and fv.repo is not None and fv.f is not None and fv.f.cls \
                and fv._global(c.func.value.id) and c.func.value.id in fv.repo.classes and c.args and isinstance(c.args[0], ast.Name) \
                and c.args[0].id == fv.f.self_name and c.func.value.id in fv.repo.mro(fv.f.cls):
            ci = None
            for k in fv.repo.mro(c.func.value.id):
                if c.func.attr in fv.repo.classes[k].methods:
                    ci = fv.repo.classes[k]
                    break
            if ci is not None and c.func.attr not in ci.static and not any(
                    isinstance(d, ast.Name) and d.id == "classmethod" for d in ci.methods[c.func.attr].decorator_list):
                new = ast.Call(func=ast.Attribute(value=c.args[0], attr=c.func.attr, ctx=ast.Load()), args=list(c.args[1:]), keywords=list(c.keywords))
        else:
            it = fv.itertools_member(c.func)
            if it == "chain.from_iterable" and len(c.args) == 1 and not c.keywords:
                k = next(_counter)
                outer, inner = f"group__c{k}", f"item__c{k}"
                new = ast.GeneratorExp(elt=ast.Name(id=inner, ctx=ast.Load()), generators=[
                    ast.comprehension(target=ast.Name(id=outer, ctx=ast.Store()), iter=c.args[0], ifs=[], is_async=0),
                    ast.comprehension(target=ast.Name(id=inner, ctx=ast.Store()), iter=ast.Name(id=outer, ctx=ast.Load()), ifs=[], is_async=0)])
            elif it == "chain" and c.args and not c.keywords and not any(isinstance(a, ast.Starred) for a in c.args):
                new = ast.List(elts=[ast.Starred(value=a, ctx=ast.Load()) for a in c.args], ctx=ast.Load())
            elif it == "starmap" and len(c.args) == 2 and not c.keywords:
                k = next(_counter)
                var = f"args__c{k}"
                fn_ = c.args[0]
                new = ast.GeneratorExp(elt=ast.Call(func=fn_, args=[ast.Starred(value=ast.Name(id=var, ctx=ast.Load()), ctx=ast.Load())], keywords=[]),
                                       generators=[ast.comprehension(target=ast.Name(id=var, ctx=ast.Store()), iter=c.args[1], ifs=[], is_async=0)])
        if new is None:
            return None
        ast.copy_location(new, c)
        return ast.fix_missing_locations(new)

    def _reduce(self, target: ast.Name, v: ast.AST, st) -> Optional[List[ast.stmt]]:
        """x = reduce(F, IT, init)  ->  x = init; for item in IT: x = F(x, item)"""
        if not (isinstance(v, ast.Call) and self.fv.functools_member(v.func) == "reduce" and len(v.args) == 3 and not v.keywords
                and not any(isinstance(a, ast.Starred) for a in v.args)):
            return None
        fn_, it, init = v.args
        if any(isinstance(x, ast.Name) and x.id == target.id for part in (fn_, it) for x in ast.walk(part)):
            return None     # (the initial value may mention the target: `acc = reduce(f, xs, acc)`)
        k = next(_counter)
        var = f"item__c{k}"
        step_args = [ast.Name(id=target.id, ctx=ast.Load()), ast.Name(id=var, ctx=ast.Load())]
        applied = self.fv.apply(fn_, step_args, []) if self.fv.is_value(fn_) else None
        if applied is None:
            if not isinstance(fn_, (ast.Name, ast.Attribute)):
                return None
            applied = ast.Call(func=fn_, args=step_args, keywords=[])
        first = ast.Assign(targets=[ast.Name(id=target.id, ctx=ast.Store())], value=init, lineno=st.lineno)
        step = ast.Assign(targets=[ast.Name(id=target.id, ctx=ast.Store())], value=applied, lineno=st.lineno)
        loop = ast.For(target=ast.Name(id=var, ctx=ast.Store()), iter=it, body=[step], orelse=[])
        out = self._fix([first, loop], st)
        return [y for x in out for y in (lambda r_: r_ if isinstance(r_, list) else [r_])(self.visit(x))]

    def _loop_over_comprehension(self, n: ast.For):
        """`for x in (E for a in A if C for b in B): BODY` -> `for a in A: if C: for b in B: x = E; BODY` (BODY without `break` / `else`;
        the comprehension's variables get fresh names)"""
        it = n.iter
        if not isinstance(it, (ast.GeneratorExp, ast.ListComp)) or n.orelse or any(g.is_async for g in it.generators):
            return None
        if any(isinstance(x, (ast.NamedExpr, ast.Yield, ast.YieldFrom, ast.Await)) for x in ast.walk(it)):
            return None

        def has_break(stmts) -> bool:
            for s_ in stmts:
                if isinstance(s_, ast.Break):
                    return True
                if isinstance(s_, (ast.For, ast.While, ast.AsyncFor)):
                    if has_break(s_.orelse):
                        return True
                    continue
                for fld in ("body", "orelse", "finalbody"):
                    if has_break(getattr(s_, fld, []) or []):
                        return True
                for h in getattr(s_, "handlers", []) or []:
                    if has_break(h.body):
                        return True
            return False

        if has_break(n.body):
            return None
        eager = isinstance(it, ast.ListComp) and not self._effect_free(it)
        # a LIST is built completely before the first turn of the loop: fusing it with the loop would interleave the element computations
        # with the body, which is only the same program when computing the elements has no effects.  Otherwise the list is built first,
        # element by element, and the loop then runs over it (exactly what the interpreter does)
        k = next(_counter)
        names = {x.id for g_ in it.generators for x in ast.walk(g_.target) if isinstance(x, ast.Name)}
        ren = _Renamer({nm: f"{nm}__c{k}" for nm in names})
        it = copy.deepcopy(it)
        first_iter = it.generators[0].iter      # evaluated in the enclosing scope
        gens = []
        for i, g_ in enumerate(it.generators):
            tgt = ren.visit(g_.target)
            itx = g_.iter if i == 0 else ren.visit(g_.iter)
            gens.append((tgt, itx, [ren.visit(c) for c in g_.ifs]))
        elt = ren.visit(it.elt)
        tmp = f"built__c{k}"
        if eager:
            inner: List[ast.stmt] = [ast.Expr(value=ast.Call(func=ast.Attribute(value=ast.Name(id=tmp, ctx=ast.Load()), attr="append", ctx=ast.Load()),
                                                             args=[elt], keywords=[]))]
        else:
            inner = [ast.Assign(targets=[n.target], value=elt, lineno=n.lineno)] + list(n.body)
        for tgt, itx, ifs in reversed(gens):
            body = inner
            if ifs:
                test = ifs[0] if len(ifs) == 1 else ast.BoolOp(op=ast.And(), values=ifs)
                body = [ast.If(test=test, body=inner, orelse=[])]
            inner = [ast.For(target=tgt, iter=itx, body=body, orelse=[])]
        if eager:
            inner = [ast.Assign(targets=[ast.Name(id=tmp, ctx=ast.Store())], value=ast.List(elts=[], ctx=ast.Load()), lineno=n.lineno)] + inner + \
                [ast.For(target=n.target, iter=ast.Name(id=tmp, ctx=ast.Load()), body=list(n.body), orelse=[])]
        out = self._fix(inner, n)
        res: List[ast.stmt] = []
        for x in out:
            r_ = self.visit(x)      # the new loops may themselves run over static tables / comprehensions
            res.extend(r_ if isinstance(r_, list) else [r_])
        return res

    _PURE_CALLS = {"len", "str", "int", "float", "bool", "repr", "sorted", "list", "dict", "set", "tuple", "frozenset", "zip", "enumerate", "range", "isinstance",
                   "getattr", "hasattr", "min", "max", "sum", "any", "all", "abs", "round", "format", "reversed", "map", "filter", "type", "id", "hash",
                   "get", "items", "keys", "values", "copy", "lower", "upper", "strip", "lstrip", "rstrip", "split", "join", "startswith", "endswith",
                   "replace", "index", "count", "is_sub_type", "is_integer", "union", "intersection", "difference", "isdisjoint", "issubset", "chain",
                   "from_iterable", "starmap", "attrgetter", "itemgetter", "methodcaller", "partial", "deepcopy", "Counter", "defaultdict", "OrderedDict"}

    def _effect_free(self, e: ast.AST, depth: int = 0, seen: Optional[set] = None) -> bool:
        """conservative: every call in the expression is to a function from a list of value-only builtins / methods, to a class of the
        repository (a constructor), or to a repository function whose body is effect-free in the same sense (depth 3)"""
        fv = self.fv
        seen = seen if seen is not None else set()
        for c in ast.walk(e):
            if isinstance(c, (ast.Yield, ast.YieldFrom, ast.Await, ast.NamedExpr)) and depth == 0:
                return False
            if not isinstance(c, ast.Call):
                continue
            nm = c.func.attr if isinstance(c.func, ast.Attribute) else (c.func.id if isinstance(c.func, ast.Name) else "")
            if nm in self._PURE_CALLS:
                continue
            if fv.repo is None or fv.f is None or depth >= 3:
                return False
            if nm in fv.repo.classes:
                continue
            try:
                _cat, tg = fv.repo.resolve_call(fv.f, c)
            except Exception:
                return False
            targets = [t for _k, t, _c in tg if t is not None]
            if not targets:
                return False
            for t in targets:
                if t.qn in seen:
                    continue
                seen.add(t.qn)
                for st in t.node.body:
                    if isinstance(st, ast.Expr) and isinstance(st.value, ast.Constant):
                        continue
                    for x in ast.walk(st):
                        if isinstance(x, (ast.Assign, ast.AugAssign, ast.AnnAssign)):
                            tgs = x.targets if isinstance(x, ast.Assign) else [x.target]
                            if any(not isinstance(y, (ast.Name, ast.Tuple, ast.List)) for y in tgs):
                                return False        # a store into an attribute / subscript
                        if isinstance(x, (ast.Delete, ast.Global, ast.Nonlocal)):
                            return False
                    if not self._effect_free(st, depth + 1, seen):
                        return False
        return True

    def _any_all_over_table(self, c: ast.Call) -> Optional[ast.AST]:
        """`any(E for v in TABLE [if C])` -> `(C1 and E1) or (C2 and E2) ..`, `all(..)` -> `((not C1) or E1) and ..` over a static table
        (same evaluation order and short-circuit)"""
        if not (isinstance(c.func, ast.Name) and c.func.id in ("any", "all") and len(c.args) == 1 and not c.keywords
                and isinstance(c.args[0], (ast.GeneratorExp, ast.ListComp)) and len(c.args[0].generators) == 1):
            return None
        if self.local_names is not None and c.func.id in self.local_names:
            return None
        comp = c.args[0]
        gen = comp.generators[0]
        if gen.is_async or any(isinstance(x, (ast.NamedExpr, ast.Yield, ast.YieldFrom, ast.Await)) for x in ast.walk(comp)):
            return None
        binds = self._table_for(gen.target, gen.iter, [comp.elt] + list(gen.ifs), in_place=True)
        if binds is None:
            return None
        is_any = c.func.id == "any"
        terms: List[ast.expr] = []
        for mapping in binds:
            conds = [self._subst_many(x, mapping) for x in gen.ifs]
            elt = self._subst_many(comp.elt, mapping)
            if is_any:
                terms.append(ast.BoolOp(op=ast.And(), values=conds + [elt]) if conds else elt)
            else:
                neg = [ast.UnaryOp(op=ast.Not(), operand=x) for x in conds]
                terms.append(ast.BoolOp(op=ast.Or(), values=neg + [elt]) if neg else elt)
        new = terms[0] if len(terms) == 1 else ast.BoolOp(op=ast.Or() if is_any else ast.And(), values=terms)
        # any / all return a bool
        new = ast.Call(func=ast.Name(id="bool", ctx=ast.Load()), args=[new], keywords=[])
        ast.copy_location(new, c)
        return ast.fix_missing_locations(new)

    def visit_ListComp(self, n):
        return self._unroll_comp(n)

    def visit_SetComp(self, n):
        return self._unroll_comp(n)

    def visit_GeneratorExp(self, n):
        return self._unroll_comp(n)

    def _unroll_comp(self, n):
        """`[E for v in TABLE]` / `{E for v in TABLE}` over a static table (no filter) is the display of its elements"""
        self.generic_visit(n)
        if isinstance(n, (ast.ListComp, ast.SetComp)):
            d = self._comp_as_display(n)
            if d is not None:
                return d
        return n

    def _record_as_tuple(self, call: ast.Call) -> Optional[ast.Tuple]:
        repo = self.fv.repo
        if repo is None or not (isinstance(call.func, ast.Name) and call.func.id in repo.classes and self.fv._global(call.func.id)):
            return None
        ci = repo.classes[call.func.id]
        if getattr(ci, "record_kind", None) != "namedtuple":
            return None
        if any(isinstance(a, ast.Starred) for a in call.args) or any(k.arg is None for k in call.keywords):
            return None
        vals: Dict[str, ast.AST] = {}
        for (f_, _d), a in zip(ci.record_fields, call.args):
            vals[f_] = a
        for k in call.keywords:
            vals[k.arg] = k.value
        elts = []
        for f_, d in ci.record_fields:
            if f_ in vals:
                elts.append(vals[f_])
            elif d is not None:
                elts.append(copy.deepcopy(d))
            else:
                return None
        new = ast.Tuple(elts=elts, ctx=ast.Load())
        ast.copy_location(new, call)
        return ast.fix_missing_locations(new)

    def _comp_as_display(self, n):
        if len(n.generators) != 1 or n.generators[0].ifs or n.generators[0].is_async:
            return None
        if any(isinstance(x, (ast.NamedExpr, ast.Yield, ast.YieldFrom, ast.Await)) for x in ast.walk(n)):
            return None
        gen = n.generators[0]
        binds = self._table_for(gen.target, gen.iter, [n.elt], in_place=True)
        if binds is None:
            return None
        elts = [self._subst_many(n.elt, m) for m in binds]
        new = ast.Set(elts=elts) if isinstance(n, ast.SetComp) else (ast.List(elts=elts, ctx=ast.Load()) if isinstance(n, ast.ListComp) else ast.Tuple(elts=elts, ctx=ast.Load()))
        ast.copy_location(new, n)
        return ast.fix_missing_locations(new)


class _BoolOpToIf(ast.NodeTransformer):
    """`x = A and B` / `return A or B` / `if A and B:` with a private helper call in an operand after the first -> the exact statement
    form `t = A; if t: t = B` (`if not t:` for or), so that the helper can be analysed in place where it is evaluated"""

    def visit_FunctionDef(self, n):
        return n

    visit_AsyncFunctionDef = visit_Lambda = visit_FunctionDef

    @staticmethod
    def _wants(v: ast.AST) -> bool:
        return isinstance(v, ast.BoolOp) and any(_has_private_call(x) for x in v.values[1:])

    def _chain(self, v: ast.BoolOp, at: ast.AST) -> Tuple[List[ast.stmt], ast.expr]:
        tmp = f"__b__c{next(_counter)}"
        load = lambda: ast.Name(id=tmp, ctx=ast.Load())
        store = lambda val: ast.Assign(targets=[ast.Name(id=tmp, ctx=ast.Store())], value=val, lineno=at.lineno)
        out: List[ast.stmt] = []
        first_pre, first = self._operand(v.values[0], at)
        out += first_pre + [store(first)]
        inner: List[ast.stmt] = out
        for operand in v.values[1:]:
            pre, val = self._operand(operand, at)
            test = load() if isinstance(v.op, ast.And) else ast.UnaryOp(op=ast.Not(), operand=load())
            body = pre + [store(val)]
            inner.append(ast.If(test=test, body=body, orelse=[]))
            inner = body
        for st in out:
            ast.copy_location(st, at)
            ast.fix_missing_locations(st)
        return out, ast.copy_location(load(), v)

    def _operand(self, e: ast.expr, at: ast.AST) -> Tuple[List[ast.stmt], ast.expr]:
        if self._wants(e):
            return self._chain(e, at)
        return [], e

    def visit_Assign(self, st):
        if self._wants(st.value):
            pre, val = self._chain(st.value, st)
            st.value = val
            return pre + [st]
        return st

    def visit_AnnAssign(self, st):
        if st.value is not None and self._wants(st.value):
            pre, val = self._chain(st.value, st)
            st.value = val
            return pre + [st]
        return st

    def visit_Return(self, st):
        if st.value is not None and self._wants(st.value):
            pre, val = self._chain(st.value, st)
            st.value = val
            return pre + [st]
        return st

    def visit_If(self, st):
        self.generic_visit(st)
        if self._wants(st.test):
            pre, val = self._chain(st.test, st)
            st.test = val
            return pre + [st]
        return st


# the public connective table of the evaluator: C02.tables judges it AS A TABLE (abstract evaluation of every row) and the C02 fold rules
# read its call sites as `BinaryOperator[key](accumulator, value)`: a lookup in it stays a lookup, whatever its values are (lambdas,
# operator functions, named functions); writing the rows out as an if-chain would hide the fold from those rules.  (The numeric tables are
# NOT listed: C12.branch decides `TABLE.get(op) is None` from the written-out rows.)
ORACLE_TABLES = {"BinaryOperator"}


class _TableDispatch(ast.NodeTransformer):
    """`TABLE[key](args)` where TABLE is a dict literal {constant: callable, ...} bound once (locally or at module level) becomes
    `if key == c1: f1(args) elif key == c2: f2(args) ... else: TABLE[key](args)`: the callees become visible to inlining and to the
    guard analyses; the else branch keeps the original call (unknown keys behave as before)"""

    def __init__(self, repo: Optional[Repo], f: Optional[FuncInfo], fn: ast.AST):
        self.repo, self.f = repo, f
        self.local: Dict[str, List[ast.AST]] = {}
        for n in ast.walk(fn):
            if isinstance(n, (ast.Assign, ast.AnnAssign)) and n.value is not None:
                for t in (n.targets if isinstance(n, ast.Assign) else [n.target]):
                    for nm in ([t.id] if isinstance(t, ast.Name) else [x.id for x in ast.walk(t) if isinstance(x, ast.Name)]):
                        self.local.setdefault(nm, []).append(n.value if isinstance(t, ast.Name) else None)
            elif isinstance(n, (ast.For, ast.comprehension)):
                for x in ast.walk(n.target):
                    if isinstance(x, ast.Name):
                        self.local.setdefault(x.id, []).append(None)
            elif isinstance(n, ast.AugAssign) and isinstance(n.target, ast.Name):
                self.local.setdefault(n.target.id, []).append(None)

    def visit_FunctionDef(self, n):
        return n

    visit_AsyncFunctionDef = visit_Lambda = visit_FunctionDef

    def _table(self, e: ast.AST) -> Optional[ast.Dict]:
        if isinstance(e, ast.Attribute) and isinstance(e.value, ast.Name) and self.repo is not None and self.f is not None:
            # a class-level table: self.T / cls.T / Cls.T (bare method names in it are `Cls.method` outside the class body)
            cls = None
            if self.f.cls and e.value.id in (self.f.self_name, "cls"):
                cls = self.f.cls
            elif e.value.id in self.repo.classes and e.value.id not in self.local:
                cls = e.value.id
            if cls is None:
                return None
            helper = _Desugar(None, self.repo, self.f)
            node = helper._class_attr(cls, e.attr)
            node = self._fold_keys(node)
            if not isinstance(node, ast.Dict) or not node.keys or any(k is None or not isinstance(k, ast.Constant) for k in node.keys):
                return None
            vals = [helper._class_scoped(v, cls) for v in node.values]
            node = ast.Dict(keys=list(node.keys), values=vals)
            if not all(self._value_ok(v) for v in node.values):
                return None
            return node
        if not isinstance(e, ast.Name):
            return None
        if e.id in ORACLE_TABLES and e.id not in self.local:
            return None
        d = None
        if e.id in self.local:
            vals = self.local[e.id]
            if len(vals) == 1 and isinstance(vals[0], ast.Dict):
                d = vals[0]
        elif self.repo is not None and self.f is not None:
            try:
                node = self.repo.const_node(self.f.mod.name, e.id)
            except Exception:
                node = None
            if isinstance(node, ast.Dict):
                d = node
        d = self._fold_keys(d)
        if d is None or not d.keys or any(k is None or not isinstance(k, ast.Constant) for k in d.keys):
            return None
        if not all(self._value_ok(v) for v in d.values):
            return None
        return d

    def _fold_keys(self, d):
        """keys written as names of module-level literal constants are those literals"""
        if not isinstance(d, ast.Dict) or self.repo is None or self.f is None:
            return d
        keys = []
        for k in d.keys:
            if isinstance(k, ast.Name) and k.id not in self.local:
                try:
                    ok, v = self.repo.const_value(self.f.mod.name, k.id)
                except Exception:
                    ok, v = False, None
                if ok and isinstance(v, (str, int, float, bool)) or (ok and v is None):
                    keys.append(ast.copy_location(ast.Constant(value=v), k))
                    continue
            keys.append(k)
        return ast.Dict(keys=keys, values=list(d.values))

    def _value_ok(self, v: ast.AST) -> bool:
        if isinstance(v, (ast.Attribute, ast.Name, ast.Constant)):
            return True
        if isinstance(v, (ast.Tuple, ast.List)):
            return all(self._value_ok(x) for x in v.elts)
        return False

    def _dispatch_call(self, call: ast.AST):
        """(table dict, key expression, call) when `call` is TABLE[key](...)"""
        if isinstance(call, ast.Call) and isinstance(call.func, ast.Subscript) and not isinstance(call.func.slice, ast.Slice):
            d = self._table(call.func.value)
            if d is not None and not all(isinstance(v, (ast.Attribute, ast.Name)) for v in d.values):
                d = None
            if d is not None and isinstance(call.func.slice, (ast.Name, ast.Attribute, ast.Subscript, ast.Constant)):
                return d, call.func.slice, call
        return None

    def _rewrite(self, st: ast.stmt, value: ast.AST, make):
        got = self._dispatch_call(value)
        if got is None:
            return st
        d, key, call = got
        chain: Optional[ast.If] = None
        tail = [make(copy.deepcopy(call))]
        for k, v in reversed(list(zip(d.keys, d.values))):
            direct = ast.Call(func=copy.deepcopy(v), args=copy.deepcopy(call.args), keywords=copy.deepcopy(call.keywords))
            test = ast.Compare(left=copy.deepcopy(key), ops=[ast.Eq()], comparators=[copy.deepcopy(k)])
            node = ast.If(test=test, body=[make(direct)], orelse=tail if chain is None else [chain])
            chain = node
        for x in ast.walk(chain):
            if isinstance(x, (ast.expr, ast.stmt)) and not hasattr(x, "lineno"):
                ast.copy_location(x, st)
        ast.copy_location(chain, st)
        return ast.fix_missing_locations(chain)

    def visit_Expr(self, st):
        return self._rewrite(st, st.value, lambda c: ast.copy_location(ast.Expr(value=c), st))

    def _lookup(self, v: ast.AST):
        """(table, key, default or None, has_default) when v is TABLE[key] / TABLE.get(key) / TABLE.get(key, default)"""
        if isinstance(v, ast.Subscript) and not isinstance(v.slice, ast.Slice) and isinstance(v.ctx, ast.Load):
            d = self._table(v.value)
            if d is not None and isinstance(v.slice, (ast.Name, ast.Attribute, ast.Subscript, ast.Constant)):
                return d, v.slice, None, False
        if isinstance(v, ast.Call) and isinstance(v.func, ast.Attribute) and v.func.attr == "get" and len(v.args) in (1, 2) and not v.keywords:
            d = self._table(v.func.value)
            if d is not None and isinstance(v.args[0], (ast.Name, ast.Attribute, ast.Subscript, ast.Constant)):
                dflt = v.args[1] if len(v.args) == 2 else ast.Constant(value=None)
                if isinstance(dflt, (ast.Constant, ast.Name, ast.Attribute)):
                    return d, v.args[0], dflt, True
        return None

    def visit_Assign(self, st):
        if len(st.targets) == 1 and isinstance(st.targets[0], ast.Name):
            got = self._lookup(st.value)
            if got is not None:
                # h = TABLE[key]  ->  if key == c1: h = f1 elif ..: else: h = TABLE[key]   (the call through h is split by definition later)
                d, key, dflt, has_default = got
                mk = lambda val: ast.copy_location(ast.Assign(targets=copy.deepcopy(st.targets), value=val, lineno=st.lineno), st)
                tail: List[ast.stmt] = [st]      # unknown keys: the lookup as written (rules that look for the table still find it)
                chain = None
                for k, v in reversed(list(zip(d.keys, d.values))):
                    test = ast.Compare(left=copy.deepcopy(key), ops=[ast.Eq()], comparators=[copy.deepcopy(k)])
                    chain = ast.If(test=test, body=[mk(copy.deepcopy(v))], orelse=tail if chain is None else [chain])
                for x in ast.walk(chain):
                    if isinstance(x, (ast.expr, ast.stmt)) and not hasattr(x, "lineno"):
                        ast.copy_location(x, st)
                ast.copy_location(chain, st)
                return ast.fix_missing_locations(chain)
        return self._rewrite(st, st.value, lambda c: ast.copy_location(ast.Assign(targets=copy.deepcopy(st.targets), value=c, lineno=st.lineno), st))

    def visit_Return(self, st):
        if st.value is None:
            return st
        return self._rewrite(st, st.value, lambda c: ast.copy_location(ast.Return(value=c), st))


def _dispatch_tail_duplication(stmts: List[ast.stmt], td: "_TableDispatch", budget: List[int]) -> List[ast.stmt]:
    """`a, b = TABLE[key]` (or `h = TABLE[key]` / `.get(key)`) followed by the statements that use what was looked up: the rest of the block
    is repeated under `if key == c1: .. elif key == c2: .. else: <as written>` with the looked-up values written in place of the names
    (they are constants / functions of the table).  Exact; bounded by a size budget."""
    for st in stmts:
        for fld in ("body", "orelse", "finalbody"):
            sub = getattr(st, fld, None)
            if isinstance(sub, list) and sub and isinstance(sub[0], ast.stmt) and not isinstance(st, (ast.FunctionDef, ast.AsyncFunctionDef, ast.ClassDef)):
                setattr(st, fld, _dispatch_tail_duplication(sub, td, budget))
        for h in getattr(st, "handlers", []) or []:
            h.body = _dispatch_tail_duplication(h.body, td, budget)
    for i, st in enumerate(stmts):
        if not (isinstance(st, ast.Assign) and len(st.targets) == 1):
            continue
        tgt = st.targets[0]
        got = td._lookup(st.value)
        if got is None:
            continue
        d, key, dflt, has_default = got
        if isinstance(tgt, ast.Name):
            names = [tgt.id]
            if all(isinstance(v, (ast.Name, ast.Attribute)) for v in d.values):
                continue        # a plain function per key: handled by definition tags (keeps the code small)
        elif isinstance(tgt, (ast.Tuple, ast.List)) and all(isinstance(x, ast.Name) for x in tgt.elts) and \
                all(isinstance(v, (ast.Tuple, ast.List)) and len(v.elts) == len(tgt.elts) for v in d.values):
            names = [x.id for x in tgt.elts]
        else:
            continue
        rest = stmts[i + 1:]
        size = sum(1 for r_ in rest for _x in ast.walk(r_))
        if not rest or size * len(d.keys) > budget[0] or not _is_pure_path(key) and not isinstance(key, (ast.Subscript, ast.Constant)):
            continue
        if any(isinstance(x, ast.Name) and x.id in names and not isinstance(x.ctx, ast.Load) for r_ in rest for x in ast.walk(r_)):
            continue        # rebound later: no substitution
        if any(isinstance(x, (ast.FunctionDef, ast.AsyncFunctionDef, ast.ClassDef, ast.Global, ast.Nonlocal)) for r_ in rest for x in ast.walk(r_)):
            continue
        budget[0] -= size * len(d.keys)
        chain: List[ast.stmt] = [st] + rest       # unknown key: as written
        for k, v in reversed(list(zip(d.keys, d.values))):
            vals = [v] if isinstance(tgt, ast.Name) else list(v.elts)
            mapping = dict(zip(names, vals))
            assign = ast.Assign(targets=[copy.deepcopy(tgt)], value=copy.deepcopy(v), lineno=st.lineno)
            body = [ast.copy_location(assign, st)] + [_Desugar._subst_many(r_, mapping) for r_ in rest]
            test = ast.Compare(left=copy.deepcopy(key), ops=[ast.Eq()], comparators=[copy.deepcopy(k)])
            node = ast.If(test=test, body=body, orelse=chain)
            ast.copy_location(node, st)
            ast.fix_missing_locations(node)
            chain = [node]
        return stmts[:i] + chain
    return stmts


def normalise_body(body: List[ast.stmt], repo: Optional[Repo] = None, f: Optional[FuncInfo] = None) -> List[ast.stmt]:
    out = []
    t, u = _LoopsToAny(), _IfExpToIf()
    try:
        scope = ast.Module(body=body, type_ignores=[])
        bound = {x.id for x in ast.walk(scope) if isinstance(x, ast.Name) and not isinstance(x.ctx, ast.Load)}
        bound |= {a.arg for x in ast.walk(scope) if isinstance(x, ast.arguments) for a in x.posonlyargs + x.args + x.kwonlyargs}
        bound |= set(f.params) if f is not None else set()
        ds = _Desugar(bound if f is not None and not any(isinstance(x, (ast.Global, ast.Nonlocal)) for x in ast.walk(scope)) else None, repo, f)
        counts: Dict[str, int] = {}
        for x in ast.walk(scope):
            if isinstance(x, ast.Name) and not isinstance(x.ctx, ast.Load):
                counts[x.id] = counts.get(x.id, 0) + 1
        ds.stored_names = set(counts)
        ds.single_defs = {}
        for x in ast.walk(scope):
            tgt = val = None
            if isinstance(x, ast.Assign) and len(x.targets) == 1 and isinstance(x.targets[0], ast.Name):
                tgt, val = x.targets[0].id, x.value
            elif isinstance(x, ast.AnnAssign) and isinstance(x.target, ast.Name) and x.value is not None:
                tgt, val = x.target.id, x.value
            if tgt and counts.get(tgt) == 1 and (f is None or tgt not in f.params) and isinstance(val, (ast.Tuple, ast.List, ast.Name, ast.Dict)):
                ds.single_defs[tgt] = val
        body = _inline_single_use_iterators(copy.deepcopy(body))
        body = [y for st in body for y in (lambda r_: r_ if isinstance(r_, list) else [r_])(ds.visit(st))]
    except Exception:
        pass
    try:
        td = _TableDispatch(repo, f, ast.Module(body=body, type_ignores=[]))
        body = _dispatch_tail_duplication(list(body), td, [6000])
        # the copies may hold getattr(x, "name") / Cls.m(self, ..) / function values in call position now
        ds2 = _Desugar(ds.local_names if "ds" in dir() else None, repo, f)
        ds2.stored_names, ds2.single_defs = getattr(ds, "stored_names", set()), {}
        body = [y for st in body for y in (lambda r_: r_ if isinstance(r_, list) else [r_])(ds2.visit(st))]
        td = _TableDispatch(repo, f, ast.Module(body=body, type_ignores=[]))
        body = [y for st in body for y in (lambda r_: r_ if isinstance(r_, list) else [r_])(td.visit(st))]
    except Exception:
        pass
    b = _BoolOpToIf()
    for st in body:
        r = t.visit(st)
        for x in (r if isinstance(r, list) else [r]):
            y = u.visit(x)
            for z in (y if isinstance(y, list) else [y]):
                w = b.visit(z)
                out.extend(w if isinstance(w, list) else [w])
    return out


class _ReturnRewriter(ast.NodeTransformer):
    """`return v` -> `<ret> = v; InlineJump(label)` (nested function definitions are left alone)"""

    def __init__(self, ret: str, label: str):
        self.ret, self.label, self.count, self.valued = ret, label, 0, False

    def visit_FunctionDef(self, n):
        return n

    visit_AsyncFunctionDef = visit_Lambda = visit_FunctionDef

    def visit_Return(self, s):
        self.count += 1
        out = []
        if s.value is not None:
            self.valued = True
            out.append(ast.copy_location(ast.Assign(targets=[ast.Name(id=self.ret, ctx=ast.Store())], value=s.value, lineno=s.lineno), s))
        j = ast.copy_location(InlineJump(), s)
        j.label = self.label
        out.append(j)
        return out


class _Renamer(ast.NodeTransformer):
    def __init__(self, mapping: Dict[str, str]):
        self.m = mapping

    def visit_Name(self, n):
        if n.id in self.m:
            return ast.copy_location(ast.Name(id=self.m[n.id], ctx=n.ctx), n)
        return n

    def visit_Lambda(self, n):
        # the lambda's own parameters shadow the helper's locals of the same name inside its body
        a = n.args
        own = {x.arg for x in a.posonlyargs + a.args + a.kwonlyargs + ([a.vararg] if a.vararg else []) + ([a.kwarg] if a.kwarg else [])}
        hidden = {k: self.m.pop(k) for k in list(self.m) if k in own}
        try:
            n.args.defaults = [self.visit(d) for d in n.args.defaults]
            n.body = self.visit(n.body)
        finally:
            self.m.update(hidden)
        return n

    def visit_arg(self, n):
        return n


def _local_names(fn: ast.FunctionDef) -> Set[str]:
    out: Set[str] = set()
    for n in ast.walk(fn):
        if isinstance(n, ast.Name) and isinstance(n.ctx, ast.Store):
            out.add(n.id)
        elif isinstance(n, ast.ExceptHandler) and n.name:
            out.add(n.name)
    for a in fn.args.posonlyargs + fn.args.args + fn.args.kwonlyargs:
        out.add(a.arg)
    return out


def _is_private(name: str) -> bool:
    return name.startswith("_") and not (name.startswith("__") and name.endswith("__"))


class Flattener:
    def __init__(self, repo: Repo, f: FuncInfo, depth: int = MAX_DEPTH, also: Optional[Set[str]] = None):
        self.repo = repo
        self.f = f
        self.depth = depth
        self.also = also or set()          # additional (public) callee names that may be inlined
        self.inlined: List[str] = []
        self.bodies: List[tuple] = []      # (callee qn, {parameter: bound local name}, statements put in place of the call)

    # ------------------------------------------------------------------ resolution
    def _target(self, caller: FuncInfo, call: ast.Call, stack: Tuple[str, ...]) -> Optional[Tuple[FuncInfo, Optional[ast.AST]]]:
        """(callee, receiver expression or None) when the call may be inlined"""
        fn = call.func
        name = fn.attr if isinstance(fn, ast.Attribute) else (fn.id if isinstance(fn, ast.Name) else None)
        if name is None:
            return None
        by_name = _is_private(name) or name in self.also
        if not by_name and not (isinstance(fn, ast.Attribute) and not (name.startswith("__") and name.endswith("__"))):
            return None
        if any(isinstance(a, ast.Starred) for a in call.args) or any(k.arg is None for k in call.keywords):
            return None
        if getattr(call, "_no_inline", False):
            return None
        if not by_name:
            # methods of PRIVATE classes (records and other helpers of the module) are private helpers too
            recv_t = fn.value
            if not (isinstance(recv_t, ast.Name) and (recv_t.id.startswith("_") or recv_t.id in self._private_typed(caller))):
                return None
        cat, tg = self.repo.resolve_call(caller, call)
        tg = [t for t in tg if t[1] is not None]
        if cat != "repo" or len({t[1].qn for t in tg}) != 1:
            return None
        callee = tg[0][1]
        if not by_name and not (callee.cls and callee.cls.startswith("_")):
            return None
        if callee.qn in stack or callee.qn == self.f.qn:
            call._no_inline = True      # recursion: stays a call, also when the flattened body is flattened again
            return None
        if any(isinstance(n, (ast.Yield, ast.YieldFrom)) for n in ast.walk(callee.node)):
            return None
        if any(not (isinstance(d, ast.Name) and d.id in ("staticmethod", "classmethod")) for d in callee.node.decorator_list):
            return None
        is_classmethod = any(isinstance(d, ast.Name) and d.id == "classmethod" for d in callee.node.decorator_list)
        recv = None
        if callee.is_method:
            if isinstance(fn, ast.Attribute):
                if is_classmethod:
                    if not (isinstance(fn.value, ast.Name) and fn.value.id in self.repo.classes):
                        return None     # cls.m(..) / obj.m(..) on a classmethod: the class is not written here
                elif isinstance(fn.value, ast.Name) and fn.value.id in self.repo.classes and fn.value.id == callee.cls:
                    return None  # Class._m(obj, ...) form: not handled
                recv = fn.value
            else:
                return None
        return callee, recv

    def _private_typed(self, caller: FuncInfo) -> Set[str]:
        """names in `caller` that are annotated with a private class (parameters `group: _TypedNames`)"""
        key = caller.qn
        cache = self.__dict__.setdefault("_ptyped", {})
        if key not in cache:
            out = set()
            for a in caller.node.args.posonlyargs + caller.node.args.args + caller.node.args.kwonlyargs:
                if a.annotation is not None:
                    t = ast.unparse(a.annotation).strip("'\"")
                    if t.startswith("_") and t in self.repo.classes:
                        out.add(a.arg)
            for n in ast.walk(caller.node):
                if isinstance(n, ast.AnnAssign) and isinstance(n.target, ast.Name):
                    t = ast.unparse(n.annotation).strip("'\"")
                    if t.startswith("_") and t in self.repo.classes:
                        out.add(n.target.id)
            cache[key] = out
        return cache[key]

    # ------------------------------------------------------------------ one inlining
    def _instantiate(self, callee: FuncInfo, call: ast.Call, recv: Optional[ast.AST], stack, depth) -> Tuple[List[ast.stmt], ast.AST]:
        n = next(_counter)
        fn = copy.deepcopy(callee.node)
        body = normalise_body(list(fn.body), self.repo, callee)
        if body and isinstance(body[0], ast.Expr) and isinstance(body[0].value, ast.Constant) and isinstance(body[0].value.value, str):
            body = body[1:]
        params = list(callee.params)
        binds: List[Tuple[str, ast.AST, str]] = []
        mapping = {x: f"{x}__i{n}" for x in _local_names(fn)}
        if callee.is_method:
            self_name = params[0]
            params = params[1:]
            if isinstance(recv, ast.Name) and recv.id == (self.f.self_name or "self"):
                mapping[self_name] = recv.id
            elif isinstance(recv, ast.Call) and isinstance(recv.func, ast.Name) and recv.func.id == "super":
                mapping[self_name] = self.f.self_name or "self"
            else:
                binds.append((mapping.setdefault(self_name, f"{self_name}__i{n}"), copy.deepcopy(recv), self_name))
        bound: Dict[str, ast.AST] = {}
        for p, a in zip(params, call.args):
            bound[p] = a
        for k in call.keywords:
            bound[k.arg] = k.value
        for p in params:
            if p in bound:
                binds.append((mapping[p], copy.deepcopy(bound[p]), p))
            elif p in callee.defaults:
                binds.append((mapping[p], copy.deepcopy(callee.defaults[p]), p))
            else:
                raise NotInlinable(f"argument for {p} missing")
        ret = f"__ret__i{n}"
        label = f"i{n}:{callee.qn}"
        trailing = None
        if body and isinstance(body[-1], ast.Return):
            trailing = body.pop()
        rw = _ReturnRewriter(ret, label)
        body = [x for st in body for x in (lambda r: r if isinstance(r, list) else [r])(rw.visit(st))]
        has_value = rw.valued or (trailing is not None and trailing.value is not None)
        if trailing is not None and trailing.value is not None:
            body.append(ast.copy_location(ast.Assign(targets=[ast.Name(id=ret, ctx=ast.Store())], value=trailing.value, lineno=trailing.lineno), trailing))
        ren = _Renamer(mapping)
        body = [ren.visit(st) for st in body]
        pre: List[ast.stmt] = []
        anns = {a.arg: a.annotation for a in fn.args.posonlyargs + fn.args.args + fn.args.kwonlyargs}
        for name, val, orig in binds:
            tgt = ast.Name(id=name, ctx=ast.Store())
            if anns.get(orig) is not None:
                st = ast.AnnAssign(target=tgt, annotation=anns[orig], value=val, simple=1)
            else:
                st = ast.Assign(targets=[tgt], value=val, lineno=call.lineno)
            pre.append(ast.copy_location(st, call))
        if has_value and trailing is None:
            pre.append(ast.copy_location(ast.Assign(targets=[ast.Name(id=ret, ctx=ast.Store())], value=ast.Constant(value=None), lineno=call.lineno), call))
        if rw.count:
            blk = ast.copy_location(InlineBlock(test=ast.Constant(value=True), body=body or [ast.Pass()], orelse=[]), call)
            blk.label = label
            stmts = pre + [blk]
        else:
            stmts = pre + body
        # recursive flattening of what was pulled in (the callee is the resolution context)
        sub = Flattener(self.repo, self.f, self.depth, self.also)
        sub.inlined = self.inlined
        sub.bodies = self.bodies
        stmts = sub._flatten_block(stmts, callee, stack + (callee.qn,), depth + 1, rename=mapping)
        self.inlined.append(callee.qn)
        put = [x for x in stmts if x not in pre]
        for x in put:
            x._inl = n          # survives the copies made by later normalisation rounds: the bodies are collected from the final tree
            x._inl_stack = stack + (callee.qn,)     # ... and so does the chain of helpers this code came from (recursion stays a call)
        self.bodies.append((callee.qn, {orig: name for name, _v, orig in binds}, put, n))
        result = ast.copy_location(ast.Name(id=ret, ctx=ast.Load()), call) if has_value else ast.copy_location(ast.Constant(value=None), call)
        return stmts, result

    # ------------------------------------------------------------------ statements
    def _flatten_block(self, stmts: List[ast.stmt], ctx: FuncInfo, stack, depth, rename=None) -> List[ast.stmt]:
        out: List[ast.stmt] = []
        for s in stmts:
            out.extend(self._flatten_stmt(s, ctx, stack, depth, rename))
        return out

    def _resolve_ctx_call(self, ctx: FuncInfo, call: ast.Call, rename) -> ast.Call:
        """a call copied from a helper refers to renamed locals; for resolution use the original receiver names"""
        if not rename:
            return call
        inv = {v: k for k, v in rename.items()}
        return _Renamer(inv).visit(copy.deepcopy(call))

    # ------------------------------------------------------------------ comprehensions holding an inlinable call
    def _has_inlinable_call(self, e: ast.AST, ctx: FuncInfo, stack, rename) -> bool:
        if isinstance(e, (ast.ListComp, ast.SetComp, ast.DictComp, ast.GeneratorExp)) and _is_gen_call(self.repo, ctx, e.generators[0].iter):
            return True
        for n in ast.walk(e):
            if isinstance(n, ast.Call):
                probe = self._resolve_ctx_call(ctx, n, rename)
                try:
                    if self._target(ctx, probe, stack) is not None:
                        return True
                except Exception:
                    continue
        return False

    def _expand_comprehension(self, comp: ast.AST, into: str, s: ast.stmt, adder: Optional[str] = None) -> Optional[List[ast.stmt]]:
        """statements that fill the container named `into` like the comprehension does (comprehension variables get fresh names)"""
        n = next(_counter)
        names = set()
        for gen in comp.generators:
            names |= {x.id for x in ast.walk(gen.target) if isinstance(x, ast.Name)}
        ren = _Renamer({x: f"{x}__c{n}" for x in names})
        comp = copy.deepcopy(comp)
        first_iter = comp.generators[0].iter
        for gen in comp.generators:
            gen.target = ren.visit(gen.target)
            gen.ifs = [ren.visit(c) for c in gen.ifs]
            if gen.iter is not first_iter:
                gen.iter = ren.visit(gen.iter)
        tgt = lambda: ast.Name(id=into, ctx=ast.Load())
        if isinstance(comp, ast.DictComp):
            leaf: ast.stmt = ast.Assign(targets=[ast.Subscript(value=tgt(), slice=ren.visit(comp.key), ctx=ast.Store())], value=ren.visit(comp.value), lineno=s.lineno)
        else:
            meth = adder or ("add" if isinstance(comp, ast.SetComp) else "append")
            leaf = ast.Expr(value=ast.Call(func=ast.Attribute(value=tgt(), attr=meth, ctx=ast.Load()), args=[ren.visit(comp.elt)], keywords=[]))
        body: List[ast.stmt] = [leaf]
        for gen in reversed(comp.generators):
            if gen.is_async:
                return None
            for c in reversed(gen.ifs):
                body = [ast.If(test=c, body=body, orelse=[])]
            body = [ast.For(target=gen.target, iter=gen.iter, body=body, orelse=[], lineno=s.lineno)]
        for b in body:
            ast.copy_location(b, comp)
            for sub in ast.walk(b):
                if not hasattr(sub, "lineno") and isinstance(sub, (ast.stmt, ast.expr)):
                    ast.copy_location(sub, comp)
        return body

    # ------------------------------------------------------------------ helpers that are one expression, inside comprehensions
    def _as_expression(self, callee: FuncInfo, call: ast.Call, recv: Optional[ast.AST]) -> Optional[ast.AST]:
        """the value of the call as ONE expression over the caller's names, when the helper is `t1 = E1; ..; return E` with every
        temporary used exactly once and every parameter either used at most once or bound to a plain name / attribute path / constant
        (then substituting is the same computation in the same order); None otherwise"""
        fn = callee.node
        body = list(fn.body)
        if body and isinstance(body[0], ast.Expr) and isinstance(body[0].value, ast.Constant) and isinstance(body[0].value.value, str):
            body = body[1:]
        if not body or not isinstance(body[-1], ast.Return) or body[-1].value is None:
            return None
        temps: List[Tuple[str, ast.AST]] = []
        for st in body[:-1]:
            if isinstance(st, ast.Expr) and isinstance(st.value, ast.Call) and is_logging_call(st.value):
                continue
            if isinstance(st, ast.Assign) and len(st.targets) == 1 and isinstance(st.targets[0], ast.Name):
                temps.append((st.targets[0].id, st.value))
            elif isinstance(st, ast.AnnAssign) and isinstance(st.target, ast.Name) and st.value is not None:
                temps.append((st.target.id, st.value))
            else:
                return None
        if len({t for t, _v in temps}) != len(temps):
            return None
        if any(isinstance(x, (ast.Lambda, ast.NamedExpr, ast.Yield, ast.YieldFrom, ast.Await)) for st in body for x in ast.walk(st)):
            return None
        params = list(callee.params)
        bound: Dict[str, ast.AST] = {}
        if callee.is_method:
            is_cm = any(isinstance(d, ast.Name) and d.id == "classmethod" for d in fn.decorator_list)
            if recv is None:
                return None
            bound[params[0]] = ast.Name(id=callee.cls, ctx=ast.Load()) if is_cm else recv
            params = params[1:]
        if len(call.args) > len(params):
            return None
        for p_, a in zip(params, call.args):
            bound[p_] = a
        for k in call.keywords:
            if k.arg not in params or k.arg in bound:
                return None
            bound[k.arg] = k.value
        for p_ in params:
            if p_ not in bound:
                if p_ in callee.defaults and isinstance(callee.defaults[p_], ast.Constant):
                    bound[p_] = callee.defaults[p_]
                else:
                    return None
        expr = copy.deepcopy(body[-1].value)
        later = [copy.deepcopy(v) for _t, v in temps]

        def uses(name: str, nodes) -> int:
            return sum(1 for nd in nodes for x in ast.walk(nd) if isinstance(x, ast.Name) and x.id == name and isinstance(x.ctx, ast.Load))

        # temporaries, last first: each is used exactly once in what follows it
        for i in range(len(temps) - 1, -1, -1):
            name = temps[i][0]
            rest = later[i + 1:] + [expr]
            if uses(name, rest) != 1:
                return None
            sub = _SubstName({name: later[i]})
            later[i + 1:] = [sub.visit(x) for x in later[i + 1:]]
            expr = sub.visit(expr)
        comp_vars = {x.id for nd in ast.walk(expr) if isinstance(nd, ast.comprehension) for x in ast.walk(nd.target) if isinstance(x, ast.Name)}
        if comp_vars & set(bound):
            return None
        for p_, a in bound.items():
            n_uses = uses(p_, [expr])
            if n_uses != 1 and not _is_pure_path(a) and not isinstance(a, ast.Constant):
                return None
            if any(isinstance(x, ast.Name) and x.id in comp_vars for x in ast.walk(a)):
                return None
        if any(isinstance(x, ast.Name) and isinstance(x.ctx, ast.Store) and x.id in bound for x in ast.walk(expr)):
            return None
        if comp_vars:
            k = next(_counter)
            expr = _Renamer({v: f"{v}__e{k}" for v in comp_vars}).visit(expr)
        expr = _SubstName({p_: a for p_, a in bound.items()}).visit(expr)
        for x in ast.walk(expr):
            if isinstance(x, (ast.expr, ast.stmt)):
                ast.copy_location(x, call)
        return ast.fix_missing_locations(expr)

    def _expression_helpers_in_comprehensions(self, s: ast.stmt, ctx: FuncInfo, stack, rename) -> ast.stmt:
        """helper calls INSIDE comprehensions / generator expressions (elements, filters) cannot be inlined as statements; those that are one
        expression are written in place"""
        this = self

        class T(ast.NodeTransformer):
            inside = 0
            changed = False

            def visit_FunctionDef(self, n):
                return n
            visit_AsyncFunctionDef = visit_Lambda = visit_ClassDef = visit_FunctionDef

            def _comp(self, n):
                self.inside += 1
                try:
                    return self.generic_visit(n)
                finally:
                    self.inside -= 1
            visit_ListComp = visit_SetComp = visit_DictComp = visit_GeneratorExp = _comp

            def visit_Call(self, c):
                self.generic_visit(c)
                if not self.inside:
                    return c
                try:
                    probe = this._resolve_ctx_call(ctx, c, rename)
                    tg = this._target(ctx, probe, stack)
                    if tg is None:
                        return c
                    callee, _recv = tg
                    recv = c.func.value if isinstance(c.func, ast.Attribute) else None
                    e = this._as_expression(callee, c, recv)
                except Exception:
                    return c
                if e is None:
                    return c
                self.changed = True
                this.inlined.append(callee.qn)
                return e

        for _ in range(4):
            t = T()
            s = t.visit(s)
            if not t.changed:
                break
        return s

    def _flatten_stmt(self, s: ast.stmt, ctx: FuncInfo, stack, depth, rename) -> List[ast.stmt]:
        came_from = getattr(s, "_inl_stack", None)
        if came_from:
            stack = tuple(dict.fromkeys(tuple(stack) + tuple(came_from)))
        if depth > self.depth:
            return [s]
        if any(isinstance(x, (ast.ListComp, ast.SetComp, ast.DictComp, ast.GeneratorExp)) for x in ast.walk(s)):
            s = self._expression_helpers_in_comprehensions(s, ctx, stack, rename)
        COMPS = (ast.ListComp, ast.SetComp, ast.DictComp)
        val = getattr(s, "value", None)
        if isinstance(s, (ast.Assign, ast.AnnAssign, ast.Return)) and isinstance(val, COMPS) and self._has_inlinable_call(val, ctx, stack, rename):
            single = isinstance(s, ast.Assign) and len(s.targets) == 1 and isinstance(s.targets[0], ast.Name)
            n = next(_counter)
            tmp = f"__comp__c{n}"
            init_val: ast.expr = ast.Dict(keys=[], values=[]) if isinstance(val, ast.DictComp) else \
                (ast.Call(func=ast.Name(id="set", ctx=ast.Load()), args=[], keywords=[]) if isinstance(val, ast.SetComp) else ast.List(elts=[], ctx=ast.Load()))
            body = self._expand_comprehension(val, tmp, s)
            if body is not None:
                init = ast.copy_location(ast.Assign(targets=[ast.Name(id=tmp, ctx=ast.Store())], value=init_val, lineno=s.lineno), s)
                s.value = ast.copy_location(ast.Name(id=tmp, ctx=ast.Load()), val)
                new = [init] + body + [s]
                for x in new:
                    ast.fix_missing_locations(x)
                return self._flatten_block(new, ctx, stack, depth, rename)
        # comprehensions that are ARGUMENTS of the call the statement evaluates (`return State({..}, {..}, flag)`) are evaluated first, in order:
        # each becomes a statement of its own when everything evaluated before it is a plain name / attribute path / constant
        if isinstance(s, (ast.Assign, ast.AnnAssign, ast.Return, ast.Expr)) and isinstance(val, ast.Call) and not getattr(s, "_hoisted", False) \
                and _is_pure_path(val.func) if isinstance(val, ast.Call) else False:
            slots = [("args", i) for i in range(len(val.args))] + [("kw", i) for i in range(len(val.keywords))]
            pre_stmts: List[ast.stmt] = []
            ok_so_far = True
            for kind, i in slots:
                a = val.args[i] if kind == "args" else val.keywords[i].value
                if isinstance(a, COMPS) and ok_so_far and self._has_inlinable_call(a, ctx, stack, rename):
                    tmp = f"__arg__c{next(_counter)}"
                    pre_stmts.append(ast.copy_location(ast.Assign(targets=[ast.Name(id=tmp, ctx=ast.Store())], value=a, lineno=s.lineno), s))
                    new_a = ast.copy_location(ast.Name(id=tmp, ctx=ast.Load()), a)
                    if kind == "args":
                        val.args[i] = new_a
                    else:
                        val.keywords[i].value = new_a
                    continue
                if not (isinstance(a, ast.Constant) or _is_pure_path(a)):
                    ok_so_far = False
            if pre_stmts:
                s._hoisted = True
                for x in pre_stmts:
                    ast.fix_missing_locations(x)
                return self._flatten_block(pre_stmts + [s], ctx, stack, depth, rename)
        if isinstance(s, ast.Expr) and isinstance(s.value, ast.Call) and isinstance(s.value.func, ast.Attribute) and s.value.func.attr in ("update", "extend") \
                and len(s.value.args) == 1 and isinstance(s.value.args[0], (ast.ListComp, ast.SetComp, ast.GeneratorExp)) and isinstance(s.value.func.value, ast.Name) \
                and self._has_inlinable_call(s.value.args[0], ctx, stack, rename):
            comp = s.value.args[0]
            body = self._expand_comprehension(comp, s.value.func.value.id, s, adder="add" if s.value.func.attr == "update" else "append")
            if body is not None:
                for x in body:
                    ast.fix_missing_locations(x)
                return self._flatten_block(body, ctx, stack, depth, rename)
        # recurse into compound statements first
        for fld in ("body", "orelse", "finalbody"):
            sub = getattr(s, fld, None)
            if isinstance(sub, list) and sub and isinstance(sub[0], ast.stmt):
                setattr(s, fld, self._flatten_block(sub, ctx, stack, depth, rename))
        if isinstance(s, ast.Try):
            for h in s.handlers:
                h.body = self._flatten_block(h.body, ctx, stack, depth, rename)
        # expressions evaluated at this statement
        hdr_fields = {ast.If: ["test"], ast.While: ["test"], ast.For: ["iter"], ast.Return: ["value"], ast.Expr: ["value"],
                      ast.Assign: ["value"], ast.AnnAssign: ["value"], ast.AugAssign: ["value"], ast.Assert: ["test"]}.get(type(s))
        if not hdr_fields:
            return [s]
        if isinstance(s, ast.While):
            return [s]  # a hoisted call would be evaluated once instead of per iteration
        pre: List[ast.stmt] = []
        for fld in hdr_fields:
            e = getattr(s, fld)
            if e is None:
                continue
            new_e = self._inline_in_expr(e, ctx, stack, depth, rename, pre)
            setattr(s, fld, new_e)
        if isinstance(s, ast.Assign):
            s.targets = [self._inline_in_expr(t, ctx, stack, depth, rename, pre) if isinstance(t, (ast.Subscript, ast.Attribute)) else t for t in s.targets]
        if isinstance(s, ast.Expr) and isinstance(s.value, (ast.Constant, ast.Name)) and pre:
            return pre
        return pre + [s]

    def _inline_in_expr(self, e: ast.AST, ctx: FuncInfo, stack, depth, rename, pre: List[ast.stmt]) -> ast.AST:
        # do not look inside lambdas / comprehensions (their evaluation is not "here")
        if isinstance(e, (ast.ListComp, ast.SetComp, ast.DictComp, ast.GeneratorExp)):
            # only the first iterable is evaluated here (in the enclosing scope, before the comprehension runs)
            g0 = e.generators[0]
            g0.iter = self._inline_in_expr(g0.iter, ctx, stack, depth, rename, pre)
            return e
        if isinstance(e, ast.Lambda):
            return e
        if isinstance(e, ast.BoolOp):
            # only the first operand is evaluated unconditionally
            e.values[0] = self._inline_in_expr(e.values[0], ctx, stack, depth, rename, pre)
            return e
        if isinstance(e, ast.IfExp):
            e.test = self._inline_in_expr(e.test, ctx, stack, depth, rename, pre)
            return e
        for fld, val in ast.iter_fields(e):
            if isinstance(val, ast.AST):
                setattr(e, fld, self._inline_in_expr(val, ctx, stack, depth, rename, pre))
            elif isinstance(val, list):
                setattr(e, fld, [self._inline_in_expr(v, ctx, stack, depth, rename, pre) if isinstance(v, ast.AST) else v for v in val])
        if isinstance(e, ast.Call):
            probe = self._resolve_ctx_call(ctx, e, rename)
            tgt = self._target(ctx, probe, stack)
            if getattr(probe, "_no_inline", False):
                e._no_inline = True
            if tgt is not None:
                callee, _recv = tgt
                recv = e.func.value if isinstance(e.func, ast.Attribute) else None
                try:
                    stmts, result = self._instantiate(callee, e, recv, stack, depth)
                except NotInlinable:
                    return e
                pre.extend(stmts)
                return result
        return e

    # ------------------------------------------------------------------ entry
    def run(self) -> FuncInfo:
        fn = copy.deepcopy(self.f.node)
        fn.body = self._flatten_block(_loops_over_generators(self.repo, self.f, normalise_body(list(fn.body), self.repo, self.f)), self.f, (self.f.qn,), 1)
        try:
            if expand_generators(self.repo, self.f, fn, (self.f.qn,)):
                self.inlined.append("<generator helpers>")
        except Exception:
            pass
        try:
            for _ in range(4):
                # helper parameters bound to function values are applied, calls through function-valued locals split, constant-key
                # dicts split, iterator aliases created by inlining put where they are consumed; what becomes visible that way
                # (helpers, generator helpers, loops over comprehensions / static tables) is analysed in place in a further round
                a = apply_bound_function_values(self.repo, self.f, fn)
                c = split_constant_dicts(fn)
                c = split_tuples(self.repo, fn) or c
                b = devirtualise_calls(self.repo, self.f, fn)
                before = ast.dump(ast.Module(body=fn.body, type_ignores=[]))
                fn.body = _inline_single_use_iterators(fn.body)
                d = ast.dump(ast.Module(body=fn.body, type_ignores=[])) != before
                e = _ == 0 and bool(self.inlined)      # what inlining put next to each other (a table returned by a helper and the loop over it ..)
                if not (a or b or c or d or e):
                    break
                before_round = ast.dump(ast.Module(body=fn.body, type_ignores=[])) if not (a or b or c or d) else None
                fn.body = self._flatten_block(_loops_over_generators(self.repo, self.f, normalise_body(list(fn.body), self.repo, self.f)),
                                              self.f, (self.f.qn,), 1)
                try:
                    if expand_generators(self.repo, self.f, fn, (self.f.qn,)):
                        self.inlined.append("<generator helpers>")
                except Exception:
                    pass
        except Exception:
            pass
        propagate_constants(self.repo, self.f, fn)
        if self.inlined:
            before = ast.dump(ast.Module(body=fn.body, type_ignores=[]))
            specialise(fn)
            if ast.dump(ast.Module(body=fn.body, type_ignores=[])) != before:
                # deciding a branch on a constant-bound parameter can leave a function value bound once (`to_text = str if typed else
                # attrgetter("a")` with typed = False): applied where it is called, and what that shows is normalised once more
                try:
                    if apply_bound_function_values(self.repo, self.f, fn):
                        fn.body = self._flatten_block(_loops_over_generators(self.repo, self.f, normalise_body(list(fn.body), self.repo, self.f)),
                                                      self.f, (self.f.qn,), 1)
                except Exception:
                    pass
        ast.fix_missing_locations(fn)
        flat = FuncInfo(self.f.mod, self.f.cls, fn, static=self.f.static)
        flat.qn = self.f.qn            # findings are reported against the public function
        flat.flat_of = self.f
        flat.inlined = list(dict.fromkeys(self.inlined))
        # the statements each helper instance turned into, as they are in the final tree
        by_tag: Dict[int, List[ast.stmt]] = {}
        for x in ast.walk(fn):
            t = getattr(x, "_inl", None)
            if t is not None and isinstance(x, ast.stmt):
                by_tag.setdefault(t, []).append(x)
        flat.inlined_bodies = [(qn, binds, by_tag.get(tag, stmts)) for qn, binds, stmts, tag in self.bodies]
        return flat



def apply_bound_function_values(repo: Repo, f: FuncInfo, fn: ast.FunctionDef) -> bool:
    """after inlining: a helper parameter bound once to a function value at this call site (`key__i3 = attrgetter("a")`, `to_text__i2 = str`,
    `fn__i4 = self._render`) is called as that value: `key__i3(x)` -> `x.a`, `to_text__i2(x)` -> `str(x)`.  True when something changed."""
    stores: Dict[str, int] = {}
    for n in ast.walk(fn):
        if isinstance(n, ast.Name) and not isinstance(n.ctx, ast.Load):
            stores[n.id] = stores.get(n.id, 0) + 1
    local_names = set(stores) | {a.arg for x in ast.walk(fn) if isinstance(x, ast.arguments) for a in x.posonlyargs + x.args + x.kwonlyargs + ([x.vararg] if x.vararg else []) + ([x.kwarg] if x.kwarg else [])}
    fv = FunctionValues(repo, f, local_names)
    self_name = f.self_name if f.is_method else None
    local_params = local_names - set(stores)

    def stable(v: ast.AST) -> bool:
        if fv.is_value(v):
            return True
        if isinstance(v, ast.Name):
            return v.id not in local_names
        root = v
        while isinstance(root, ast.Attribute):
            root = root.value
        return isinstance(v, ast.Attribute) and isinstance(root, ast.Name) and (root.id not in local_names or root.id == self_name)

    bound: Dict[str, ast.AST] = {}
    for n in ast.walk(fn):
        tgt = val = None
        if isinstance(n, ast.Assign) and len(n.targets) == 1 and isinstance(n.targets[0], ast.Name):
            tgt, val = n.targets[0].id, n.value
        elif isinstance(n, ast.AnnAssign) and isinstance(n.target, ast.Name) and n.value is not None:
            tgt, val = n.target.id, n.value
        if tgt and "__i" in tgt and stores.get(tgt) == 1 and stable(val):
            bound[tgt] = val
        elif tgt and stores.get(tgt) == 1 and tgt not in local_params and fv.is_value(val) and \
                all(stores.get(x.id, 0) <= 1 for x in ast.walk(val) if isinstance(x, ast.Name)):
            # a local bound once to a function value written in place (`ground = partial(f, m=m)`, `key = attrgetter("a")`, a lambda) whose
            # captured names are never rebound: calling it later is calling that value
            bound[tgt] = val
    if not bound:
        return False
    changed = [False]

    class Apply(ast.NodeTransformer):
        def visit_Call(self, c):
            self.generic_visit(c)
            if isinstance(c.func, ast.Name) and c.func.id in bound:
                v = copy.deepcopy(bound[c.func.id])
                for x in ast.walk(v):
                    ast.copy_location(x, c.func)
                changed[0] = True
                if fv.is_value(v):
                    got = fv.apply(v, list(c.args), list(c.keywords))
                    if got is not None:
                        ast.copy_location(got, c)
                        return ast.fix_missing_locations(got)
                c.func = v
            return c

    Apply().visit(fn)
    return changed[0]


def devirtualise_calls(repo: Repo, f: FuncInfo, fn: ast.FunctionDef) -> bool:
    """calls through a local name that holds one of several function values (`v = self._a` in one branch, `v = self._b` in another, `v = None`
    otherwise, possibly handed on through copies; `v(args)` later): every such definition also records a tag (`v__tag = k`, copies copy
    the tag) and the statement with the call is split by tag -- `if v__tag == 1: .. self._a(args) elif v__tag == 2: .. self._b(args)
    else: .. v(args)`.  An exact transformation (fresh integer variables only); the callees become visible to inlining and the guard
    analyses relate the call to the branch that chose it.  True when something changed."""
    simple_defs: Dict[str, List[ast.stmt]] = {}
    opaque: Set[str] = set()
    for n in ast.walk(fn):
        if isinstance(n, (ast.FunctionDef, ast.AsyncFunctionDef, ast.Lambda)) and n is not fn:
            for x in ast.walk(n):
                if isinstance(x, ast.Name):
                    opaque.add(x.id)
        if isinstance(n, ast.Assign) and len(n.targets) == 1 and isinstance(n.targets[0], ast.Name):
            simple_defs.setdefault(n.targets[0].id, []).append(n)
        elif isinstance(n, ast.AnnAssign) and isinstance(n.target, ast.Name) and n.value is not None:
            simple_defs.setdefault(n.target.id, []).append(n)
    stores: Dict[str, int] = {}
    for n in ast.walk(fn):
        if isinstance(n, ast.Name) and not isinstance(n.ctx, ast.Load):
            stores[n.id] = stores.get(n.id, 0) + 1
    params = {a.arg for x in ast.walk(fn) if isinstance(x, ast.arguments)
              for a in x.posonlyargs + x.args + x.kwonlyargs + ([x.vararg] if x.vararg else []) + ([x.kwarg] if x.kwarg else [])}
    local_names = set(stores) | params
    for nm, c in stores.items():
        if c != len(simple_defs.get(nm, [])) or nm in params:
            opaque.add(nm)
    fv = FunctionValues(repo, f, local_names)
    self_name = f.self_name if f.is_method else None

    def function_value(v: ast.AST) -> bool:
        if fv.is_value(v):
            return True
        if isinstance(v, ast.Name):
            return v.id not in local_names and v.id not in ("None", "True", "False")
        root = v
        while isinstance(root, ast.Attribute):
            root = root.value
        return isinstance(v, ast.Attribute) and isinstance(root, ast.Name) and (root.id not in local_names or root.id == self_name)

    def value_of(st):
        return st.value

    # names some of whose definitions are function values (directly or through copies of such names); any other definition
    # (None, a table lookup kept as fallback, ..) gets the tag 0 = "not one of the known functions"
    carrying: Set[str] = set()
    changed = True
    while changed:
        changed = False
        for nm in simple_defs:
            if nm in opaque or nm in carrying:
                continue
            if any(function_value(value_of(st)) or (isinstance(value_of(st), ast.Name) and value_of(st).id in carrying) for st in simple_defs[nm]):
                carrying.add(nm)
                changed = True

    def sources(nm: str, seen=None) -> List[ast.stmt]:
        seen = set() if seen is None else seen
        if nm in seen:
            return []
        seen.add(nm)
        out = []
        for st in simple_defs.get(nm, []):
            v = value_of(st)
            if isinstance(v, ast.Name) and v.id in carrying:
                out += sources(v.id, seen)
            elif function_value(v):
                out.append(st)
        return out

    called = {c.func.id for c in ast.walk(fn) if isinstance(c, ast.Call) and isinstance(c.func, ast.Name) and c.func.id in carrying
              and not getattr(c, "_devirt", False) and f"{c.func.id}__tag" not in stores}
    called = {nm for nm in called if len(sources(nm)) >= 1 and (len(simple_defs[nm]) > 1 or len(sources(nm)) > 1 or
                                                              any(isinstance(value_of(st), ast.Name) and value_of(st).id in carrying for st in simple_defs[nm]))}
    called = {nm for nm in called if len({id(x) for x in sources(nm)}) + sum(1 for st in simple_defs[nm] if isinstance(value_of(st), ast.Constant)) > 1
              or len(sources(nm)) > 1 or any(isinstance(value_of(st), ast.Name) for st in simple_defs[nm])}
    if not called:
        return False
    # closure of the names whose tags are needed
    need: Set[str] = set()

    def close(nm):
        if nm in need:
            return
        need.add(nm)
        for st in simple_defs.get(nm, []):
            v = value_of(st)
            if isinstance(v, ast.Name) and v.id in carrying:
                close(v.id)
    for nm in called:
        close(nm)
    tag_of: Dict[int, int] = {}
    for nm in sorted(need):
        for st in simple_defs[nm]:
            if function_value(value_of(st)):
                tag_of[id(st)] = len(tag_of) + 1
    tagname = lambda nm: f"{nm}__tag"

    def tag_stmt(nm: str, st: ast.stmt) -> ast.stmt:
        v = value_of(st)
        if id(st) in tag_of:
            val: ast.expr = ast.Constant(value=tag_of[id(st)])
        elif isinstance(v, ast.Name) and v.id in need:
            val = ast.Name(id=tagname(v.id), ctx=ast.Load())
        else:
            val = ast.Constant(value=0)
        new = ast.Assign(targets=[ast.Name(id=tagname(nm), ctx=ast.Store())], value=val, lineno=st.lineno)
        ast.copy_location(new, st)
        return ast.fix_missing_locations(new)

    def_owner = {id(st): nm for nm in need for st in simple_defs[nm]}
    did = [False]

    def split(st: ast.stmt) -> List[ast.stmt]:
        if not isinstance(st, (ast.Assign, ast.AnnAssign, ast.AugAssign, ast.Expr, ast.Return)):
            return [st]
        calls = [c for c in ast.walk(st) if isinstance(c, ast.Call) and isinstance(c.func, ast.Name) and c.func.id in called and not getattr(c, "_devirt", False)]
        if not calls or any(isinstance(x, (ast.Lambda, ast.ListComp, ast.SetComp, ast.DictComp, ast.GeneratorExp)) and any(c in list(ast.walk(x)) for c in calls)
                            for x in ast.walk(st)):
            return [st]
        nm = calls[0].func.id
        srcs = sources(nm)
        for c in calls:
            if c.func.id == nm:
                c._devirt = True        # the fallback keeps the call as written
        chain: List[ast.stmt] = [st]
        for src in reversed(srcs):
            variant = copy.deepcopy(st)
            for c in ast.walk(variant):
                if isinstance(c, ast.Call) and isinstance(c.func, ast.Name) and c.func.id == nm:
                    c._devirt = False
                    c.func = ast.copy_location(copy.deepcopy(value_of(src)), c.func)
                    for x in ast.walk(c.func):
                        ast.copy_location(x, c)
            test = ast.Compare(left=ast.Name(id=tagname(nm), ctx=ast.Load()), ops=[ast.Eq()], comparators=[ast.Constant(value=tag_of[id(src)])])
            node = ast.If(test=test, body=[variant], orelse=chain)
            ast.copy_location(node, st)
            ast.fix_missing_locations(node)
            chain = [node]
        did[0] = True
        return chain

    def rewrite(stmts: List[ast.stmt]) -> List[ast.stmt]:
        out: List[ast.stmt] = []
        for st in stmts:
            for fld in ("body", "orelse", "finalbody"):
                sub = getattr(st, fld, None)
                if isinstance(sub, list) and sub and isinstance(sub[0], ast.stmt) and not isinstance(st, (ast.FunctionDef, ast.AsyncFunctionDef, ast.ClassDef)):
                    setattr(st, fld, rewrite(sub))
            for h in getattr(st, "handlers", []) or []:
                h.body = rewrite(h.body)
            if id(st) in def_owner:
                out.append(st)
                out.append(tag_stmt(def_owner[id(st)], st))
            else:
                out.extend(split(st))
        return out

    fn.body = rewrite(fn.body)
    return did[0]


def split_constant_dicts(fn: ast.FunctionDef) -> bool:
    """a local dict display with constant keys that is only ever indexed (`d[k]`, `d[k] = v`, `d[k].append(x)`) with constant keys -- or,
    for the keys {True, False}, with a boolean expression -- is one local per key: `by_polarity = {False: [], True: []}` /
    `by_polarity[bool(e.is_positive)].append(e)` / `for e in by_polarity[False]` become `p__False = []; p__True = []` /
    `if e.is_positive: p__True.append(e) else: p__False.append(e)` / `for e in p__False`.  Exact (the dict never escapes).  True when
    something changed."""
    defs: Dict[str, List[ast.stmt]] = {}
    stores: Dict[str, int] = {}
    for n in ast.walk(fn):
        if isinstance(n, ast.Name) and not isinstance(n.ctx, ast.Load):
            stores[n.id] = stores.get(n.id, 0) + 1
        if isinstance(n, ast.Assign) and len(n.targets) == 1 and isinstance(n.targets[0], ast.Name) and isinstance(n.value, ast.Dict):
            defs.setdefault(n.targets[0].id, []).append(n)
        elif isinstance(n, ast.AnnAssign) and isinstance(n.target, ast.Name) and isinstance(n.value, ast.Dict):
            defs.setdefault(n.target.id, []).append(n)
    params = {a.arg for x in ast.walk(fn) if isinstance(x, ast.arguments) for a in x.posonlyargs + x.args + x.kwonlyargs}
    parents: Dict[ast.AST, ast.AST] = {}
    for n in ast.walk(fn):
        for c in ast.iter_child_nodes(n):
            parents[c] = n

    def boolean(e: ast.AST) -> Optional[ast.AST]:
        """the truth-valued expression a {True, False} dict is indexed with (bool(..) unwrapped); None when it is not certainly a bool"""
        if isinstance(e, ast.Call) and isinstance(e.func, ast.Name) and e.func.id == "bool" and len(e.args) == 1 and not e.keywords:
            return e.args[0]
        if isinstance(e, ast.Compare) or (isinstance(e, ast.UnaryOp) and isinstance(e.op, ast.Not)):
            return e
        if isinstance(e, ast.BoolOp) and all(boolean(v) is not None for v in e.values):
            return e
        return None

    todo = {}
    for name, ds in defs.items():
        if len(ds) != 1 or stores.get(name) != 1 or name in params:
            continue
        d = ds[0].value
        if not d.keys or any(k is None or not isinstance(k, ast.Constant) for k in d.keys):
            continue
        keys = [k.value for k in d.keys]
        try:
            if len(set(keys)) != len(keys):
                continue
        except TypeError:
            continue
        bool_keys = set(keys) == {True, False} and all(isinstance(k, bool) for k in keys)
        ok = True
        for n in ast.walk(fn):
            if isinstance(n, ast.Name) and n.id == name and isinstance(n.ctx, ast.Load):
                par = parents.get(n)
                if not (isinstance(par, ast.Subscript) and par.value is n and not isinstance(par.slice, ast.Slice)):
                    ok = False
                    break
                k = par.slice
                if isinstance(k, ast.Constant):
                    try:
                        if k.value not in keys or (isinstance(k.value, bool) != isinstance(keys[keys.index(k.value)], bool)):
                            ok = False
                            break
                    except TypeError:
                        ok = False
                        break
                elif not (bool_keys and boolean(k) is not None):
                    ok = False
                    break
                if isinstance(par.ctx, ast.Del):
                    ok = False
                    break
        if ok:
            todo[name] = (ds[0], keys, bool_keys)
    if not todo:
        return False

    def local(name: str, key) -> str:
        return f"{name}__{'k' if not isinstance(key, (bool, str, int)) else ''}{str(key).replace('-', 'm').replace('.', '_').replace(' ', '_') if not isinstance(key, str) or key.isidentifier() else 'k' + str(abs(hash(key)) % 10 ** 8)}"

    class Const(ast.NodeTransformer):
        def visit_Subscript(self, n):
            self.generic_visit(n)
            if isinstance(n.value, ast.Name) and n.value.id in todo and isinstance(n.slice, ast.Constant):
                return ast.copy_location(ast.Name(id=local(n.value.id, n.slice.value), ctx=n.ctx), n)
            return n

    class Pick(ast.NodeTransformer):
        def __init__(self, name, which):
            self.name, self.which = name, which

        def visit_Subscript(self, n):
            self.generic_visit(n)
            if isinstance(n.value, ast.Name) and n.value.id == self.name and not isinstance(n.slice, ast.Constant):
                return ast.copy_location(ast.Name(id=local(self.name, self.which), ctx=n.ctx), n)
            return n

    def dynamic_index(st: ast.stmt):
        for n in ast.walk(st):
            if isinstance(n, ast.Subscript) and isinstance(n.value, ast.Name) and n.value.id in todo and not isinstance(n.slice, ast.Constant):
                return n
        return None

    def rewrite(stmts: List[ast.stmt]) -> List[ast.stmt]:
        out: List[ast.stmt] = []
        for st in stmts:
            for fld in ("body", "orelse", "finalbody"):
                sub = getattr(st, fld, None)
                if isinstance(sub, list) and sub and isinstance(sub[0], ast.stmt) and not isinstance(st, (ast.FunctionDef, ast.AsyncFunctionDef, ast.ClassDef)):
                    setattr(st, fld, rewrite(sub))
            for h in getattr(st, "handlers", []) or []:
                h.body = rewrite(h.body)
            hit = next((nm for nm, (dst, _k, _b) in todo.items() if dst is st), None)
            if hit is not None:
                d = st.value
                for k, v in zip(d.keys, d.values):
                    new = ast.Assign(targets=[ast.Name(id=local(hit, k.value), ctx=ast.Store())], value=v, lineno=st.lineno)
                    out.append(ast.fix_missing_locations(ast.copy_location(new, st)))
                continue
            if isinstance(st, (ast.Expr, ast.Assign, ast.AugAssign, ast.AnnAssign, ast.Return)):
                dyn = dynamic_index(st)
                if dyn is not None:
                    name = dyn.value.id
                    test = boolean(dyn.slice)
                    yes = Pick(name, True).visit(copy.deepcopy(st))
                    no = Pick(name, False).visit(copy.deepcopy(st))
                    node = ast.If(test=copy.deepcopy(test), body=rewrite([yes]), orelse=rewrite([no]))
                    out.append(ast.fix_missing_locations(ast.copy_location(node, st)))
                    continue
            # compound statements: a dynamic index in the header (`for e in d[flag]`) is left to the generic form below
            hdr_dyn = None
            if isinstance(st, (ast.For, ast.While, ast.If, ast.With)):
                hdr = st.iter if isinstance(st, ast.For) else (st.test if isinstance(st, (ast.While, ast.If)) else None)
                if hdr is not None:
                    for n in ast.walk(hdr):
                        if isinstance(n, ast.Subscript) and isinstance(n.value, ast.Name) and n.value.id in todo and not isinstance(n.slice, ast.Constant):
                            hdr_dyn = n
            if hdr_dyn is not None:
                name = hdr_dyn.value.id
                test = boolean(hdr_dyn.slice)
                yes = Pick(name, True).visit(copy.deepcopy(st))
                no = Pick(name, False).visit(copy.deepcopy(st))
                node = ast.If(test=copy.deepcopy(test), body=[yes], orelse=[no])
                out.append(ast.fix_missing_locations(ast.copy_location(node, st)))
                continue
            out.append(Const().visit(st))
        return out

    fn.body = rewrite(fn.body)
    Const().visit(fn)
    ast.fix_missing_locations(fn)
    return True


def split_tuples(repo: Repo, fn: ast.FunctionDef) -> bool:
    """scalar replacement of local tuples / records: a local whose every definition is a tuple display of one length (or a NamedTuple /
    dataclass record construction of one class), `None`, or a copy of such a local, and which is only copied, unpacked, indexed by a
    constant, read by field name or tested against None, becomes one local per component plus a flag for None:
        r = (msg, fn)  /  r = None  /  h = r  /  if h is None: ..  /  m, f = h
      -> r__0 = msg; r__1 = fn; r__none = False  /  r__0 = None; r__1 = None; r__none = True  /  h__0 = r__0; ..  /  if h__none: ..  /  m = h__0; f = h__1
    (exact: the tuple object itself is never observed).  Function values travelling in such tuples then reach the call that uses
    them as plain copies.  True when something changed."""
    parents: Dict[ast.AST, ast.AST] = {}
    for n in ast.walk(fn):
        for c in ast.iter_child_nodes(n):
            parents[c] = n
    stores: Dict[str, List[ast.AST]] = {}
    for n in ast.walk(fn):
        if isinstance(n, ast.Name) and not isinstance(n.ctx, ast.Load):
            stores.setdefault(n.id, []).append(n)
    params = {a.arg for x in ast.walk(fn) if isinstance(x, ast.arguments) for a in x.posonlyargs + x.args + x.kwonlyargs + ([x.vararg] if x.vararg else []) + ([x.kwarg] if x.kwarg else [])}

    def record_fields(call: ast.AST) -> Optional[List[ast.AST]]:
        """the constructor arguments of a record construction in field order"""
        if not (isinstance(call, ast.Call) and isinstance(call.func, ast.Name) and call.func.id in repo.classes):
            return None
        ci = repo.classes[call.func.id]
        if not getattr(ci, "record_kind", None) or ci.record_kind != "namedtuple" and any(True for _ in ()):
            return None
        if any(isinstance(a, ast.Starred) for a in call.args) or any(k.arg is None for k in call.keywords):
            return None
        names = [f_ for f_, _d in ci.record_fields]
        vals: Dict[str, ast.AST] = {}
        for f_, a in zip(names, call.args):
            vals[f_] = a
        for k in call.keywords:
            vals[k.arg] = k.value
        out = []
        for f_, d in ci.record_fields:
            if f_ in vals:
                out.append(vals[f_])
            elif d is not None:
                out.append(copy.deepcopy(d))
            else:
                return None
        return out

    def shape_of(v: ast.AST):
        """('tuple', n, None) / ('rec', n, class) / 'none' / ('copy', name) / None"""
        if isinstance(v, ast.Tuple) and not any(isinstance(x, ast.Starred) for x in v.elts) and v.elts:
            return ("tuple", len(v.elts), None)
        rf = record_fields(v)
        if rf is not None:
            return ("rec", len(rf), v.func.id)
        if isinstance(v, ast.Constant) and v.value is None:
            return "none"
        if isinstance(v, ast.Name):
            return ("copy", v.id)
        return None

    # candidate names: all stores are simple `T = v` with an admissible shape
    defs: Dict[str, List[ast.stmt]] = {}
    for nm, sts in stores.items():
        if nm in params:
            continue
        ds = []
        ok = True
        for st_name in sts:
            par = parents.get(st_name)
            if isinstance(par, ast.Assign) and len(par.targets) == 1 and par.targets[0] is st_name and shape_of(par.value) is not None:
                ds.append(par)
            elif isinstance(par, ast.AnnAssign) and par.target is st_name and par.value is not None and shape_of(par.value) is not None:
                ds.append(par)
            else:
                ok = False
                break
        if ok and ds:
            defs[nm] = ds
    shape: Dict[str, tuple] = {}
    cand = set(defs)
    changed = True
    while changed:
        changed = False
        for nm in list(cand):
            kinds = set()
            for st in defs[nm]:
                sh = shape_of(st.value)
                if sh == "none":
                    continue
                if sh[0] == "copy":
                    if sh[1] not in cand:
                        cand.discard(nm)
                        changed = True
                        break
                    if sh[1] in shape:
                        kinds.add(shape[sh[1]])
                    continue
                kinds.add(sh)
            else:
                if len(kinds) > 1:
                    cand.discard(nm)
                    changed = True
                elif len(kinds) == 1 and shape.get(nm) != next(iter(kinds)):
                    shape[nm] = next(iter(kinds))
                    changed = True
    cand = {nm for nm in cand if nm in shape}
    # uses
    changed = True
    while changed:
        changed = False
        for n in ast.walk(fn):
            if isinstance(n, ast.Name) and isinstance(n.ctx, ast.Load) and n.id in cand:
                par = parents.get(n)
                kind, size, cls = shape[n.id]
                ok = False
                if isinstance(par, (ast.Assign, ast.AnnAssign)) and par.value is n:
                    tg = par.targets[0] if isinstance(par, ast.Assign) and len(par.targets) == 1 else getattr(par, "target", None)
                    if isinstance(tg, ast.Name) and tg.id in cand:
                        ok = True
                    elif isinstance(tg, (ast.Tuple, ast.List)) and len(tg.elts) == size and not any(isinstance(x, ast.Starred) for x in tg.elts) \
                            and (kind == "tuple" or repo.classes[cls].record_kind == "namedtuple"):
                        ok = True
                elif isinstance(par, ast.Compare) and len(par.ops) == 1 and isinstance(par.ops[0], (ast.Is, ast.IsNot)) and par.left is n \
                        and isinstance(par.comparators[0], ast.Constant) and par.comparators[0].value is None:
                    ok = True
                elif isinstance(par, ast.Subscript) and par.value is n and isinstance(par.slice, ast.Constant) and isinstance(par.slice.value, int) \
                        and 0 <= par.slice.value < size and isinstance(par.ctx, ast.Load) and (kind == "tuple" or repo.classes[cls].record_kind == "namedtuple"):
                    ok = True
                elif isinstance(par, ast.Attribute) and par.value is n and kind == "rec" and isinstance(par.ctx, ast.Load) \
                        and par.attr in [f_ for f_, _d in repo.classes[cls].record_fields]:
                    ok = True
                if not ok:
                    cand.discard(n.id)
                    changed = True
        # a copy into / from a name that dropped out drops too
        for nm in list(cand):
            for st in defs[nm]:
                sh = shape_of(st.value)
                if sh != "none" and sh[0] == "copy" and sh[1] not in cand:
                    cand.discard(nm)
                    changed = True
    if not cand:
        return False

    comp = lambda nm, i: f"{nm}__{i}"
    none_flag = lambda nm: f"{nm}__none"

    def mk(target: str, value: ast.AST, at: ast.AST) -> ast.stmt:
        st = ast.Assign(targets=[ast.Name(id=target, ctx=ast.Store())], value=value, lineno=getattr(at, "lineno", 1))
        ast.copy_location(st, at)
        return ast.fix_missing_locations(st)

    class Uses(ast.NodeTransformer):
        def visit_Compare(self, n):
            self.generic_visit(n)
            if len(n.ops) == 1 and isinstance(n.ops[0], (ast.Is, ast.IsNot)) and isinstance(n.left, ast.Name) and n.left.id in cand \
                    and isinstance(n.comparators[0], ast.Constant) and n.comparators[0].value is None:
                flag: ast.expr = ast.Name(id=none_flag(n.left.id), ctx=ast.Load())
                if isinstance(n.ops[0], ast.IsNot):
                    flag = ast.UnaryOp(op=ast.Not(), operand=flag)
                return ast.fix_missing_locations(ast.copy_location(flag, n))
            return n

        def visit_Subscript(self, n):
            self.generic_visit(n)
            if isinstance(n.value, ast.Name) and n.value.id in cand and isinstance(n.slice, ast.Constant) and isinstance(n.ctx, ast.Load):
                return ast.copy_location(ast.Name(id=comp(n.value.id, n.slice.value), ctx=ast.Load()), n)
            return n

        def visit_Attribute(self, n):
            self.generic_visit(n)
            if isinstance(n.value, ast.Name) and n.value.id in cand and shape[n.value.id][0] == "rec" and isinstance(n.ctx, ast.Load):
                names = [f_ for f_, _d in repo.classes[shape[n.value.id][2]].record_fields]
                if n.attr in names:
                    return ast.copy_location(ast.Name(id=comp(n.value.id, names.index(n.attr)), ctx=ast.Load()), n)
            return n

    def rewrite(stmts: List[ast.stmt]) -> List[ast.stmt]:
        out: List[ast.stmt] = []
        for st in stmts:
            for fld in ("body", "orelse", "finalbody"):
                sub = getattr(st, fld, None)
                if isinstance(sub, list) and sub and isinstance(sub[0], ast.stmt) and not isinstance(st, (ast.FunctionDef, ast.AsyncFunctionDef, ast.ClassDef)):
                    setattr(st, fld, rewrite(sub))
            for h in getattr(st, "handlers", []) or []:
                h.body = rewrite(h.body)
            tgt = val = None
            if isinstance(st, ast.Assign) and len(st.targets) == 1:
                tgt, val = st.targets[0], st.value
            elif isinstance(st, ast.AnnAssign) and st.value is not None:
                tgt, val = st.target, st.value
            if isinstance(tgt, ast.Name) and tgt.id in cand:
                size = shape[tgt.id][1]
                sh = shape_of(val)
                if sh == "none":
                    for i in range(size):
                        out.append(mk(comp(tgt.id, i), ast.Constant(value=None), st))
                    out.append(mk(none_flag(tgt.id), ast.Constant(value=True), st))
                elif sh[0] == "copy":
                    for i in range(size):
                        out.append(mk(comp(tgt.id, i), ast.Name(id=comp(sh[1], i), ctx=ast.Load()), st))
                    out.append(mk(none_flag(tgt.id), ast.Name(id=none_flag(sh[1]), ctx=ast.Load()), st))
                else:
                    parts = list(val.elts) if sh[0] == "tuple" else record_fields(val)
                    tmp = [Uses().visit(x) for x in parts]
                    for i, x in enumerate(tmp):
                        out.append(mk(comp(tgt.id, i), x, st))
                    out.append(mk(none_flag(tgt.id), ast.Constant(value=False), st))
                continue
            if isinstance(tgt, (ast.Tuple, ast.List)) and isinstance(val, ast.Name) and val.id in cand:
                for i, t in enumerate(tgt.elts):
                    new = ast.Assign(targets=[t], value=ast.Name(id=comp(val.id, i), ctx=ast.Load()), lineno=st.lineno)
                    out.append(ast.fix_missing_locations(ast.copy_location(new, st)))
                continue
            out.append(Uses().visit(st))
        return out

    fn.body = rewrite(fn.body)
    ast.fix_missing_locations(fn)
    return True


FoldedConstant = type("Constant", (ast.Constant,), {"const_name": "", "__doc__": "a module-level literal constant put in place of its name"})


def propagate_constants(repo: Repo, f: FuncInfo, fn: ast.FunctionDef) -> None:
    """names of module-level literal constants (str / int / float / bool / None, bound once) are replaced by the literal (the node
    remembers the name in `const_name`): `ROOT_TYPE_NAME` and "object" are the same thing to every rule"""
    local: Set[str] = set()
    for n in ast.walk(fn):
        if isinstance(n, ast.Name) and isinstance(n.ctx, (ast.Store, ast.Del)):
            local.add(n.id)
        elif isinstance(n, ast.arg):
            local.add(n.arg)
        elif isinstance(n, ast.ExceptHandler) and n.name:
            local.add(n.name)
        elif isinstance(n, (ast.Global, ast.Nonlocal)):
            local |= set(n.names)

    class T(ast.NodeTransformer):
        def visit_Name(self, n):
            if not isinstance(n.ctx, ast.Load) or n.id in local:
                return n
            try:
                r = repo.lookup(f.mod.name, n.id)
            except Exception:
                return n
            if not r or r[0] != "const" or not isinstance(r[1], ast.Constant):
                return n
            v = r[1].value
            if not (v is None or isinstance(v, (str, int, float, bool))):
                return n
            c = FoldedConstant(value=v)
            c.const_name = n.id
            return ast.copy_location(c, n)

    T().visit(fn)


def specialise(fn: ast.FunctionDef) -> None:
    """partial evaluation after inlining: a helper parameter bound to a constant at this call site (`p__i3 = None`) decides the
    helper's tests on it (`if p__i3 is None:`); the branch not taken is removed.  Only names created by the inliner (single
    definition, constant value) take part."""
    from .cfg import eval3
    for _ in range(4):
        stores: Dict[str, List[ast.AST]] = {}
        for n in ast.walk(fn):
            if isinstance(n, ast.Name) and isinstance(n.ctx, ast.Store):
                stores.setdefault(n.id, []).append(n)
        consts: Dict[str, object] = {}
        for n in ast.walk(fn):
            tgt = val = None
            if isinstance(n, ast.Assign) and len(n.targets) == 1 and isinstance(n.targets[0], ast.Name):
                tgt, val = n.targets[0].id, n.value
            elif isinstance(n, ast.AnnAssign) and isinstance(n.target, ast.Name) and n.value is not None:
                tgt, val = n.target.id, n.value
            if tgt and "__i" in tgt and len(stores.get(tgt, [])) == 1 and isinstance(val, ast.Constant):
                consts[tgt] = val.value
        if not consts:
            return

        def val(e):
            if isinstance(e, ast.Name) and e.id in consts:
                return bool(consts[e.id])
            if isinstance(e, ast.Compare) and len(e.ops) == 1 and isinstance(e.left, ast.Name) and e.left.id in consts \
                    and isinstance(e.comparators[0], ast.Constant):
                a, b = consts[e.left.id], e.comparators[0].value
                op = e.ops[0]
                if isinstance(op, ast.Is):
                    return a is b if (a is None or b is None or isinstance(a, bool) or isinstance(b, bool)) else None
                if isinstance(op, ast.IsNot):
                    return a is not b if (a is None or b is None or isinstance(a, bool) or isinstance(b, bool)) else None
                if isinstance(op, ast.Eq):
                    return a == b
                if isinstance(op, ast.NotEq):
                    return a != b
            return None

        changed = [False]

        class Prune(ast.NodeTransformer):
            def visit_If(self, n):
                self.generic_visit(n)
                if getattr(n, "_inline_block", False):
                    return n
                v = eval3(n.test, val)
                if v is True:
                    changed[0] = True
                    return n.body
                if v is False:
                    changed[0] = True
                    return n.orelse or None
                return n

            def visit_IfExp(self, n):
                self.generic_visit(n)
                v = eval3(n.test, val)
                if v is True:
                    changed[0] = True
                    return n.body
                if v is False:
                    changed[0] = True
                    return n.orelse
                return n

        Prune().visit(fn)
        for n in ast.walk(fn):
            for fld in ("body", "orelse"):
                b = getattr(n, fld, None)
                if isinstance(b, list) and fld == "body" and not b and isinstance(n, (ast.If, ast.For, ast.While, ast.With, ast.FunctionDef)):
                    n.body = [ast.Pass()]
        if not changed[0]:
            return


def _is_gen_call(repo: Repo, f: FuncInfo, e: ast.AST) -> bool:
    try:
        return isinstance(e, ast.Call) and _resolve_generator(repo, f, e) is not None
    except Exception:
        return False


def _loops_over_generators(repo: Repo, f: FuncInfo, body: List[ast.stmt]) -> List[ast.stmt]:
    """other ways of consuming a private generator helper are turned into a `for` loop first:
    X.update(g()) / X.extend(g()) / x = list(g()) | set(g()) | deque(g()) / comprehensions whose first iterable is g()"""

    class T(ast.NodeTransformer):
        def visit_FunctionDef(self, n):
            return n

        visit_AsyncFunctionDef = visit_Lambda = visit_FunctionDef

        def visit_Expr(self, st):
            c = st.value
            if isinstance(c, ast.Call) and isinstance(c.func, ast.Attribute) and c.func.attr in ("update", "extend") and len(c.args) == 1 \
                    and isinstance(c.func.value, (ast.Name, ast.Attribute)) and _is_gen_call(repo, f, c.args[0]):
                n = next(_counter)
                var = f"__item__c{n}"
                meth = "add" if c.func.attr == "update" else "append"
                call = ast.Call(func=ast.Attribute(value=copy.deepcopy(c.func.value), attr=meth, ctx=ast.Load()), args=[ast.Name(id=var, ctx=ast.Load())], keywords=[])
                loop = ast.For(target=ast.Name(id=var, ctx=ast.Store()), iter=c.args[0], body=[ast.Expr(value=call)], orelse=[], lineno=st.lineno)
                return ast.fix_missing_locations(ast.copy_location(loop, st))
            return st

        def _build(self, st, value, make_final):
            if isinstance(value, ast.Call) and isinstance(value.func, ast.Name) and value.func.id in ("list", "set", "tuple", "deque", "sorted") and len(value.args) == 1 \
                    and not value.keywords and _is_gen_call(repo, f, value.args[0]):
                n = next(_counter)
                tmp, var = f"__coll__c{n}", f"__item__c{n}"
                is_set = value.func.id == "set"
                init = ast.Call(func=ast.Name(id="set", ctx=ast.Load()), args=[], keywords=[]) if is_set else ast.List(elts=[], ctx=ast.Load())
                add = ast.Call(func=ast.Attribute(value=ast.Name(id=tmp, ctx=ast.Load()), attr="add" if is_set else "append", ctx=ast.Load()),
                               args=[ast.Name(id=var, ctx=ast.Load())], keywords=[])
                loop = ast.For(target=ast.Name(id=var, ctx=ast.Store()), iter=value.args[0], body=[ast.Expr(value=add)], orelse=[], lineno=st.lineno)
                final_val: ast.expr = ast.Name(id=tmp, ctx=ast.Load())
                if value.func.id in ("sorted", "deque", "tuple"):
                    final_val = ast.Call(func=ast.Name(id=value.func.id, ctx=ast.Load()), args=[final_val], keywords=[])
                out = [ast.Assign(targets=[ast.Name(id=tmp, ctx=ast.Store())], value=init, lineno=st.lineno), loop, make_final(final_val)]
                return [ast.fix_missing_locations(ast.copy_location(x, st)) for x in out]
            if isinstance(value, (ast.ListComp, ast.SetComp, ast.GeneratorExp)) and _is_gen_call(repo, f, value.generators[0].iter) and not isinstance(value, ast.GeneratorExp):
                return None     # handled by the comprehension expansion of the flattener (see _has_inlinable_call)
            return None

        def visit_Assign(self, st):
            r = self._build(st, st.value, lambda v: ast.Assign(targets=st.targets, value=v, lineno=st.lineno))
            return r if r is not None else st

        def visit_Return(self, st):
            if st.value is None:
                return st
            r = self._build(st, st.value, lambda v: ast.Return(value=v))
            return r if r is not None else st

    out: List[ast.stmt] = []
    t = T()
    for st in body:
        r = t.visit(st)
        out.extend(r if isinstance(r, list) else [r])
    return out


# =============================================================================================== generator helpers
LOOPS = (ast.For, ast.While, ast.AsyncFor)
SCOPES = (ast.FunctionDef, ast.AsyncFunctionDef, ast.Lambda, ast.ClassDef)


# ------------------------------------------------------------------------------------------------ small AST helpers
def _walk_scope(node: ast.AST):
    """ast.walk that does not enter nested function / class definitions"""
    todo = [node]
    while todo:
        n = todo.pop()
        yield n
        for ch in ast.iter_child_nodes(n):
            if not isinstance(ch, SCOPES):
                todo.append(ch)


def _own_jumps(body: List[ast.stmt]) -> List[ast.stmt]:
    """break / continue statements that belong to the loop whose body this is"""
    out = []

    def rec(stmts):
        for s in stmts:
            if isinstance(s, (ast.Break, ast.Continue)):
                out.append(s)
            if isinstance(s, LOOPS) or isinstance(s, SCOPES):
                if isinstance(s, LOOPS):
                    rec(s.orelse)      # the else branch of an inner loop still belongs to the outer one
                continue
            for fld in ("body", "orelse", "finalbody"):
                sub = getattr(s, fld, None)
                if isinstance(sub, list) and sub and isinstance(sub[0], ast.stmt):
                    rec(sub)
            if isinstance(s, ast.Try):
                for h in s.handlers:
                    rec(h.body)
            if isinstance(s, ast.Match):
                for c in s.cases:
                    rec(c.body)

    rec(body)
    return out


def _map_blocks(node: ast.AST, fn) -> None:
    """apply fn(list of statements) -> list of statements to every statement list below node (innermost first)"""
    for fld in ("body", "orelse", "finalbody"):
        sub = getattr(node, fld, None)
        if isinstance(sub, list) and sub and isinstance(sub[0], ast.stmt):
            for s in sub:
                if not isinstance(s, SCOPES):
                    _map_blocks(s, fn)
            setattr(node, fld, fn(sub))
    if isinstance(node, ast.Try):
        for h in node.handlers:
            for s in h.body:
                _map_blocks(s, fn)
            h.body = fn(h.body)
    if isinstance(node, ast.Match):
        for c in node.cases:
            for s in c.body:
                _map_blocks(s, fn)
            c.body = fn(c.body)


def _jump(label: str, at: ast.AST) -> ast.stmt:
    j = ast.copy_location(InlineJump(), at)
    j.label = label
    return j


def _block(label: str, body: List[ast.stmt], at: ast.AST) -> ast.stmt:
    b = ast.copy_location(InlineBlock(test=ast.Constant(value=True), body=body or [ast.Pass()], orelse=[]), at)
    b.label = label
    return b


class _JumpRewriter(ast.NodeTransformer):
    """replace the given break / continue / return statements (by identity) with InlineJumps"""

    def __init__(self, repl: Dict[int, str]):
        self.repl = repl

    def generic_visit(self, node):
        if isinstance(node, SCOPES):
            return node
        return super().generic_visit(node)

    def visit(self, node):
        if id(node) in self.repl:
            return _jump(self.repl[id(node)], node)
        return super().visit(node)


# ------------------------------------------------------------------------------------------------ generator expansion
class _GRenamer(ast.NodeTransformer):
    def __init__(self, mapping):
        self.m = mapping

    def visit_Name(self, n):
        if n.id in self.m:
            return ast.copy_location(ast.Name(id=self.m[n.id], ctx=n.ctx), n)
        return n


def _resolve_generator(repo: Repo, f: FuncInfo, call: ast.Call) -> Optional[Tuple[FuncInfo, bool]]:
    """(generator function of the repository, receiver is self) for `self.g(..)` / `g(..)` / `Class.g(..)`"""
    fn = call.func
    callee = None
    recv_self = False
    if isinstance(fn, ast.Attribute) and isinstance(fn.value, ast.Name):
        if f.cls and fn.value.id == (f.self_name or "self"):
            callee = repo.find_method(f.cls, fn.attr)
            recv_self = True
        elif fn.value.id in repo.classes:
            callee = repo.find_method(fn.value.id, fn.attr)
            if callee is not None and not callee.static:
                callee = None
        elif f.cls and f.static and fn.value.id == f.cls:
            callee = repo.find_method(f.cls, fn.attr)
    elif isinstance(fn, ast.Name):
        r = repo.lookup(f.mod.name, fn.id)
        if r and r[0] == "func":
            callee = repo.funcs.get(f"{repo.mods[r[2]].short}::{fn.id}")
    if callee is None or callee.qn == f.qn or not _is_private(callee.name):
        return None
    if any(isinstance(a, ast.Starred) for a in call.args) or any(k.arg is None for k in call.keywords):
        return None
    if not any(isinstance(n, (ast.Yield, ast.YieldFrom)) for n in _walk_scope(callee.node) if n is not callee.node):
        return None
    if callee.node.decorator_list and any(not (isinstance(d, ast.Name) and d.id == "staticmethod") for d in callee.node.decorator_list):
        return None
    if callee.is_method and not recv_self:
        return None
    return callee, recv_self


def _expand_one(repo: Repo, f: FuncInfo, loop: ast.For, stack: Tuple[str, ...]) -> Optional[List[ast.stmt]]:
    if not isinstance(loop, ast.For) or loop.orelse or not isinstance(loop.iter, ast.Call):
        return None
    res = _resolve_generator(repo, f, loop.iter)
    if res is None:
        return None
    callee, recv_self = res
    if callee.qn in stack:
        return None
    gen = flatten(repo, callee)
    gfn = copy.deepcopy(gen.node)
    expand_generators(repo, gen, gfn, stack + (callee.qn,))
    body = list(gfn.body)
    if body and isinstance(body[0], ast.Expr) and isinstance(body[0].value, ast.Constant) and isinstance(body[0].value.value, str):
        body = body[1:]
    # every yield must be a statement of its own
    ystmts = [s for s in _walk_scope(gfn) if isinstance(s, ast.Expr) and isinstance(s.value, (ast.Yield, ast.YieldFrom))]
    yexprs = [n for n in _walk_scope(gfn) if isinstance(n, (ast.Yield, ast.YieldFrom))]
    if len(ystmts) != len(yexprs) or not ystmts:
        return None
    n = next(_counter)
    glabel = f"g{n}:{callee.qn}"
    # locals of the generator get fresh names, parameters are bound by assignments
    names: Set[str] = set()
    for x in _walk_scope(gfn):
        if isinstance(x, ast.Name) and isinstance(x.ctx, ast.Store):
            names.add(x.id)
        elif isinstance(x, ast.ExceptHandler) and x.name:
            names.add(x.name)
    params = list(callee.params)
    names |= set(params)
    mapping = {x: f"{x}__g{n}" for x in names}
    if callee.is_method:
        mapping[params[0]] = f.self_name or "self"
        params = params[1:]
    bound: Dict[str, ast.AST] = {}
    call = loop.iter
    for p_, a in zip(params, call.args):
        bound[p_] = a
    for k in call.keywords:
        bound[k.arg] = k.value
    pre: List[ast.stmt] = []
    for p_ in params:
        if p_ in bound:
            v = copy.deepcopy(bound[p_])
        elif p_ in callee.defaults:
            v = copy.deepcopy(callee.defaults[p_])
        else:
            return None
        pre.append(ast.copy_location(ast.Assign(targets=[ast.Name(id=mapping[p_], ctx=ast.Store())], value=v, lineno=call.lineno), call))
    # the generator's returns leave the whole expansion
    rets = {id(s): glabel for s in _walk_scope(gfn) if isinstance(s, ast.Return)}
    holder = ast.Module(body=body, type_ignores=[])
    if rets:
        holder = _JumpRewriter(rets).visit(holder)
    holder = _GRenamer(mapping).visit(holder)
    own = _own_jumps(loop.body)
    if any(isinstance(o, ast.Break) for o in own) and any(isinstance(y, ast.YieldFrom) for y in yexprs):
        return None

    def body_copy(at: ast.AST) -> List[ast.stmt]:
        k = next(_counter)
        blabel = f"b{k}:{callee.qn}"
        tmp = ast.Module(body=copy.deepcopy(loop.body), type_ignores=[])
        repl = {}
        for o, c_ in zip(_own_jumps(loop.body), _own_jumps(tmp.body)):
            repl[id(c_)] = glabel if isinstance(o, ast.Break) else blabel
        if repl:
            tmp = _JumpRewriter(repl).visit(tmp)
            return [_block(blabel, tmp.body, at)]
        return tmp.body

    def replace(stmts: List[ast.stmt]) -> List[ast.stmt]:
        out: List[ast.stmt] = []
        for s in stmts:
            if isinstance(s, ast.Expr) and isinstance(s.value, ast.Yield):
                val = s.value.value if s.value.value is not None else ast.Constant(value=None)
                out.append(ast.copy_location(ast.Assign(targets=[copy.deepcopy(loop.target)], value=val, lineno=s.lineno), s))
                out.extend(body_copy(s))
            elif isinstance(s, ast.Expr) and isinstance(s.value, ast.YieldFrom):
                out.append(ast.copy_location(ast.For(target=copy.deepcopy(loop.target), iter=s.value.value, body=copy.deepcopy(loop.body), orelse=[],
                                                     lineno=s.lineno), s))
            else:
                out.append(s)
        return out

    _map_blocks(holder, replace)
    stmts = pre + list(holder.body)
    if rets or any(isinstance(o, ast.Break) for o in own):
        stmts = [_block(glabel, stmts, loop)]
    for s in stmts:
        ast.fix_missing_locations(s)
    return stmts


def expand_generators(repo: Repo, f: FuncInfo, fn: ast.AST, stack: Tuple[str, ...]) -> bool:
    """`for x in self._gen(..): BODY` over a private generator helper -> the generator's body with every `yield e` replaced by
    `x = e; BODY` (break / continue / the generator's return become jumps)"""
    changed = [False]

    def rewrite(stmts: List[ast.stmt]) -> List[ast.stmt]:
        out: List[ast.stmt] = []
        for s in stmts:
            new = _expand_one(repo, f, s, stack) if isinstance(s, ast.For) else None
            if new is None:
                out.append(s)
            else:
                changed[0] = True
                out.extend(new)
        return out

    _map_blocks(fn, rewrite)
    return changed[0]



_cache: Dict[tuple, FuncInfo] = {}


def flatten(repo: Repo, f: FuncInfo, depth: int = MAX_DEPTH, also: Optional[Set[str]] = None) -> FuncInfo:
    key = (id(repo), f.qn, id(f.node), depth, tuple(sorted(also or ())))
    if key not in _cache:
        _cache[key] = Flattener(repo, f, depth, also).run()
    return _cache[key]


def flat(repo: Repo, spec: str, depth: int = MAX_DEPTH, also: Optional[Set[str]] = None) -> FuncInfo:
    return flatten(repo, repo.func(spec), depth, also)
