"""Positive controls for rules whose expected finding count on a healthy tree is zero: the same rule functions are run on the
fixture package /verif/fixtures/ctl and must report the planted construct; otherwise the analysis is broken (exit 2)."""
from __future__ import annotations

import os

from .core import AnalysisError, Repo

FIXTURE = os.path.join(os.path.dirname(os.path.dirname(os.path.abspath(__file__))), "fixtures", "ctl")

# property -> [(rule function path, kwargs, (function name fragment, role fragment))]
_repo = None


def _fixture() -> Repo:
    global _repo
    if _repo is None:
        _repo = Repo(FIXTURE)
    return _repo


def verify(prop: str) -> list:
    """returns the list of controls verified; raises AnalysisError when one is not detected"""
    from .rules import c06, c07, c18
    wanted = {
        "C06": [(lambda r: c06.rule_conform(r, floor=0), "control_conform", "type-equality")],
        "C07": [(lambda r: c07.rule_write(r, floor=0), "Holder.control_write_input", "write:self.items"),
                (lambda r: c07.rule_global(r, floor=0), "Holder.control_write_global", "write:global:SHARED_TAGS"),
                (lambda r: c07.rule_escape(r, floor=0), "Owner.control_escape", "escape:")],
        "C17": [(lambda r: c07.rule_global(r, "C17.global", floor=0), "Holder.control_write_global", "write:global:SHARED_TAGS")],
        "C03": [(lambda r: c07.rule_escape(r, "C03.escape", floor=0), "Owner.control_escape", "escape:")],
        "C18": [(lambda r: c18.rule_simul(r, floor=0), "Predicate.change_signature", "inplace-rename:self.signature")],
    }.get(prop, [])
    done = []
    for fn, func_frag, role_frag in wanted:
        res = fn(_fixture())
        hit = [f for f in res.findings if func_frag in f.function and role_frag in f.role]
        if not hit:
            raise AnalysisError(f"positive control not detected: {res.rule} should report <{role_frag}> in {func_frag} of the fixture package "
                                f"(got {[ (f.function, f.role) for f in res.findings]})")
        # and the negative twin next to it must stay silent
        if any("fine_" in f.function for f in res.findings):
            raise AnalysisError(f"negative control flagged by {res.rule}: {[(f.function, f.role) for f in res.findings if 'fine_' in f.function]}")
        done.append(f"{res.rule}: {func_frag} <{hit[0].role}>")
    return done
