"""E9 -- dispatch-chain analyses over parsed-list handlers: no-silent-drop, head stripping, arm discovery."""
from __future__ import annotations

import ast
from typing import Callable, Dict, List, Optional, Set, Tuple

from . import cfg as C
from .core import FuncInfo, Repo, is_logging_call, names_in, parent_map, unparse

NEUTRAL_CALLS = {"len", "isinstance", "str", "type", "repr", "print", "bool"}


def head_aliases(node: ast.AST, var_src: str) -> Set[str]:
    """local names bound to <var>[0] (possibly lower-cased / stripped), e.g. `node_head = node[0]` or `head, rest = node[0], node[1:]`"""
    out: Set[str] = set()
    binds = list(C.simple_bindings(node))
    nodes = node_aliases(binds, var_src)
    for name, v, _st in binds:
        while isinstance(v, ast.Call) and isinstance(v.func, ast.Attribute) and v.func.attr in ("lower", "strip") and not v.args:
            v = v.func.value
        if isinstance(v, ast.Subscript) and isinstance(v.slice, ast.Constant) and v.slice.value == 0 and ast.unparse(v.value) in nodes:
            out.add(name)
    # copies of a head alias
    grew = True
    while grew:
        grew = False
        for name, v, _st in binds:
            if isinstance(v, ast.Name) and v.id in out and name not in out:
                out.add(name)
                grew = True
    _NODE_ALIASES[(id(node), var_src)] = nodes
    _PINNED.append(node)
    return out


_NODE_ALIASES: dict = {}
_PINNED: list = []


def node_aliases(binds, var_src: str) -> Set[str]:
    """the node variable and the plain copies of it (parameter bindings of helpers analysed in place)"""
    nodes = {var_src}
    grew = True
    while grew:
        grew = False
        for name, v, _st in binds:
            if isinstance(v, ast.Name) and v.id in nodes and name not in nodes:
                nodes.add(name)
                grew = True
    return nodes


def is_head_expr(s: ast.AST, var_src: str, aliases: Set[str], nodes: Optional[Set[str]] = None) -> bool:
    if isinstance(s, ast.Subscript) and isinstance(s.slice, ast.Constant) and s.slice.value == 0 and \
            (ast.unparse(s.value) == var_src or (nodes is not None and ast.unparse(s.value) in nodes)):
        return True
    return isinstance(s, ast.Name) and s.id in aliases


def head_tests(node: ast.AST, var_src: str, scope: Optional[ast.AST] = None) -> List[ast.AST]:
    """if statements (and conditional expressions) whose test mentions <var>[0] or a local alias of it"""
    sc = scope if scope is not None else node
    aliases = head_aliases(sc, var_src)
    nodes = _NODE_ALIASES.get((id(sc), var_src))
    out = []
    for n in ast.walk(node):
        if isinstance(n, (ast.If, ast.IfExp)):
            for s in ast.walk(n.test):
                if is_head_expr(s, var_src, aliases, nodes):
                    out.append(n)
                    break
    return out


def taint_closure(stmts: List[ast.stmt], seed: Set[str]) -> Set[str]:
    t = set(seed)
    for _ in range(5):
        for s in stmts:
            for n in ast.walk(s):
                if isinstance(n, ast.Assign) and names_in(n.value) & t:
                    for tg in n.targets:
                        t |= C.target_names(tg)
                elif isinstance(n, ast.AnnAssign) and n.value is not None and names_in(n.value) & t:
                    t |= C.target_names(n.target)
                elif isinstance(n, (ast.For, ast.comprehension)) and names_in(n.iter) & t:
                    t |= C.target_names(n.target)
    return t


def derived_names(stmts: List[ast.stmt], tainted: Set[str]) -> Set[str]:
    """names that hold the result of a (non-neutral, non-logging) call on tainted arguments: handing such a name on / returning it
    hands the processed node on"""
    out: Set[str] = set()
    for _ in range(3):
        for s in stmts:
            for n in ast.walk(s):
                if isinstance(n, (ast.Assign, ast.AnnAssign)) and n.value is not None:
                    v = n.value
                    ok = isinstance(v, ast.Name) and v.id in out
                    for c in ast.walk(v):
                        if isinstance(c, ast.Call) and not is_logging_call(c) and ast.unparse(c.func) not in NEUTRAL_CALLS and \
                                any(names_in(a) & tainted for a in list(c.args) + [k.value for k in c.keywords]):
                            ok = True
                    if ok:
                        tgts = n.targets if isinstance(n, ast.Assign) else [n.target]
                        for t in tgts:
                            out |= C.target_names(t)
    return out


_DERIVED: Set[str] = set()


def consumes(stmt: Optional[ast.AST], tainted: Set[str]) -> bool:
    """does the statement use a tainted name in a non-logging call, a store or a returned expression?"""
    if stmt is None:
        return False
    hdr = C.header(stmt)
    if hdr is None:
        return False
    for n in ast.walk(hdr):
        if isinstance(n, ast.Call) and not is_logging_call(n):
            f = ast.unparse(n.func)
            if f in NEUTRAL_CALLS:
                continue
            # only a call ON another object (a store into / delegation to something that outlives the handler) consumes
            # the node; building a value that is then thrown away does not
            if not isinstance(n.func, ast.Attribute):
                continue
            base = n.func.value
            while isinstance(base, (ast.Attribute, ast.Subscript)):
                base = base.value
            if isinstance(base, ast.Name) and base.id in tainted:
                continue
            for a in list(n.args) + [k.value for k in n.keywords]:
                if names_in(a) & tainted:
                    return True
    if isinstance(stmt, (ast.Assign, ast.AugAssign)):
        tg = stmt.targets if isinstance(stmt, ast.Assign) else [stmt.target]
        if any(isinstance(t, (ast.Attribute, ast.Subscript)) for t in tg) and names_in(stmt.value) & tainted:
            return True
    if isinstance(stmt, ast.Return) and stmt.value is not None and names_in(stmt.value) & tainted and \
            (not isinstance(stmt.value, ast.Name) or stmt.value.id in _DERIVED):
        return True
    if isinstance(stmt, ast.Assign) and len(stmt.targets) == 1 and isinstance(stmt.targets[0], ast.Name) and stmt.targets[0].id.startswith("__ret__") \
            and names_in(stmt.value) & tainted and (not isinstance(stmt.value, ast.Name) or stmt.value.id in _DERIVED):
        return True     # the `return <expr>` of a helper analysed in place
    if isinstance(stmt, ast.Expr) and isinstance(stmt.value, (ast.Yield, ast.YieldFrom)) and stmt.value.value is not None \
            and names_in(stmt.value.value) & tainted:
        return True
    return False


class DropPath:
    def __init__(self, end_kind: str, end_stmt: Optional[ast.AST], decisions: List[str]):
        self.end_kind = end_kind
        self.end_stmt = end_stmt
        self.decisions = decisions


def silent_drop_paths(body: List[ast.stmt], seed: Set[str]) -> Tuple[int, List[DropPath]]:
    """Acyclic paths through `body` (a loop body or a function body) on which the node bound to `seed` is neither
    consumed nor rejected (raise).  Returns (number of paths, offending paths)."""
    tainted = taint_closure(body, seed)
    _DERIVED.clear()
    _DERIVED.update(derived_names(body, tainted))
    g = C.build(body)
    bad: List[DropPath] = []
    npaths = 0

    def tag_update(stmt, env):
        """definition tags put next to function-valued locals by the flattener (`h__tag = 2`, copies `x__tag = h__tag`): a path
        knows which definition it passed, so `if h__tag == 1:` is decided on it"""
        if isinstance(stmt, ast.Assign) and len(stmt.targets) == 1 and isinstance(stmt.targets[0], ast.Name) and stmt.targets[0].id.endswith("__tag"):
            env = dict(env)
            v = stmt.value
            if isinstance(v, ast.Constant):
                env[stmt.targets[0].id] = v.value
            elif isinstance(v, ast.Name) and v.id in env:
                env[stmt.targets[0].id] = env[v.id]
            else:
                env.pop(stmt.targets[0].id, None)
        return env

    def tag_decides(test, env):
        if isinstance(test, ast.Compare) and len(test.ops) == 1 and isinstance(test.ops[0], (ast.Eq, ast.NotEq)) and isinstance(test.left, ast.Name) \
                and test.left.id in env and isinstance(test.comparators[0], ast.Constant):
            same = env[test.left.id] == test.comparators[0].value
            return same if isinstance(test.ops[0], ast.Eq) else not same
        return None

    def dfs(n, path, consumed, decisions, env=None):
        nonlocal npaths
        env = env or {}
        kind, stmt = g.kind[n], g.stmt[n]
        env = tag_update(stmt, env)
        if n == g.exit:
            npaths += 1
            if not consumed:
                last = [g.stmt[x] for x in path if g.stmt[x] is not None]
                bad.append(DropPath("falls off the end of the handler", last[-1] if last else None, decisions))
            return
        if n == g.raise_:
            npaths += 1
            return
        c = consumed or consumes(stmt, tainted)
        if kind == "return":
            npaths += 1
            if not c:
                bad.append(DropPath("return", stmt, decisions))
            return
        if kind == "continue":
            npaths += 1
            if not c:
                bad.append(DropPath("continue", stmt, decisions))
            return
        if kind == "break":
            npaths += 1
            if not c:
                bad.append(DropPath("break", stmt, decisions))
            return
        succs = g.succ[n]
        if not succs:
            npaths += 1
            if not c:
                bad.append(DropPath(kind, stmt, decisions))
            return
        for m, l in succs:
            if kind == "loop" and l == "iter":
                # inner loops are collapsed: their body counts as consumed iff some statement in it consumes
                inner = g.stmt[n]
                if any(consumes(s, tainted) for s in C.stmts_in(inner.body)):
                    c = True
                continue
            if m in path:
                continue
            d = decisions
            if kind == "if":
                decided = tag_decides(stmt.test, env)
                if decided is not None and l != decided:
                    continue
                d = decisions + [f"{unparse(stmt.test, 50)} -> {l}"]
            dfs(m, path + [n], c, d, env)

    dfs(g.entry, [], False, [])
    return npaths, bad


def node_loops(f: FuncInfo, min_tests: int = 2) -> List[Tuple[ast.For, str]]:
    """loops `for <v> in ...` whose body tests <v>[0] at least `min_tests` times"""
    out = []
    for n in ast.walk(f.node):
        if isinstance(n, ast.For) and isinstance(n.target, ast.Name):
            tests = head_tests(ast.Module(body=n.body, type_ignores=[]), n.target.id, scope=n)
            if len(tests) >= min_tests:
                out.append((n, n.target.id))
    return out


def node_functions(f: FuncInfo, min_tests: int = 1) -> List[str]:
    """parameters p of f such that the body tests p[0] (outside any node loop over another variable)"""
    out = []
    for p in f.params:
        if p == f.self_name:
            continue
        tests = head_tests(f.node, p)
        if len(tests) >= min_tests:
            out.append(p)
    return out


def inlined_handlers(f: FuncInfo, min_tests: int = 1) -> List[Tuple[str, List[ast.stmt], str]]:
    """(helper name, statements, local name bound to the helper's node parameter) for helpers analysed in place whose body
    tests the head of one of their parameters"""
    out = []
    for qn, binds, stmts in getattr(f, "inlined_bodies", []) or []:
        mod = ast.Module(body=list(stmts), type_ignores=[])
        for orig, name in binds.items():
            if len(head_tests(mod, name)) >= min_tests:
                out.append((f"{qn.split('::')[-1]}({orig})", list(stmts), name))
    return out
