"""Findings, rule results, evidence files, known-findings matching, exit-code discipline."""
from __future__ import annotations

import json
import os
import pathlib
import time
from typing import Dict, List, Optional

VERIF = pathlib.Path(__file__).resolve().parent.parent
EVIDENCE_DIR = VERIF / "evidence"
KNOWN_FILE = VERIF / "known_findings.json"


class Finding:
    def __init__(self, rule: str, func, role: str, what: str, node=None, latent: bool = False, extra: Optional[dict] = None):
        """func: FuncInfo or (module_short, qualified function name, path)"""
        self.rule = rule
        if hasattr(func, "qn"):
            self.module = func.mod.short
            self.function = func.qn.split("::", 1)[1]
            self.file = str(func.mod.path)
            line = getattr(node, "lineno", None) or func.node.lineno
        else:
            self.module, self.function, self.file = func
            line = getattr(node, "lineno", 0) if node is not None else 0
        self.line = line
        self.role = role
        self.what = what
        self.latent = latent
        self.extra = extra or {}

    def key(self, prop: str):
        return (prop, self.rule, self.module, self.function, self.role)

    def as_dict(self, prop: str) -> dict:
        d = dict(property=prop, rule=self.rule, module=self.module, function=self.function, role=self.role,
                 what=self.what, file=self.file, line=self.line, latent=self.latent)
        d.update(self.extra)
        return d

    def __str__(self):
        return f"{self.file}:{self.line}: [{self.rule}] {self.module}::{self.function} <{self.role}> {self.what}"


class RuleResult:
    def __init__(self, rule: str, description: str, oracle: str = ""):
        self.rule = rule
        self.description = description
        self.oracle = oracle
        self.sites: List[str] = []
        self.obligations = 0
        self.discharged = 0
        self.findings: List[Finding] = []
        self.samples: List[object] = []
        self.notes: List[str] = []
        self.floor = 0

    def site(self, s: str):
        self.sites.append(s)

    def as_rule(self, new_rule: str) -> "RuleResult":
        """the same result reported under another property's rule id (shared clauses)"""
        self.rule = new_rule
        for f in self.findings:
            f.rule = new_rule
        return self

    def ok(self, sample=None, n: int = 1):
        self.obligations += n
        self.discharged += n
        if sample is not None and len(self.samples) < 12:
            self.samples.append(sample)

    def fail(self, finding: Finding, sample=None):
        self.obligations += 1
        self.findings.append(finding)
        if sample is not None and len(self.samples) < 12:
            self.samples.append(sample)

    def require_sites(self, floor: int):
        from .core import AnalysisError
        self.floor = floor
        if len(self.sites) < floor:
            raise AnalysisError(f"rule {self.rule}: found {len(self.sites)} sites, floor is {floor} "
                                f"(sites: {self.sites}) -- the anchors this rule needs have vanished")

    def as_dict(self, prop: str) -> dict:
        return dict(rule=self.rule, description=self.description, oracle=self.oracle, sites=self.sites,
                    floor=self.floor, obligations=self.obligations, discharged=self.discharged,
                    findings=[f.as_dict(prop) for f in self.findings], notes=self.notes)


def load_known() -> List[dict]:
    if not KNOWN_FILE.exists():
        return []
    data = json.loads(KNOWN_FILE.read_text())
    return data.get("findings", [])


def match_known(prop: str, finding: Finding, known: List[dict]) -> Optional[dict]:
    for k in known:
        if k.get("status") != "known":
            continue  # 'fixed' entries suppress nothing
        if (k["property"], k["rule"], k["module"], k["function"], k["role"]) == finding.key(prop):
            return k
    return None


def write_evidence(prop: str, tier: str, seed: int, results: List[RuleResult], wall: float, new: List[Finding],
                   known_hits: List[Finding], explanation: str, undecided: str, repo_stats: dict,
                   extra: Optional[dict] = None) -> pathlib.Path:
    EVIDENCE_DIR.mkdir(exist_ok=True)
    obligations = sum(r.obligations for r in results)
    discharged = sum(r.discharged for r in results)
    samples = []
    for r in results:
        for s in r.samples[:4]:
            samples.append({"rule": r.rule, "obligation": s})
    distinct_sites = sorted({s for r in results for s in r.sites})
    cov = {
        "explanation": explanation,
        "undecided": undecided,
        "obligations": obligations,
        "discharged": discharged,
        "evaluations": max(obligations, 1),
        "distinct_nontrivial": max(len(distinct_sites), 0),
        "rule": "one obligation per (rule, site) pair derived from the current source; distinct = distinct analysed "
                "sites (functions, call sites, table entries, dispatch arms)",
        "samples": samples or [{"note": "no obligations"}],
        "rules": [r.as_dict(prop) for r in results],
        "sites_analysed": distinct_sites,
        "known_findings_present": [f.as_dict(prop) for f in known_hits],
        "new_findings": [f.as_dict(prop) for f in new],
        "resolution": repo_stats,
        "exhaustive": False,
    }
    if extra:
        cov.update(extra)
    ev = {
        "property_id": prop,
        "tier": tier,
        "seed": seed,
        "level": "other",
        "coverage": cov,
        "assumptions": [
            "the source files under /repo/pddl_plus_parser are what is executed (no monkey patching, no import hooks)",
            "Python semantics of the constructs interpreted by the analyses (ast of CPython 3.12)",
            "clauses listed under 'undecided' are not covered by this check",
        ],
        "wall_s": round(wall, 3),
        "violations": len(new),
    }
    p = EVIDENCE_DIR / f"{prop}.json"
    p.write_text(json.dumps(ev, indent=1, default=str))
    return p


def write_replay(prop: str, idx: int, finding: Finding, root: str) -> pathlib.Path:
    d = EVIDENCE_DIR / "replay"
    d.mkdir(parents=True, exist_ok=True)
    p = d / f"{prop}-{idx}.json"
    p.write_text(json.dumps(dict(finding.as_dict(prop), root=root,
                                 how_to_replay=f"/venv/bin/python /verif/check {prop} --replay {p}"), indent=1))
    return p
