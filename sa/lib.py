"""Shared queries used by the rule modules."""
from __future__ import annotations

import ast
from typing import Callable, Dict, Iterable, Iterator, List, Optional, Set, Tuple

from . import cfg as C
from .core import AnalysisError, FuncInfo, Repo, is_logging_call, names_in, unparse
from .prov import Prov, callee_name

_prov_cache: Dict[str, Prov] = {}


def prov(repo: Repo, f: FuncInfo) -> Prov:
    k = f"{id(repo)}:{f.qn}#{id(f.node)}"
    if k not in _prov_cache:
        C.pin((repo, f.node))
        _prov_cache[k] = Prov(repo, f)
    return _prov_cache[k]


def table(repo: Repo, modsuffix: str, name: str) -> Dict[object, ast.AST]:
    """A module-level dict literal as {folded key: value node}."""
    m = repo.module(modsuffix)
    node = repo.const_node(m.name, name)
    if node is None:
        raise AnalysisError(f"anchor table {modsuffix}.{name} not found")
    if not isinstance(node, ast.Dict):
        raise AnalysisError(f"{modsuffix}.{name} is not a dict literal ({type(node).__name__}); table rules cannot read it")
    out = {}
    for k, v in zip(node.keys, node.values):
        if k is None:
            raise AnalysisError(f"{modsuffix}.{name}: ** expansion in table is not interpreted")
        ok, kv = repo.fold(k, m.name)
        if not ok:
            # class objects as keys (sympy table): use the source text
            kv = ast.unparse(k)
        out[kv] = v
    return out


def const_list(repo: Repo, modsuffix: str, name: str) -> List[object]:
    m = repo.module(modsuffix)
    ok, v = repo.const_value(m.name, name)
    if not ok:
        raise AnalysisError(f"anchor constant {modsuffix}.{name} cannot be folded")
    return v if isinstance(v, list) else [v]


def calls_in(node: ast.AST) -> Iterator[ast.Call]:
    for n in ast.walk(node):
        if isinstance(n, ast.Call):
            yield n


def calls_named(f: FuncInfo, name: str) -> List[ast.Call]:
    return [c for c in calls_in(f.node) if callee_name(c) == name]


def arg_of(call: ast.Call, callee: Optional[FuncInfo], pname: str, pos_fallback: Optional[int] = None) -> Optional[ast.AST]:
    """The argument expression bound to parameter `pname` of the callee at this call."""
    for k in call.keywords:
        if k.arg == pname:
            return k.value
    if callee is not None:
        params = list(callee.params)
        if callee.is_method:
            params = params[1:]
        if pname in params:
            i = params.index(pname)
            if i < len(call.args):
                return call.args[i]
        return None
    if pos_fallback is not None and pos_fallback < len(call.args):
        return call.args[pos_fallback]
    return None


def is_true_const(e: Optional[ast.AST]) -> Optional[bool]:
    if isinstance(e, ast.Constant) and isinstance(e.value, bool):
        return e.value
    return None


def enclosing_stmt_node(p: Prov, node: ast.AST) -> int:
    return p.node_of(node)


def func_returns(f: FuncInfo) -> List[ast.Return]:
    return [n for n in ast.walk(f.node) if isinstance(n, ast.Return)]


def raises_in(stmts: Iterable[ast.stmt]) -> bool:
    return any(isinstance(s, ast.Raise) for s in C.stmts_in(list(stmts)))


def subscript0_of(e: ast.AST) -> Optional[ast.AST]:
    """X[0] -> X"""
    if isinstance(e, ast.Subscript) and isinstance(e.slice, ast.Constant) and e.slice.value == 0:
        return e.value
    return None


def loc(f: FuncInfo, node: ast.AST) -> str:
    return f"{f.mod.path}:{getattr(node, 'lineno', f.node.lineno)}"


def site(f: FuncInfo, node: Optional[ast.AST] = None, what: str = "") -> str:
    s = f.qn
    if node is not None:
        s += f"@{unparse(node, 60)}"
    if what:
        s += f" [{what}]"
    return s


# --------------------------------------------------------------------------- guard valuation helper (E3)
CONTENT_ADDERS = ("append", "add", "extend", "update", "insert", "setdefault", "appendleft")
_rd_cache: Dict[int, C.ReachingDefs] = {}
_pm_cache: Dict[int, dict] = {}


def rd_of(f: FuncInfo) -> C.ReachingDefs:
    k = id(f.node)
    if k not in _rd_cache:
        C.pin(f.node)
        _rd_cache[k] = C.ReachingDefs(C.cfg_of(f.node), f.params)
    return _rd_cache[k]


def parents_of(f: FuncInfo) -> dict:
    k = id(f.node)
    if k not in _pm_cache:
        C.pin(f.node)
        from .core import parent_map
        _pm_cache[k] = parent_map(f.node)
    return _pm_cache[k]


def _is_empty_literal(v: ast.AST) -> bool:
    if isinstance(v, (ast.List, ast.Set, ast.Tuple)) and not v.elts:
        return True
    if isinstance(v, ast.Dict) and not v.keys:
        return True
    return isinstance(v, ast.Call) and isinstance(v.func, ast.Name) and v.func.id in ("list", "set", "dict", "tuple", "deque") \
        and not v.args and not v.keywords


def _is_none(e: ast.AST) -> bool:
    return isinstance(e, ast.Constant) and e.value is None


class Guards:
    """Reachability of statements of one function under valuations of named boolean atoms.

    Beyond the tests themselves the valuation is propagated
      * through local boolean names: a name in a test evaluates to the common value of its reaching definitions that are
        themselves reachable under the valuation (`ok = x.holds(); if not ok: continue`, `if c: ok = True else: ok = False`);
      * through emptiness: the body of a `for` over a comprehension / filter whose condition is false, or over a local list that
        starts empty and whose append / add statements are all unreachable, is not entered;
    both by a decreasing fixpoint that starts from plain valuation-directed reachability (so every step only removes nodes that
    are unreachable in an over-approximation)."""

    def __init__(self, f: FuncInfo, matcher: Callable[[ast.AST], Optional[str]]):
        self.f = f
        self.g = C.cfg_of(f.node)
        self.matcher = matcher
        self.atoms_seen: Set[str] = set()
        for n in ast.walk(f.node):
            a = matcher(n)
            if a:
                self.atoms_seen.add(a.lstrip("!"))
        self._adders: Optional[Dict[str, List[int]]] = None
        self._edges_of: Dict[frozenset, Dict[int, List[int]]] = {}      # nodes reached under a valuation -> feasible predecessor map
        self._defnodes: Optional[Dict[str, Set[int]]] = None

    # -- helpers
    def _defs(self, rd, at: int, name: str, seen: Optional[Set[int]], vkey=None) -> Set[int]:
        """definitions of `name` that reach node `at`; when the edges followed under the valuation are known, only along those (a
        definition that is overwritten on every path the valuation leaves open does not reach)"""
        allr = rd.defs_reaching(at, name)
        if seen is None:
            return allr
        preds = self._edges_of.get((vkey, frozenset(seen))) if vkey is not None else None
        if preds is None:
            return {d for d in allr if d in seen}
        if self._defnodes is None:
            self._defnodes = {}
            for n in self.g.nodes():
                names = set(rd.params) if n == self.g.entry else C.defs_of(self.g.stmt[n])
                for x in names:
                    self._defnodes.setdefault(x, set()).add(n)
        dn = self._defnodes.get(name, set())
        out, done, stack = set(), set(), list(preds.get(at, []))
        while stack:
            u = stack.pop()
            if u in done:
                continue
            done.add(u)
            if u in dn:
                out.add(u)
                continue
            stack.extend(preds.get(u, []))
        return out & allr

    def _content_adders(self) -> Dict[str, List[int]]:
        if self._adders is None:
            self._adders = {}
            g = self.g
            for n in g.nodes():
                st = g.stmt[n]
                h = C.header(st) if st is not None else None
                if h is None:
                    continue
                for nd in ast.walk(h):
                    if isinstance(nd, ast.Call) and isinstance(nd.func, ast.Attribute) and isinstance(nd.func.value, ast.Name) \
                            and nd.func.attr in CONTENT_ADDERS:
                        self._adders.setdefault(nd.func.value.id, []).append(n)
                if isinstance(st, ast.Assign):
                    for t in st.targets:
                        if isinstance(t, ast.Subscript) and isinstance(t.value, ast.Name):
                            self._adders.setdefault(t.value.id, []).append(n)
                if isinstance(st, ast.AugAssign) and isinstance(st.target, ast.Name):
                    self._adders.setdefault(st.target.id, []).append(n)
        return self._adders

    @staticmethod
    def _vkey(valuation) -> frozenset:
        return frozenset(valuation.items())

    def _val(self, valuation: Dict[str, bool], seen: Optional[Set[int]]):
        vkey = self._vkey(valuation)
        rd = rd_of(self.f)
        g = self.g
        memo: Dict[int, Optional[bool]] = {}

        def node_of(e):
            return g.node_containing(e)

        def val(e):
            a = self.matcher(e)
            if a is not None:
                if a.lstrip("!") in valuation:
                    v = valuation[a.lstrip("!")]
                    return (not v) if a.startswith("!") else v
                return None
            if isinstance(e, ast.Compare) and len(e.ops) == 1 and isinstance(e.ops[0], (ast.Is, ast.IsNot)) and seen is not None \
                    and isinstance(e.left, ast.Name) and (isinstance(e.comparators[0], ast.Name) or _is_none(e.comparators[0])):
                # `x is SENTINEL` / `x is not SENTINEL` with SENTINEL a global name or None: decided when every definition of x that
                # can reach the test under the valuation is (a copy of) that very sentinel, or none of them can be it
                x, s_ = e.left, e.comparators[0]
                nx = node_of(x)
                if nx is None or not rd.defs_reaching(nx, x.id):
                    return None
                if isinstance(s_, ast.Name):
                    ns = node_of(s_)
                    if rd.defs_reaching(ns if ns is not None else nx, s_.id):
                        return None
                    is_it = lambda o: isinstance(o, ast.Name) and o.id == s_.id
                    cannot_be = lambda o: not isinstance(o, ast.Name)
                else:
                    is_it = _is_none
                    cannot_be = lambda o: (isinstance(o, ast.Constant) and o.value is not None) or isinstance(
                        o, (ast.List, ast.Dict, ast.Set, ast.Tuple, ast.ListComp, ast.SetComp, ast.DictComp, ast.JoinedStr, ast.Compare, ast.Lambda))
                origins = self._origins(x, nx, seen, rd, 0, vkey)
                if origins is not None:
                    if all(is_it(o) for o in origins):
                        return isinstance(e.ops[0], ast.Is)
                    if all(cannot_be(o) for o in origins):
                        return isinstance(e.ops[0], ast.IsNot)
                return None
            if isinstance(e, ast.Compare) and len(e.ops) == 1 and isinstance(e.ops[0], (ast.Eq, ast.NotEq)) and seen is not None \
                    and isinstance(e.left, ast.Name) and isinstance(e.comparators[0], ast.Constant) and not isinstance(e.comparators[0].value, bool):
                # `tag == 3`: decided when every definition of the name that reaches under the valuation is a constant
                nx = node_of(e.left)
                if nx is not None and rd.defs_reaching(nx, e.left.id):
                    origins = self._origins(e.left, nx, seen, rd, 0, vkey)
                    if origins is not None and all(isinstance(o, ast.Constant) for o in origins):
                        same = [o.value == e.comparators[0].value for o in origins]
                        if all(same):
                            return isinstance(e.ops[0], ast.Eq)
                        if not any(same):
                            return isinstance(e.ops[0], ast.NotEq)
                return None
            if isinstance(e, ast.Name) and seen is not None and isinstance(e.ctx, ast.Load):
                k = id(e)
                if k in memo:
                    return memo[k]
                memo[k] = None
                n = node_of(e)
                if n is None:
                    return None
                vals = set()
                for d in self._defs(rd, n, e.id, seen, vkey):
                    st = g.stmt[d]
                    if isinstance(st, (ast.Assign, ast.AnnAssign)) and st.value is not None and \
                            (isinstance(st, ast.AnnAssign) or (len(st.targets) == 1 and isinstance(st.targets[0], ast.Name))):
                        vals.add(C.eval3(st.value, val))
                    else:
                        vals.add(None)
                out = vals.pop() if len(vals) == 1 else None
                memo[k] = out
                return out
            return None

        return val

    def _origins(self, x: ast.Name, at: int, seen: Set[int], rd, depth: int, vkey=None):
        """the defining expressions of a local name reachable under the valuation (copies followed); None when not resolvable"""
        if depth > 6:
            return None
        out = []
        for d in self._defs(rd, at, x.id, seen, vkey):
            st = self.g.stmt[d]
            if d == self.g.entry or not isinstance(st, (ast.Assign, ast.AnnAssign)) or st.value is None:
                return None
            if isinstance(st, ast.Assign) and not (len(st.targets) == 1 and isinstance(st.targets[0], ast.Name)):
                return None
            v = st.value
            if isinstance(v, ast.Name) and rd.defs_reaching(d, v.id):
                sub = self._origins(v, d, seen, rd, depth + 1, vkey)
                if sub is None:
                    return None
                out += sub
            else:
                out.append(v)
        return out or None

    def _empty(self, it: ast.AST, at: int, val, seen: Set[int], depth: int = 0) -> bool:
        if depth > 4:
            return False
        if isinstance(it, (ast.ListComp, ast.SetComp, ast.GeneratorExp, ast.DictComp)):
            for gen in it.generators:
                if any(C.eval3(c, val) is False for c in gen.ifs):
                    return True
            return self._empty(it.generators[0].iter, at, val, seen, depth + 1)
        if isinstance(it, ast.Call) and isinstance(it.func, ast.Name):
            if it.func.id == "filter" and len(it.args) == 2 and isinstance(it.args[0], ast.Lambda):
                return C.eval3(it.args[0].body, val) is False or self._empty(it.args[1], at, val, seen, depth + 1)
            if it.func.id in ("list", "set", "sorted", "tuple", "reversed", "enumerate", "iter") and it.args:
                return self._empty(it.args[0], at, val, seen, depth + 1)
        if _is_empty_literal(it):
            return True
        if isinstance(it, ast.Name):
            rd = rd_of(self.f)
            defs = [d for d in rd.defs_reaching(at, it.id) if d in seen]
            if not defs:
                return False
            for d in defs:
                st = self.g.stmt[d]
                if not (isinstance(st, (ast.Assign, ast.AnnAssign)) and st.value is not None):
                    return False
                v = st.value
                if isinstance(st, ast.Assign) and isinstance(st.targets[0], (ast.Tuple, ast.List)):
                    # positional unpacking of a tuple display, possibly handed over through a name (`r = (a, b); x, y = r`)
                    idx = [i for i, t in enumerate(st.targets[0].elts) if isinstance(t, ast.Name) and t.id == it.id]
                    if not idx or len(st.targets) != 1:
                        return False
                    packs = [(v, d)]
                    if isinstance(v, ast.Name):
                        packs = []
                        for d2 in rd.defs_reaching(d, v.id):
                            if d2 not in seen:
                                continue
                            st2 = self.g.stmt[d2]
                            if not (isinstance(st2, ast.Assign) and len(st2.targets) == 1 and isinstance(st2.targets[0], ast.Name)):
                                return False
                            packs.append((st2.value, d2))
                        if not packs:
                            return False
                    for pv, pd in packs:
                        if not (isinstance(pv, (ast.Tuple, ast.List)) and len(pv.elts) == len(st.targets[0].elts)):
                            return False
                        if not self._empty(pv.elts[idx[0]], pd, val, seen, depth + 1):
                            return False
                    continue
                if not self._empty(v, d, val, seen, depth + 1):
                    return False
            if any(n in seen for n in self._content_adders().get(it.id, [])):
                return False
            return True
        return False

    def reach(self, valuation: Dict[str, bool], avoid: Iterable[int] = (), start: Optional[int] = None) -> Set[int]:
        g = self.g
        avoid = set(avoid)
        def remember(nodes, edges):
            if start is None and not avoid:       # from a later start (or around avoided nodes) definitions made elsewhere would be lost
                preds: Dict[int, List[int]] = {}
                for a, b in edges:
                    preds.setdefault(b, []).append(a)
                self._edges_of[(self._vkey(valuation), frozenset(nodes))] = preds

        edges: Set[Tuple[int, int]] = set()
        seen = C.reach_under(g, self._val(valuation, None), start=start, avoid=avoid, edges=edges)
        remember(seen, edges)
        for _ in range(6):
            val = self._val(valuation, seen)
            dead_loops = set()
            for n in seen:
                st = g.stmt[n]
                if g.kind[n] == "loop" and isinstance(st, ast.For) and self._empty(st.iter, n, val, seen):
                    dead_loops.add(n)
            edges = set()
            new = C.reach_under(g, val, start=start, avoid=avoid, no_iter=dead_loops, edges=edges)
            if new == seen:
                remember(new, edges)
                break
            seen = new
            remember(seen, edges)
        return seen

    def reaches_expr(self, valuation: Dict[str, bool], expr: ast.AST, avoid: Iterable[int] = (), seen: Optional[Set[int]] = None) -> bool:
        """is the evaluation of this sub-expression reachable? (statement reachable and not cut off by an enclosing conditional
        expression / short-circuit operand / comprehension filter that the valuation decides)"""
        if seen is None:
            seen = self.reach(valuation, avoid)
        n = self.g.node_containing(expr)
        if n is None or n not in seen:
            return False
        val = self._val(valuation, seen)
        pm = parents_of(self.f)
        cur = expr
        while cur in pm and not isinstance(cur, ast.stmt):
            par = pm[cur]
            if isinstance(par, ast.IfExp) and cur is not par.test:
                t = C.eval3(par.test, val)
                if t is not None and (cur is par.body) != t:
                    return False
            if isinstance(par, ast.BoolOp):
                i = next(k for k, v in enumerate(par.values) if v is cur)
                for prev in par.values[:i]:
                    pv = C.eval3(prev, val)
                    if (isinstance(par.op, ast.And) and pv is False) or (isinstance(par.op, ast.Or) and pv is True):
                        return False
            if isinstance(par, (ast.ListComp, ast.SetComp, ast.GeneratorExp, ast.DictComp)) and not isinstance(cur, ast.comprehension):
                for gen in par.generators:
                    if any(C.eval3(c, val) is False for c in gen.ifs):
                        return False
            cur = par
        return True

    def node_of_expr(self, e: ast.AST) -> Optional[int]:
        return self.g.node_containing(e)

    def under(self, valuation: Dict[str, bool], seen: Optional[Set[int]] = None):
        """(val, seen) for Prov.trace(..., under=...)"""
        if seen is None:
            seen = self.reach(valuation)
        return self._val(valuation, seen), seen

    def value(self, valuation: Dict[str, bool], expr: ast.AST, seen: Optional[Set[int]] = None):
        """the value of a boolean expression under the valuation: True / False / the single residual sub-expression that decides it
        / None when more than one undecided operand remains"""
        if seen is None:
            seen = self.reach(valuation)
        val = self._val(valuation, seen)

        def simp(e):
            v = C.eval3(e, val)
            if v is not None:
                return v
            if isinstance(e, ast.BoolOp):
                rest = []
                for x in e.values:
                    sx = simp(x)
                    if isinstance(e.op, ast.Or):
                        if sx is True:
                            return True if not rest else None
                        if sx is False:
                            continue
                    else:
                        if sx is False:
                            return False if not rest else None
                        if sx is True:
                            continue
                    if sx is None:
                        return None
                    rest.append(sx)
                if not rest:
                    return isinstance(e.op, ast.And)
                return rest[0] if len(rest) == 1 else None
            if isinstance(e, ast.IfExp):
                t = simp(e.test)
                if t is True:
                    return simp(e.body)
                if t is False:
                    return simp(e.orelse)
                return None
            if isinstance(e, ast.UnaryOp) and isinstance(e.op, ast.Not):
                x = simp(e.operand)
                return (not x) if isinstance(x, bool) else None
            if isinstance(e, ast.Name) and isinstance(e.ctx, ast.Load):
                n = self.g.node_containing(e)
                rd = rd_of(self.f)
                ds = [d for d in rd.defs_reaching(n, e.id) if d in seen] if n is not None else []
                if len(ds) == 1 and isinstance(self.g.stmt[ds[0]], (ast.Assign, ast.AnnAssign)) and self.g.stmt[ds[0]].value is not None:
                    return simp(self.g.stmt[ds[0]].value)
                return e
            return e

        return simp(expr)


def bool_param_atoms(names: Dict[str, str]) -> Callable[[ast.AST], Optional[str]]:
    """matcher for parameters used as booleans: {param name: atom name}"""

    def m(e):
        if isinstance(e, ast.Name) and e.id in names:
            return names[e.id]
        return None

    return m


def explicit_raises(g: C.CFG) -> List[int]:
    return [n for n in g.nodes() if g.kind[n] == "raise"]


def fn(repo: Repo, spec: str, depth: int = 8, also=None) -> FuncInfo:
    """the function with its private helpers inlined (sa.inline); findings are reported against `spec`"""
    from .inline import flatten
    return flatten(repo, repo.func(spec), depth, also)


def calls_reaching(repo: Repo, f: FuncInfo, names: Iterable[str], depth: int = 3) -> List[ast.Call]:
    """calls in f whose callee is one of `names` or a repository function that (transitively, up to `depth`) calls one of them"""
    names = set(names)
    memo: Dict[str, bool] = {}

    def reaches(t: FuncInfo, d: int) -> bool:
        if t.qn in memo:
            return memo[t.qn]
        memo[t.qn] = False
        out = False
        for c in calls_in(t.node):
            if callee_name(c) in names:
                out = True
                break
            if d > 0:
                _cat, tg = repo.resolve_call(t, c)
                if any(x is not None and reaches(x, d - 1) for _k, x, _c in tg):
                    out = True
                    break
        memo[t.qn] = out
        return out

    res = []
    for c in calls_in(f.node):
        if callee_name(c) in names:
            res.append(c)
            continue
        _cat, tg = repo.resolve_call(f, c)
        if any(x is not None and x.qn != f.qn and reaches(x, depth - 1) for _k, x, _c in tg):
            res.append(c)
    return res


def is_param(p: Prov, e: ast.AST, name: str) -> bool:
    """the expression is (a local alias of) the parameter `name` of the analysed function"""
    if not (isinstance(e, ast.Name) and isinstance(e.ctx, ast.Load)):
        return False
    if e.id == name:
        try:
            tr = p.trace(e)
        except KeyError:
            return False
        return bool(tr) and all(x == (f"param:{name}",) for x in tr)
    if not e.id.split("__i")[0]:
        return False
    try:
        tr = p.trace(e)
    except KeyError:
        return False
    return bool(tr) and all(x == (f"param:{name}",) for x in tr)


def aliases(f: FuncInfo, names: Iterable[str]) -> Set[str]:
    """local names bound by plain copies `x = y` (also the parameter bindings of inlined helpers) to one of `names`"""
    out = set(names)
    changed = True
    while changed:
        changed = False
        for n in ast.walk(f.node):
            if isinstance(n, (ast.Assign, ast.AnnAssign)) and isinstance(n.value, ast.Name) and n.value.id in out:
                tgts = n.targets if isinstance(n, ast.Assign) else [n.target]
                for t in tgts:
                    if isinstance(t, ast.Name) and t.id not in out:
                        out.add(t.id)
                        changed = True
    return out


def private_helpers_of(repo: Repo, allowed_shorts: Iterable[str]) -> Set[str]:
    """qualified names of private functions that are only ever called (transitively) from the given functions: they are part of
    the same unit -- a maintainer may split an allowed function into helpers without leaving the layer"""
    allowed = {f.qn for f in repo.all_funcs() if f.qn.split("::", 1)[1] in set(allowed_shorts) or (f.cls and f.cls in set(allowed_shorts))}
    callers = repo.callers()
    changed = True
    while changed:
        changed = False
        for f in repo.all_funcs():
            if f.qn in allowed or not f.name.startswith("_") or f.name.startswith("__"):
                continue
            cs = callers.get(f.qn, set()) - {f.qn}
            if cs and cs <= allowed:
                allowed.add(f.qn)
                changed = True
    return allowed


def map_entries(paths) -> Set[Tuple[str, tuple]]:
    """what a mapping value consists of, whatever way it was written:  {k: v for ...} / dict(zip(a, b)) / d[k] = v in a loop /
    {**m, k: v} / m.copy().   Returns {('key' | 'value', source path)} where a component of zip(a0, a1) is (<a_i path>, 'zip<i>')
    and other sources keep their provenance path."""
    out: Set[Tuple[str, tuple]] = set()

    def norm(src: tuple) -> tuple:
        # (A.., 'argN:zip', 'elem', 'unpack:N') -> (A.., 'zipN')
        s = list(src)
        for i in range(len(s) - 2):
            if s[i].startswith("arg") and s[i].endswith(":zip") and s[i + 1] == "elem" and s[i + 2].startswith("unpack:"):
                return tuple(s[:i]) + (f"zip{s[i][3:-4]}",) + tuple(s[i + 3:])
        return tuple(s)

    for p in paths:
        p = tuple(x for x in p if not x.startswith(("call:copy", "arg0:dict")) or x == "arg0:dict" and False)
        p = tuple(x for x in p if x not in ("in:**",))
        kind = None
        cut = None
        for i, st in enumerate(p):
            # the outermost container decides (the last marker on the path)
            if st == "in:key" or st.startswith("in:setkey@"):
                kind, cut = "key", i
            if st == "in:value" or st.startswith(("in:setitem@", "in:setval@")):
                kind, cut = "value", i
        if kind is not None:
            out.add((kind, norm(p[:cut])))
            continue
        # dict(zip(a, b)):  (A.., 'argN:zip')  [the arg0:dict step was removed above]
        if p and p[-1].startswith("arg") and p[-1].endswith(":zip"):
            n = p[-1][3:-4]
            out.add(("key" if n == "0" else "value", tuple(p[:-1]) + (f"zip{n}",)))
            continue
        if len(p) == 1 and p[0].startswith("fresh:"):
            continue
        out.add(("whole", p))
    return out


def container_additions(f: FuncInfo, is_target: Callable[[ast.AST], bool]):
    """every way elements are put into the container(s) selected by `is_target(receiver expression)`:
    yields (element expression, comprehension filters, site node) for  X.add(e) / X.append(e) / X.update(<comp>) / X.extend(<comp>) /
    X.update([e, ..]) / X |= <comp> / X = <comp> / X = {e, ..}"""
    out = []

    def from_value(v, site):
        if isinstance(v, (ast.ListComp, ast.SetComp, ast.GeneratorExp)):
            conds = [c for g_ in v.generators for c in g_.ifs]
            out.append((v.elt, conds, site, v))
        elif isinstance(v, (ast.List, ast.Set, ast.Tuple)):
            for e in v.elts:
                out.append((e, [], site, None))
        elif isinstance(v, ast.Call) and isinstance(v.func, ast.Name) and v.func.id in ("set", "list", "frozenset", "tuple") and len(v.args) == 1:
            from_value(v.args[0], site)
        else:
            out.append((v, None, site, None))      # conds None: not an element-wise form

    for n in ast.walk(f.node):
        if isinstance(n, ast.Call) and isinstance(n.func, ast.Attribute) and is_target(n.func.value):
            if n.func.attr in ("add", "append") and len(n.args) == 1:
                out.append((n.args[0], [], n, None))
            elif n.func.attr in ("update", "extend") and len(n.args) == 1:
                from_value(n.args[0], n)
        elif isinstance(n, ast.AugAssign) and isinstance(n.op, (ast.BitOr, ast.Add)) and is_target(n.target):
            from_value(n.value, n)
        elif isinstance(n, ast.Assign) and any(is_target(t) for t in n.targets):
            from_value(n.value, n)
    return out


def roots(repo: Repo, modules: Iterable[str]) -> List[FuncInfo]:
    """the functions of the given modules as analysis units: every function flattened, minus the private helpers that are
    analysed in place inside some other unit (so a helper is always seen in the context it is called from)"""
    from .inline import flatten
    mods = [repo.module(m) for m in modules]
    flats = [flatten(repo, f) for f in repo.all_funcs() if f.mod in mods]
    inlined = set()
    for ff in flats:
        inlined |= set(getattr(ff, "inlined", ()))
    return [ff for ff in flats if ff.qn not in inlined]


def has_pos(path, i: int) -> bool:
    """the path takes the i-th component of a sequence: by index X[i] or by unpacking  a, b, c = X"""
    return f"item:{i}" in path or f"unpack:{i}" in path


def must_pass_in_loop(G: "Guards", valuation: Dict[str, bool], loop: ast.AST, targets: Iterable[int]) -> bool:
    """under the valuation, does every way through one iteration of `loop` (from the start of its body to the next iteration, to
    the code after the loop or to a return) pass one of the `targets` nodes?  Paths that end in `raise` are fine."""
    g = G.g
    head = g.node_of(loop)
    targets = set(targets)
    inside = set()
    for x in ast.walk(loop):
        if isinstance(x, ast.stmt) and x is not loop:
            n = g.node_of(x)
            if n is not None:
                inside.add(n)
        if isinstance(x, ast.ExceptHandler):
            n = g.node_of(x)
            if n is not None:
                inside.add(n)
    starts = [m for m, l in g.succ[head] if l == "iter"]
    for s_ in starts:
        if s_ in targets:
            continue
        seen = G.reach(valuation, avoid=targets, start=s_)
        for n in seen:
            if n == head or (n not in inside and n != g.raise_):
                return False
    return True


def leaves_loop_early(G: "Guards", valuation: Dict[str, bool], loop: ast.AST) -> bool:
    """under the valuation, can one iteration of `loop` end the loop (break / return) instead of going on with the next element?
    (raising is not counted)"""
    g = G.g
    head = g.node_of(loop)
    inside = set()
    for x in ast.walk(loop):
        if isinstance(x, (ast.stmt, ast.ExceptHandler)) and x is not loop:
            n = g.node_of(x)
            if n is not None:
                inside.add(n)
    for s_ in [m for m, l in g.succ[head] if l == "iter"]:
        seen = G.reach(valuation, avoid={head}, start=s_)
        if any(n not in inside and n != g.raise_ for n in seen):
            return True
    return False


def unthreaded_options(repo: Repo, f: FuncInfo, pname: str):
    """calls in f (a function that has the parameter `pname`) of repository functions that also have a parameter `pname` but are not
    handed f's own value: the callee then falls back to its default.  Yields (call, callee, what was passed)."""
    if pname not in f.params:
        return
    p = prov(repo, f)
    for c in calls_in(f.node):
        _cat, tg = repo.resolve_call(f, c)
        for _k, t, _c in tg:
            if t is None or pname not in t.params:
                continue
            a = arg_of(c, t, pname)
            if a is None:
                yield c, t, None
                continue
            try:
                tr = p.trace(a)
            except KeyError:
                continue
            if not any(x[0] == f"param:{pname}" for x in tr):
                yield c, t, unparse(a, 40)


def emptiness_matcher(p: Prov, roots: Dict[str, str]):
    """atom function for Guards: tests of whether a collection PARAMETER is empty.  `roots` maps a provenance root ('param:xs') to the
    atom name; the atom is True when the collection is EMPTY.  Recognised: `not xs`, `xs` (truth value), `len(xs) == 0 / != 0 / > 0 / < 1 /
    >= 1 / <= 0`, `xs == []` -- over any alias of the parameter"""
    def root_of(e):
        try:
            tr = p.trace(e)
        except (KeyError, RecursionError):
            return None
        if tr and len({x for x in tr}) == 1:
            (x,) = tuple(tr)
            if len(x) == 1 and x[0] in roots:
                return roots[x[0]]
        return None

    def matcher(e):
        if isinstance(e, ast.Name) and isinstance(e.ctx, ast.Load):
            a = root_of(e)
            return "!" + a if a else None
        if isinstance(e, ast.Compare) and len(e.ops) == 1:
            l, r_, op = e.left, e.comparators[0], type(e.ops[0])
            if isinstance(l, ast.Call) and isinstance(l.func, ast.Name) and l.func.id == "len" and len(l.args) == 1 and isinstance(r_, ast.Constant) \
                    and isinstance(r_.value, int):
                a = root_of(l.args[0])
                if a is None:
                    return None
                c = r_.value
                if (op, c) in ((ast.Eq, 0), (ast.Lt, 1), (ast.LtE, 0)):
                    return a
                if (op, c) in ((ast.NotEq, 0), (ast.Gt, 0), (ast.GtE, 1)):
                    return "!" + a
                return None
            if isinstance(r_, (ast.List, ast.Tuple, ast.Set, ast.Dict)) and not getattr(r_, "elts", getattr(r_, "keys", None)) and op in (ast.Eq, ast.NotEq):
                a = root_of(l)
                return (a if op is ast.Eq else "!" + a) if a else None
        return None
    return matcher


def flows_to_return(f: FuncInfo, expr: ast.AST, limit: int = 200) -> bool:
    """def-use closure: can the value of `expr` become (part of) what the function returns / yields?  Follows assignments to local names,
    `x.append(e)` / `x.add(e)` / `x.extend(e)` / `x += e` into the container name, uses in later statements; a use inside a branch
    condition does not count."""
    g = C.cfg_of(f.node)
    rd = rd_of(f)
    pm = parents_of(f)

    def stmt_of(e):
        cur = e
        while cur in pm and not isinstance(cur, ast.stmt):
            cur = pm[cur]
        return cur if isinstance(cur, ast.stmt) else None

    def in_test(e, st) -> bool:
        cur = e
        while cur in pm and cur is not st:
            par = pm[cur]
            if isinstance(par, (ast.If, ast.While, ast.IfExp, ast.Assert)) and par.test is cur:
                return True
            cur = par
        return False

    work, seen = [expr], set()
    while work and limit > 0:
        limit -= 1
        e = work.pop()
        st = stmt_of(e)
        if st is None or id(e) in seen or in_test(e, st):
            continue
        seen.add(id(e))
        if isinstance(st, ast.Return) or any(isinstance(x, (ast.Yield, ast.YieldFrom)) and any(y is e for y in ast.walk(x)) for x in ast.walk(st)):
            return True
        names = []
        if isinstance(st, ast.Assign):
            names = [n.id for t in st.targets for n in ast.walk(t) if isinstance(n, ast.Name)]
        elif isinstance(st, (ast.AnnAssign, ast.AugAssign)) and isinstance(st.target, ast.Name):
            names = [st.target.id]
        elif isinstance(st, ast.Expr) and isinstance(st.value, ast.Call) and isinstance(st.value.func, ast.Attribute) and \
                st.value.func.attr in ("append", "add", "extend", "update", "insert", "appendleft") and isinstance(st.value.func.value, ast.Name):
            names = [st.value.func.value.id]
        dn = g.node_of(st)
        for name in names:
            for u in ast.walk(f.node):
                if isinstance(u, ast.Name) and u.id == name and isinstance(u.ctx, ast.Load):
                    un = g.node_containing(u)
                    if un is None:
                        continue
                    if isinstance(st, ast.Expr) or dn in rd.defs_reaching(un, name) or un == dn:
                        work.append(u)
    return False


def returned_exprs(f: FuncInfo, depth: int = 4):
    """[(return statement, [expressions the returned value can be])] -- a returned plain local name is followed back through its
    definitions (`result = E; return result` returns E; copies of copies followed; a name with a definition that is not a plain
    assignment stays itself)"""
    g = C.cfg_of(f.node)
    rd = rd_of(f)

    def origins(e: ast.AST, at: int, d: int, seen: frozenset):
        if not isinstance(e, ast.Name) or d <= 0:
            return [e]
        defs = rd.defs_reaching(at, e.id)
        if not defs or g.entry in defs:
            return [e]
        out = []
        for dn in sorted(defs):
            st = g.stmt[dn]
            if (e.id, dn) in seen:
                continue
            if isinstance(st, ast.Assign) and len(st.targets) == 1 and isinstance(st.targets[0], ast.Name) and st.targets[0].id == e.id:
                out += origins(st.value, dn, d - 1, seen | {(e.id, dn)})
            elif isinstance(st, ast.AnnAssign) and isinstance(st.target, ast.Name) and st.value is not None:
                out += origins(st.value, dn, d - 1, seen | {(e.id, dn)})
            else:
                return [e]
        return out or [e]

    res = []
    for rt in func_returns(f):
        if rt.value is None:
            res.append((rt, []))
            continue
        n = g.node_of(rt)
        res.append((rt, origins(rt.value, n, depth, frozenset()) if n is not None else [rt.value]))
    return res
