"""Shared queries used by the rule modules."""
from __future__ import annotations

import ast
from typing import Callable, Dict, Iterable, Iterator, List, Optional, Set, Tuple

from . import cfg as C
from .core import AnalysisError, FuncInfo, Repo, is_logging_call, names_in, unparse
from .prov import Prov, callee_name

_prov_cache: Dict[str, Prov] = {}


def prov(repo: Repo, f: FuncInfo) -> Prov:
    k = f"{id(repo)}:{f.qn}"
    if k not in _prov_cache:
        _prov_cache[k] = Prov(repo, f)
    return _prov_cache[k]


def table(repo: Repo, modsuffix: str, name: str) -> Dict[object, ast.AST]:
    """A module-level dict literal as {folded key: value node}."""
    m = repo.module(modsuffix)
    node = repo.const_node(m.name, name)
    if node is None:
        raise AnalysisError(f"anchor table {modsuffix}.{name} not found")
    if not isinstance(node, ast.Dict):
        raise AnalysisError(f"{modsuffix}.{name} is not a dict literal ({type(node).__name__}); table rules cannot read it")
    out = {}
    for k, v in zip(node.keys, node.values):
        if k is None:
            raise AnalysisError(f"{modsuffix}.{name}: ** expansion in table is not interpreted")
        ok, kv = repo.fold(k, m.name)
        if not ok:
            # class objects as keys (sympy table): use the source text
            kv = ast.unparse(k)
        out[kv] = v
    return out


def const_list(repo: Repo, modsuffix: str, name: str) -> List[object]:
    m = repo.module(modsuffix)
    ok, v = repo.const_value(m.name, name)
    if not ok:
        raise AnalysisError(f"anchor constant {modsuffix}.{name} cannot be folded")
    return v if isinstance(v, list) else [v]


def calls_in(node: ast.AST) -> Iterator[ast.Call]:
    for n in ast.walk(node):
        if isinstance(n, ast.Call):
            yield n


def calls_named(f: FuncInfo, name: str) -> List[ast.Call]:
    return [c for c in calls_in(f.node) if callee_name(c) == name]


def arg_of(call: ast.Call, callee: Optional[FuncInfo], pname: str, pos_fallback: Optional[int] = None) -> Optional[ast.AST]:
    """The argument expression bound to parameter `pname` of the callee at this call."""
    for k in call.keywords:
        if k.arg == pname:
            return k.value
    if callee is not None:
        params = list(callee.params)
        if callee.is_method:
            params = params[1:]
        if pname in params:
            i = params.index(pname)
            if i < len(call.args):
                return call.args[i]
        return None
    if pos_fallback is not None and pos_fallback < len(call.args):
        return call.args[pos_fallback]
    return None


def is_true_const(e: Optional[ast.AST]) -> Optional[bool]:
    if isinstance(e, ast.Constant) and isinstance(e.value, bool):
        return e.value
    return None


def enclosing_stmt_node(p: Prov, node: ast.AST) -> int:
    return p.node_of(node)


def func_returns(f: FuncInfo) -> List[ast.Return]:
    return [n for n in ast.walk(f.node) if isinstance(n, ast.Return)]


def raises_in(stmts: Iterable[ast.stmt]) -> bool:
    return any(isinstance(s, ast.Raise) for s in C.stmts_in(list(stmts)))


def subscript0_of(e: ast.AST) -> Optional[ast.AST]:
    """X[0] -> X"""
    if isinstance(e, ast.Subscript) and isinstance(e.slice, ast.Constant) and e.slice.value == 0:
        return e.value
    return None


def loc(f: FuncInfo, node: ast.AST) -> str:
    return f"{f.mod.path}:{getattr(node, 'lineno', f.node.lineno)}"


def site(f: FuncInfo, node: Optional[ast.AST] = None, what: str = "") -> str:
    s = f.qn
    if node is not None:
        s += f"@{unparse(node, 60)}"
    if what:
        s += f" [{what}]"
    return s


# --------------------------------------------------------------------------- guard valuation helper (E3)
class Guards:
    """Reachability of statements of one function under valuations of named boolean atoms."""

    def __init__(self, f: FuncInfo, matcher: Callable[[ast.AST], Optional[str]]):
        self.f = f
        self.g = C.cfg_of(f.node)
        self.matcher = matcher
        self.atoms_seen: Set[str] = set()
        for n in ast.walk(f.node):
            a = matcher(n)
            if a:
                self.atoms_seen.add(a.lstrip("!"))

    def reach(self, valuation: Dict[str, bool], avoid: Iterable[int] = ()) -> Set[int]:
        def val(e):
            a = self.matcher(e)
            if a is not None and a.lstrip("!") in valuation:
                v = valuation[a.lstrip("!")]
                return (not v) if a.startswith("!") else v
            return None

        return C.reach_under(self.g, val, avoid=avoid)

    def node_of_expr(self, e: ast.AST) -> Optional[int]:
        return self.g.node_containing(e)


def bool_param_atoms(names: Dict[str, str]) -> Callable[[ast.AST], Optional[str]]:
    """matcher for parameters used as booleans: {param name: atom name}"""

    def m(e):
        if isinstance(e, ast.Name) and e.id in names:
            return names[e.id]
        return None

    return m


def explicit_raises(g: C.CFG) -> List[int]:
    return [n for n in g.nodes() if g.kind[n] == "raise"]
