"""E4 -- abstract evaluation of table lambdas and tiny helper functions.

* boolean tables over {False, True}
* comparison lambdas over the 5-point ordering domain  {x<<y, x<~y, x==y, x>~y, x>>y}
  where `math.isclose(x, y, abs_tol=T)` is "close" on the three middle points
* arithmetic normal form: rational functions over named symbols (exact, Fraction coefficients)

Anything that is not interpreted raises Uninterpretable (the caller turns it into ANALYSIS-ERROR; never
a silent pass).
"""
from __future__ import annotations

import ast
from fractions import Fraction
from typing import Dict, List, Optional, Tuple


class Uninterpretable(Exception):
    pass


# ----------------------------------------------------------------------------- boolean tables
def eval_bool(e: ast.AST, env: Dict[str, bool]) -> bool:
    if isinstance(e, ast.Name) and e.id in env:
        return env[e.id]
    if isinstance(e, ast.Constant) and isinstance(e.value, bool):
        return e.value
    if isinstance(e, ast.BoolOp):
        vals = [eval_bool(v, env) for v in e.values]
        return all(vals) if isinstance(e.op, ast.And) else any(vals)
    if isinstance(e, ast.UnaryOp) and isinstance(e.op, ast.Not):
        return not eval_bool(e.operand, env)
    if isinstance(e, ast.IfExp):
        return eval_bool(e.body, env) if eval_bool(e.test, env) else eval_bool(e.orelse, env)
    if isinstance(e, ast.Call) and isinstance(e.func, ast.Name) and e.func.id == "bool" and len(e.args) == 1:
        return eval_bool(e.args[0], env)
    if isinstance(e, ast.Compare) and len(e.ops) == 1:
        a, b = eval_bool(e.left, env), eval_bool(e.comparators[0], env)
        if isinstance(e.ops[0], (ast.Eq, ast.Is)):
            return a == b
        if isinstance(e.ops[0], (ast.NotEq, ast.IsNot)):
            return a != b
    if isinstance(e, ast.BinOp) and isinstance(e.op, (ast.BitAnd, ast.BitOr, ast.BitXor)):
        a, b = eval_bool(e.left, env), eval_bool(e.right, env)
        return {ast.BitAnd: a and b, ast.BitOr: a or b, ast.BitXor: a != b}[type(e.op)]
    raise Uninterpretable(f"boolean expression not interpreted: {ast.unparse(e)}")


def lambda_params(lam: ast.AST) -> List[str]:
    if isinstance(lam, ast.Lambda):
        return [a.arg for a in lam.args.args]
    raise Uninterpretable(f"not a lambda: {ast.unparse(lam)}")


def bool_table(lam: ast.Lambda) -> Dict[Tuple[bool, bool], bool]:
    ps = lambda_params(lam)
    if len(ps) != 2:
        raise Uninterpretable("binary lambda expected")
    out = {}
    for a in (False, True):
        for b in (False, True):
            out[(a, b)] = bool(eval_bool(lam.body, {ps[0]: a, ps[1]: b}))
    return out


# ----------------------------------------------------------------------------- comparison lambdas
POINTS = ["x<<y", "x<~y", "x==y", "x>~y", "x>>y"]
_ORDER = {"x<<y": -2, "x<~y": -1, "x==y": 0, "x>~y": 1, "x>>y": 2}


class IsCloseUse:
    def __init__(self, call: ast.Call, swapped: bool, abs_tol: Optional[ast.AST], rel_tol: Optional[ast.AST]):
        self.call = call
        self.swapped = swapped
        self.abs_tol = abs_tol
        self.rel_tol = rel_tol


HELPERS: Dict[str, ast.FunctionDef] = {}   # module-level single-return helpers that table lambdas may call (set by the rule)


def _inline(call: ast.Call) -> Optional[ast.AST]:
    """f(a, b) where f is `def f(p, q): return <expr>` -> <expr>[p:=a, q:=b]"""
    if not isinstance(call.func, ast.Name) or call.func.id not in HELPERS or call.keywords:
        return None
    fn = HELPERS[call.func.id]
    body = [s for s in fn.body if not (isinstance(s, ast.Expr) and isinstance(s.value, ast.Constant))]
    if len(body) != 1 or not isinstance(body[0], ast.Return) or body[0].value is None:
        return None
    params = [a.arg for a in fn.args.args]
    if len(params) != len(call.args):
        return None
    mapping = dict(zip(params, call.args))
    import copy

    class Sub(ast.NodeTransformer):
        def visit_Name(self, n):
            return copy.deepcopy(mapping[n.id]) if n.id in mapping else n

    return Sub().visit(copy.deepcopy(body[0].value))


def eval_cmp(e: ast.AST, x: str, y: str, point: str, uses: List[IsCloseUse]) -> bool:
    o = _ORDER[point]
    if isinstance(e, ast.Call):
        inl = _inline(e)
        if inl is not None:
            return eval_cmp(inl, x, y, point, uses)

    def side(n):
        if isinstance(n, ast.Name) and n.id == x:
            return "x"
        if isinstance(n, ast.Name) and n.id == y:
            return "y"
        raise Uninterpretable(f"operand is not a lambda parameter: {ast.unparse(n)}")

    if isinstance(e, ast.BoolOp):
        vals = [eval_cmp(v, x, y, point, uses) for v in e.values]
        return all(vals) if isinstance(e.op, ast.And) else any(vals)
    if isinstance(e, ast.UnaryOp) and isinstance(e.op, ast.Not):
        return not eval_cmp(e.operand, x, y, point, uses)
    if isinstance(e, ast.IfExp):
        return eval_cmp(e.body, x, y, point, uses) if eval_cmp(e.test, x, y, point, uses) else eval_cmp(e.orelse, x, y, point, uses)
    if isinstance(e, ast.Constant) and isinstance(e.value, bool):
        return e.value
    if isinstance(e, ast.Compare) and len(e.ops) == 1:
        l, r = side(e.left), side(e.comparators[0])
        if l == r:
            raise Uninterpretable("comparison of a parameter with itself")
        oo = o if l == "x" else -o
        op = e.ops[0]
        if isinstance(op, ast.Lt):
            return oo < 0
        if isinstance(op, ast.Gt):
            return oo > 0
        if isinstance(op, ast.LtE):
            return oo <= 0
        if isinstance(op, ast.GtE):
            return oo >= 0
        if isinstance(op, ast.Eq):
            return oo == 0
        if isinstance(op, ast.NotEq):
            return oo != 0
        raise Uninterpretable(f"comparison operator not interpreted: {ast.unparse(e)}")
    if isinstance(e, ast.Call):
        fn = ast.unparse(e.func)
        if fn in ("math.isclose", "isclose"):
            if len(e.args) < 2:
                raise Uninterpretable("isclose with fewer than two positional operands")
            l, r = side(e.args[0]), side(e.args[1])
            if l == r:
                raise Uninterpretable("isclose of a parameter with itself")
            kw = {k.arg: k.value for k in e.keywords}
            rel = kw.get("rel_tol", e.args[2] if len(e.args) > 2 else None)
            ab = kw.get("abs_tol", e.args[3] if len(e.args) > 3 else None)
            if not any(ast.dump(u.call) == ast.dump(e) for u in uses):
                uses.append(IsCloseUse(e, l == "y", ab, rel))
            return abs(o) <= 1
        raise Uninterpretable(f"call not interpreted: {ast.unparse(e)}")
    raise Uninterpretable(f"expression not interpreted: {ast.unparse(e)}")


def cmp_table(lam: ast.Lambda) -> Tuple[List[bool], List[IsCloseUse]]:
    ps = lambda_params(lam)
    if len(ps) != 2:
        raise Uninterpretable("binary lambda expected")
    uses: List[IsCloseUse] = []
    row = [eval_cmp(lam.body, ps[0], ps[1], p, uses) for p in POINTS]
    return row, uses


EXPECTED_CMP = {
    "=": [False, True, True, True, False],
    "<=": [True, True, True, True, False],
    ">=": [False, True, True, True, True],
    "<": [True, True, False, False, False],
    ">": [False, False, False, True, True],
    "!=": [True, False, False, False, True],
}


# ----------------------------------------------------------------------------- rational normal form
class Poly:
    """multivariate polynomial with Fraction coefficients: {monomial(tuple of (sym,exp)) : coeff}"""

    def __init__(self, terms=None):
        self.t = {k: v for k, v in (terms or {}).items() if v != 0}

    @staticmethod
    def const(c):
        return Poly({(): Fraction(c)})

    @staticmethod
    def sym(s):
        return Poly({((s, 1),): Fraction(1)})

    def __add__(self, o):
        t = dict(self.t)
        for k, v in o.t.items():
            t[k] = t.get(k, 0) + v
        return Poly(t)

    def __neg__(self):
        return Poly({k: -v for k, v in self.t.items()})

    def __sub__(self, o):
        return self + (-o)

    def __mul__(self, o):
        t: Dict[tuple, Fraction] = {}
        for k1, v1 in self.t.items():
            for k2, v2 in o.t.items():
                d = dict(k1)
                for s, e in k2:
                    d[s] = d.get(s, 0) + e
                k = tuple(sorted(d.items()))
                t[k] = t.get(k, 0) + v1 * v2
        return Poly(t)

    def __eq__(self, o):
        return self.t == o.t

    def is_zero(self):
        return not self.t

    def __repr__(self):
        if not self.t:
            return "0"
        parts = []
        for k, v in sorted(self.t.items()):
            mon = "*".join(s if e == 1 else f"{s}^{e}" for s, e in k)
            parts.append(f"{v}*{mon}" if mon and v != 1 else (mon or str(v)))
        return " + ".join(parts)


class Rat:
    def __init__(self, num: Poly, den: Optional[Poly] = None):
        self.num = num
        self.den = den if den is not None else Poly.const(1)

    def __add__(self, o):
        return Rat(self.num * o.den + o.num * self.den, self.den * o.den)

    def __sub__(self, o):
        return Rat(self.num * o.den - o.num * self.den, self.den * o.den)

    def __mul__(self, o):
        return Rat(self.num * o.num, self.den * o.den)

    def __truediv__(self, o):
        if o.num.is_zero():
            raise Uninterpretable("division by the zero polynomial")
        return Rat(self.num * o.den, self.den * o.num)

    def __neg__(self):
        return Rat(-self.num, self.den)

    def same(self, o) -> bool:
        return (self.num * o.den) == (o.num * self.den)

    def __repr__(self):
        return f"({self.num})/({self.den})" if self.den != Poly.const(1) else f"{self.num}"


def sym(s: str) -> Rat:
    return Rat(Poly.sym(s))


def num(c) -> Rat:
    return Rat(Poly.const(c))


def eval_arith(e: ast.AST, env: Dict[str, Rat], attr_hook=None) -> Rat:
    if isinstance(e, ast.Name):
        if e.id in env:
            return env[e.id]
        raise Uninterpretable(f"free name {e.id}")
    if isinstance(e, ast.Constant) and isinstance(e.value, (int, float)) and not isinstance(e.value, bool):
        return num(Fraction(e.value).limit_denominator(10 ** 9))
    if isinstance(e, ast.BinOp):
        a, b = eval_arith(e.left, env, attr_hook), eval_arith(e.right, env, attr_hook)
        if isinstance(e.op, ast.Add):
            return a + b
        if isinstance(e.op, ast.Sub):
            return a - b
        if isinstance(e.op, ast.Mult):
            return a * b
        if isinstance(e.op, ast.Div):
            return a / b
        raise Uninterpretable(f"operator not interpreted: {ast.unparse(e)}")
    if isinstance(e, ast.UnaryOp) and isinstance(e.op, ast.USub):
        return -eval_arith(e.operand, env, attr_hook)
    if isinstance(e, ast.UnaryOp) and isinstance(e.op, ast.UAdd):
        return eval_arith(e.operand, env, attr_hook)
    if attr_hook is not None:
        r = attr_hook(e)
        if r is not None:
            return r
    if isinstance(e, ast.Call) and isinstance(e.func, ast.Name) and e.func.id == "float" and len(e.args) == 1:
        return eval_arith(e.args[0], env, attr_hook)
    raise Uninterpretable(f"arithmetic expression not interpreted: {ast.unparse(e)}")


def arith_lambda(lam: ast.Lambda) -> Rat:
    ps = lambda_params(lam)
    if len(ps) != 2:
        raise Uninterpretable("binary lambda expected")
    return eval_arith(lam.body, {ps[0]: sym("x"), ps[1]: sym("y")})


EXPECTED_ARITH = {
    "+": sym("x") + sym("y"),
    "-": sym("x") - sym("y"),
    "*": sym("x") * sym("y"),
    "/": sym("x") / sym("y"),
}


def assignment_effect(fn: ast.FunctionDef, as_lambda=None) -> Rat:
    """Symbolically run a helper `def f(target, v): ... target.set_value(expr)`; returns expr over (old, v).
    Straight-line statements, `if <guard>: raise` prefixes, local assignments, copies of the target and binary function values
    (`as_lambda(expr)` -> two-parameter lambda or None, e.g. operator.add) applied to arithmetic arguments are interpreted."""
    params = [a.arg for a in fn.args.args]
    if len(params) != 2:
        raise Uninterpretable(f"{fn.name}: two parameters expected")
    tgt, val = params
    env: Dict[str, Rat] = {val: sym("v")}
    result: List[Rat] = []
    targets = {tgt}
    callables: Dict[str, ast.Lambda] = {}

    def callable_of(e):
        if isinstance(e, ast.Name) and e.id in callables:
            return callables[e.id]
        if isinstance(e, ast.Lambda):
            return e
        return as_lambda(e) if as_lambda is not None and not (isinstance(e, ast.Name) and e.id in env) else None

    def hook(e):
        # target.value / target.stored_value -> old
        if isinstance(e, ast.Attribute) and isinstance(e.value, ast.Name) and e.value.id in targets and e.attr in ("value", "stored_value"):
            return sym("old")
        if isinstance(e, ast.Call) and len(e.args) == 2 and not e.keywords:
            lam = callable_of(e.func)
            if lam is not None:
                ps = lambda_params(lam)
                if len(ps) == 2:
                    return eval_arith(lam.body, {ps[0]: eval_arith(e.args[0], env, hook), ps[1]: eval_arith(e.args[1], env, hook)})
        return None

    def bind(name, value):
        if isinstance(value, ast.Name) and value.id in targets:
            targets.add(name)
            return
        targets.discard(name)
        lam = callable_of(value)
        if lam is not None:
            callables[name] = lam
            return
        callables.pop(name, None)
        env[name] = eval_arith(value, env, hook)

    def run(stmts):
        for s in stmts:
            if isinstance(s, ast.Expr) and isinstance(s.value, ast.Constant):
                continue  # docstring
            if isinstance(s, ast.Pass):
                continue
            if isinstance(s, ast.If) and isinstance(s.test, ast.Constant) and s.test.value is True and not s.orelse:
                run(s.body)     # block of a helper analysed in place
                continue
            if isinstance(s, ast.Assign) and len(s.targets) == 1 and isinstance(s.targets[0], ast.Name):
                bind(s.targets[0].id, s.value)
                continue
            if isinstance(s, ast.AnnAssign) and isinstance(s.target, ast.Name) and s.value is not None:
                bind(s.target.id, s.value)
                continue
            if isinstance(s, ast.Assign) and len(s.targets) == 1 and isinstance(s.targets[0], ast.Attribute) \
                    and isinstance(s.targets[0].value, ast.Name) and s.targets[0].value.id in targets \
                    and s.targets[0].attr == "stored_value":
                result.append(eval_arith(s.value, env, hook))
                continue
            if isinstance(s, ast.Expr) and isinstance(s.value, ast.Call):
                c = s.value
                if isinstance(c.func, ast.Attribute) and c.func.attr == "set_value" and isinstance(c.func.value, ast.Name) \
                        and c.func.value.id in targets and len(c.args) == 1:
                    result.append(eval_arith(c.args[0], env, hook))
                    continue
                if "logger" in ast.unparse(c.func) or "logging" in ast.unparse(c.func):
                    continue
            if isinstance(s, ast.If) and all(isinstance(b, ast.Raise) for b in s.body) and not s.orelse:
                continue  # guard that only rejects
            if isinstance(s, ast.Return) and s.value is None:
                continue
            raise Uninterpretable(f"{fn.name}: statement not interpreted: {ast.unparse(s)[:80]}")

    run(fn.body)
    if len(result) != 1:
        raise Uninterpretable(f"{fn.name}: expected exactly one store into the target, found {len(result)}")
    return result[0]


EXPECTED_ASSIGN = {
    "increase": sym("old") + sym("v"),
    "decrease": sym("old") - sym("v"),
    "assign": sym("v"),
}
