"""C13 -- simplified numeric conditions are valid PDDL and mean the same as the originals (thin claim)."""
from __future__ import annotations

import ast
import itertools
import re
import string
from typing import Dict, List, Optional, Set, Tuple

from .. import cfg as C
from .. import lib as L
from .. import strshape as S
from ..core import AnalysisError, FuncInfo, Repo, is_logging_call, unparse
from ..prov import callee_name
from ..report import Finding, RuleResult
from . import c12
from . import _c13_util as U

NS = "models.numeric_symbolic_operations"

EXPLANATION = (
    "Thin claim: equivalence of sympy-simplified text for all valuations is out of reach of a static argument; only necessary "
    "conditions are decided. All function rules read the public function with its private helpers inlined and identify values by "
    "def-use provenance, not by names; before that, comprehensions / zip / map / enumerate / loops over sequences whose length is "
    "known from the source (displays, module constants, dict views) are written out element by element, operator.attrgetter / "
    "itemgetter / methodcaller applications and **{..} keyword expansions are written as plain attribute reads / calls, fields read "
    "from NamedTuple / dataclass records are the constructor arguments, and `x is None` tests are decided when every definition of x "
    "that is live under the valuation is None / an object. C13.vocab: every operator string of SYMPY_OP_TO_PDDL_OP is one of + - * / (or a numeral / "
    "empty for atoms), and so is every operator that the printer writes out itself ('(<op> ' in the string shapes built by "
    "convert_expr_to_pddl and its helpers). C13.mangle: the fluent -> symbol naming must be injective: the expression handed to symbols()/Symbol() is "
    "evaluated (AST interpretation of re.sub / compiled patterns / str.replace / translate / join-filter chains on constants) for "
    "witness fluents that differ in one character; a name that loses '-', '_', blanks, a digit or a letter, or maps two of them to "
    "the same text, merges different fluents. C13.round: an int()/floor()/trunc() of the coefficient that is used when "
    "round(x, d) is an integer (finite valuation of the integer tests, boolean locals and if/else or conditional-expression forms "
    "alike) must convert round(x, d), not x (truncation); under an exact x.is_integer() test int(x) is fine; no integer conversion "
    "may be used when the rounded value is not an integer. C13.atoms: for every number class sympy can return (Float, Integer, "
    "Zero, One, NegativeOne, Symbol, Rational, Half) a test of extract_atom on the class of the expression (== / is / in a tuple or "
    "table / isinstance / look-up in a table keyed by class: TABLE.get(cls) tested against None or used as a truth value, TABLE[cls], "
    "a dispatch loop over (class, printer) records) that names the class is reachable under the valuation 'the expression has that class', and the class is a "
    "key of SYMPY_OP_TO_PDDL_OP. C13.sides: the text returned by simplify_inequality / simplify_equality / the tree method has the "
    "shape '(op left right)' (string shapes: f-string, format, concatenation, intermediate names) where op is the operator "
    "parameter / '=' / the root value and left / right derive from the first / second part of the split input (lhs / rhs of the "
    "simplified equation, child 0 / child 1) as primary operands. C13.eliminate: for every operator that the guard of "
    "extract_eliminated_expressions admits (valuation of the tests on the left operand's value over + - * /) the returned pair "
    "(eliminated operand, replacement R) -- AnyNode constructions evaluated to exact rational normal forms over e1, e2, r, with "
    "r = 0 in the branch taken for a zero right-hand side -- satisfies op(R, e2) == r. C13.env: the precision setting is a number. "
    "C13.returns (CFG): a function of the two modules declared `-> str` has no path that falls off its end; no statement that every turn of its loops "
    "executes reads a local name that no forward path from the entry has bound (nor a name bound nowhere). C13.operands (provenance of arguments, "
    "flattened front-ends): the comparison text is split after exactly the outer parentheses are cut off -- by simplify_inequality or by its callers, "
    "not by both or neither (constant slices composed along the path, small integer arithmetic folded); transform_expression gets (text, symbols of an "
    "earlier call); text reaches Eq only through sympify / parse_expr; the side whose provenance is split part 1 / .rhs is printed with "
    "should_remove_trailing_zeros = False; the loop over the assumptions is not left early and every turn passes a .subs on both sides; the sides of "
    "the simplified equation are read only under `not isinstance(.., BooleanTrue)`, and under that valuation no return is None. C13.conditions (guard "
    "valuation over `operator == '='`, `result is truthy`, `elimination is None`): in every function that calls simplify_equality / simplify_inequality "
    "the equality call is reached only for '=' and the other only otherwise; the text is to_mathematical() minus exactly the outer parentheses "
    "(together with the callee); the operator handed over is root.value; under `result truthy` every path on from the call passes a statement that "
    "returns / yields / collects the result; the loop is not left early; an elimination that is None is not unpacked (or the unpacking is inside "
    "try/except TypeError), one that is not None passes the statement that collects the assumption; both front-ends are called somewhere. "
    "C13.branches (guard valuation over the finite abstraction atom / x**-1 / x**2 / x**3 / sum-or-product of the node; comparisons of .exp with "
    "constants decided arithmetically): each kind reaches its own construct (extract_atom(node) / a text '(/ 1 ..)' / a use of the exponent as a value "
    "/ an iteration over node.args) and none of the others; the power loop `range(a*n + b)` over a text of c factors adding d per turn has "
    "c + d*(a*n + b) == n for n = 2, 3 (templates read shallowly, constants folded). C13.walk (sum / product): in the loop over node.args every path "
    "of a turn with a non-empty printed part passes its append / yield, and that collection reaches the return; in the loop that nests the parts "
    "every path of a turn passes an assignment whose value contains the part of the turn and (when text is already built) the text built so far. "
    "C13.zerodrop (extract_atom, valuation over class Float / the flag / `float(text) == 0`): flag off -> a return is reached and none is None; flag on "
    "and not zero -> no None; a comparison of the printed number with another constant than 0 that guards the None is a boundary defect; the value is "
    "the first argument of round / format. C13.fluents: transform_expression returns the untouched parameter only under `no fluent found` (a length "
    "test against another constant than 0 is not an emptiness test). C13.opmatch additionally: when no printer idiom is found and the operator looked up "
    "for the node reaches no returned text (def-use), that is reported instead of an analysis error; a printer that hands its own (node, operator) pair on "
    "unchanged is accepted. Whatever an idiom is not recognised the clause is recorded as `not decided` in the notes of the rule."
)
UNDECIDED = ("validity and equivalence of the simplified text; that a condition sympy reports as always true is implied; zero-coefficient dropping "
             "inside products; the parse flags (evaluate=False) of the sides; everything that depends on what sympy returns for a given expression; "
             "clauses whose idiom is not recognised in a refactored tree (listed as `not decided` in the notes)")


# the public API of today: functions a maintainer adds next to it (with or without a leading underscore) are helpers and are
# analysed in place, inside the function that calls them
API_FUNCTIONS = {"is_number_string", "extract_atom", "convert_expr_to_pddl", "transform_expression", "simplify_complex_numeric_expression",
                 "simplify_equality", "simplify_inequality"}
API_METHODS = {"to_pddl", "to_mathematical", "change_signature", "locate_and_replace", "extract_eliminated_expressions",
               "simplify_complex_numerical_pddl_expression"}
TREE_CLASS = "NumericalExpressionTree"


def _fn(repo: Repo, spec: str) -> FuncInfo:
    f0 = repo.func(spec)
    also = set()
    for x in repo.all_funcs():
        if x.mod is not f0.mod or x.name.startswith("__"):
            continue
        if (x.cls is None and x.name not in API_FUNCTIONS and f0.mod.short.endswith(NS)) or (x.cls == TREE_CLASS and x.name not in API_METHODS):
            also.add(x.name)
    return U.unroll(repo, L.fn(repo, spec, also=also or None))


_NOT_NONE_CALLS = {"list", "dict", "tuple", "set", "frozenset", "str", "int", "float", "bool", "sorted", "repr", "format", "len"}


class _Guards(L.Guards):
    """L.Guards that also decides `x is None` / `x is not None` / `x == None` / `x != None` for an Optional result: when
    every definition of the local name x that is reachable under the valuation is the constant None the test is decided that way,
    when every one constructs an object (class / record of the repository, display, text) the other way.  This is what an inlined
    `return None` guard clause of a helper followed by `if result is None: return None` in the caller amounts to."""

    def __init__(self, repo: Repo, f: FuncInfo, matcher):
        super().__init__(f, matcher)
        self.repo = repo

    def _noneness(self, e: ast.AST, at: Optional[int], seen: Set[int], depth: int = 0) -> Optional[bool]:
        """True: certainly None, False: certainly an object, None: unknown"""
        if depth > 6:
            return None
        if isinstance(e, ast.Constant):
            return e.value is None
        if isinstance(e, (ast.Tuple, ast.List, ast.Dict, ast.Set, ast.JoinedStr, ast.ListComp, ast.SetComp, ast.DictComp, ast.GeneratorExp, ast.Lambda)):
            return False
        if isinstance(e, ast.Call):
            cn = callee_name(e)
            if isinstance(e.func, ast.Name) and (cn in self.repo.classes or U.record_fields(self.repo, cn) is not None or
                                                 (cn in _NOT_NONE_CALLS and self.repo.lookup(self.f.mod.name, cn) is None)):
                return False
            return None
        if isinstance(e, ast.IfExp):
            a, b = self._noneness(e.body, at, seen, depth + 1), self._noneness(e.orelse, at, seen, depth + 1)
            return a if a == b else None
        if isinstance(e, ast.Name) and isinstance(e.ctx, ast.Load):
            n = self.g.node_containing(e) if at is None else at
            if n is None:
                return None
            defs = [d for d in L.rd_of(self.f).defs_reaching(n, e.id) if d in seen]
            if not defs:
                return None
            out = set()
            for d in defs:
                st = self.g.stmt[d]
                v = None
                if d != self.g.entry and isinstance(st, ast.Assign) and len(st.targets) == 1 and isinstance(st.targets[0], ast.Name):
                    v = st.value
                elif d != self.g.entry and isinstance(st, ast.AnnAssign) and isinstance(st.target, ast.Name):
                    v = st.value
                out.add(self._noneness(v, d, seen, depth + 1) if v is not None else None)
            return out.pop() if len(out) == 1 else None
        return None

    def _val(self, valuation, seen):
        base = super()._val(valuation, seen)
        if seen is None:
            return base

        def val(e):
            v = base(e)
            if v is not None:
                return v
            if isinstance(e, ast.Compare) and len(e.ops) == 1 and isinstance(e.ops[0], (ast.Is, ast.IsNot, ast.Eq, ast.NotEq)):
                for x, y in ((e.left, e.comparators[0]), (e.comparators[0], e.left)):
                    if isinstance(y, ast.Constant) and y.value is None and isinstance(x, ast.Name):
                        nn = self._noneness(x, None, seen)
                        if nn is not None:
                            return nn == isinstance(e.ops[0], (ast.Is, ast.Eq))
            return None

        return val


def _class_name(e: ast.AST) -> Optional[str]:
    if isinstance(e, ast.Name):
        return e.id
    if isinstance(e, ast.Attribute):
        return e.attr
    return None


def _sympy_table(repo: Repo) -> Dict[str, ast.AST]:
    """SYMPY_OP_TO_PDDL_OP as {class name: value node} (`Add` and `sympy.Add` are the same key)"""
    m = repo.module(NS)
    node = repo.const_node(m.name, "SYMPY_OP_TO_PDDL_OP")
    if isinstance(node, ast.Dict) and all(k is not None and _class_name(k) for k in node.keys):
        return {_class_name(k): v for k, v in zip(node.keys, node.values)}
    return {str(k).rsplit(".", 1)[-1]: v for k, v in L.table(repo, NS, "SYMPY_OP_TO_PDDL_OP").items()}


def rule_vocab(repo: Repo) -> RuleResult:
    r = RuleResult("C13.vocab", "operators emitted for sympy nodes are binary + - * / only", "text that uses only binary + - * /")
    tab = _sympy_table(repo)
    m = repo.module(NS)
    for k, v in tab.items():
        r.site(f"{NS}.SYMPY_OP_TO_PDDL_OP[{k}]")
        ok, val = repo.fold(v, m.name)
        if not ok or not isinstance(val, str):
            raise AnalysisError(f"SYMPY_OP_TO_PDDL_OP[{k}] is not a string constant")
        numeral = val.lstrip("-").isdigit()
        if val in ("", "+", "-", "*", "/") or numeral:
            r.ok({"key": str(k), "emits": val})
        else:
            r.fail(Finding("C13.vocab", (m.short, "SYMPY_OP_TO_PDDL_OP", str(m.path)), f"table-value:{k}", f"sympy {k} is printed with the operator {val!r}, "
                           f"which is not PDDL (only + - * / are)", node=v))
    # operators written out in the text the printer builds itself, e.g. "(/ 1 {x})"
    f = _fn(repo, f"{NS}::convert_expr_to_pddl")
    for node, text in _built_texts(repo, f):
        for tok in _OPERATOR_HEAD.findall(text):
            r.site(L.site(f, node, f"literal operator {tok}"))
            if tok in ("+", "-", "*", "/"):
                r.ok({"text": text, "operator": tok})
            else:
                r.fail(Finding("C13.vocab", f, f"literal-operator:{tok}", f"the printer builds the text {text!r}: {tok!r} is not a PDDL operator (only + - * / are)", node=node))
    r.require_sites(5)
    return r


_OPERATOR_HEAD = re.compile(r"\(\s*([^\s(){}]+)(?=[\s{])")


def _built_texts(repo: Repo, f: FuncInfo):
    """(node, template) of the outermost string-building expressions of f that are not part of a raise / logging statement;
    values that are not literal are written {}"""
    pm = L.parents_of(f)
    ev = S.Evaluator(repo, f)

    def builds(n) -> bool:
        if isinstance(n, ast.JoinedStr):
            return True
        if isinstance(n, ast.BinOp) and isinstance(n.op, ast.Add):
            return any(isinstance(x, ast.JoinedStr) or (isinstance(x, ast.Constant) and isinstance(x.value, str)) or builds(x) for x in (n.left, n.right))
        if isinstance(n, ast.Call) and isinstance(n.func, ast.Attribute) and n.func.attr in ("format", "join"):
            return True
        return False

    out = []
    for n in ast.walk(f.node):
        if not builds(n):
            continue
        cur, outer, skip = n, True, False
        while cur in pm:
            cur = pm[cur]
            if isinstance(cur, ast.expr) and builds(cur):
                outer = False
                break
            if isinstance(cur, ast.Raise) or (isinstance(cur, ast.Call) and is_logging_call(cur)):
                skip = True
                break
            if isinstance(cur, ast.stmt):
                break
        if not outer or skip:
            continue
        try:
            text = U.render(ev.string(n), lambda _n: "")
        except (AnalysisError, KeyError):
            continue
        out.append((n, text))
    return out


# =============================================================================================================== C13.mangle
SYMBOL_CTORS = ("symbols", "Symbol", "var", "Dummy")
_PROBES = [("(", "("), (")", ")"), ("-", "-"), ("_", "_"), ("?", "?"), (" ", " "), ("\t", "<tab>"), ("1", "<digit>"), ("x", "<letter>")]


def _witness(c: str) -> str:
    return "(dist a" + c + "b)"


def rule_mangle(repo: Repo) -> RuleResult:
    r = RuleResult("C13.mangle", "the fluent -> sympy symbol name is injective (no deletion / merging of characters that distinguish PDDL names)",
                   "distinct fluents stay distinct through simplification")
    f = _fn(repo, f"{NS}::transform_expression")
    p = L.prov(repo, f)
    syms = [c for c in L.calls_in(f.node) if U.ext_callee(repo, f, c) in SYMBOL_CTORS]
    if not syms:
        raise AnalysisError("transform_expression: symbol construction not recognised")
    for c in syms:
        r.site(L.site(f, c, "symbol name"))
        name_e = c.args[0] if c.args else next((k.value for k in c.keywords if k.arg in ("names", "name")), None)
        if name_e is None:
            raise AnalysisError(f"transform_expression: {unparse(c, 50)} has no name argument")

        def name_of(w: str) -> str:
            ev = U.PureEval(repo, f, p, w)
            try:
                v = ev.ev(name_e)
            except U.NotPure as ex:
                raise AnalysisError(f"transform_expression: the symbol name {unparse(name_e, 60)} is not interpreted ({ex})")
            if not ev.inputs:
                raise AnalysisError(f"transform_expression: the symbol name {unparse(name_e, 60)} does not depend on the fluent that is iterated")
            if not isinstance(v, str):
                raise AnalysisError(f"transform_expression: the symbol name {unparse(name_e, 60)} is not a string")
            return v

        base = name_of(_witness(""))
        names = {label: name_of(_witness(ch)) for ch, label in _PROBES}
        deleted = {label for label, n in names.items() if n == base}
        if {" ", "<tab>"} <= deleted:
            deleted = (deleted - {" ", "<tab>"}) | {"<whitespace>"}
        deleted.discard("<tab>")
        harmful = sorted(deleted & {"-", "_", "<whitespace>", " ", "<digit>", "<letter>"})
        kept = [label for label in ("-", "_", " ", "<digit>", "<letter>") if names[label] != base]
        merged = sorted({f"{a}|{b}" for a, b in itertools.combinations(kept, 2) if names[a] == names[b]})
        if harmful:
            r.fail(Finding("C13.mangle", f, "symbol-name:deletes:" + "/".join(harmful), f"the symbol name is the fluent text with {sorted(deleted)} deleted; deleting {harmful} "
                           f"merges different fluents: (dist a bc) and (dist ab c) become the same symbol", node=c))
        elif merged:
            r.fail(Finding("C13.mangle", f, "symbol-name:merges:" + "/".join(merged), f"the symbol name maps different characters of a fluent to the same text ({merged}): "
                           f"{_witness('-')} and {_witness('_')} style fluents become the same symbol", node=c))
        else:
            r.ok({"deleted_characters": sorted(deleted), "example": f"{_witness('-')} -> {names['-']}"})
    r.require_sites(1)
    return r


# =============================================================================================================== C13.round
TRUNCATING = ("int", "floor", "trunc", "ceil")
_NUM_WRAPPERS = {"arg0:float", "arg0:round", "arg0:Float", "arg0:abs", "arg0:Decimal"}


def _main(paths):
    """the paths on which the value itself travels (not the number of digits handed to round / format)"""
    return [x for x in paths if not x[0].startswith(("const:", "builtin:", "global:")) and U.is_main_flow(x)]


def _format_rounded(paths) -> bool:
    """the value was pushed through str.format / format() (a fixed number of decimals): what comes out is the ROUNDED value"""
    return any(not x[0].startswith(("const:", "builtin:", "global:")) and
               any(st.endswith(":format") and st.startswith(("kw:", "arg")) for st in x) for x in paths)


def _through_round(paths) -> bool:
    if _format_rounded(paths):
        return True
    paths = _main(paths)
    return bool(paths) and all("arg0:round" in x for x in paths)


def _bases(paths) -> Set[tuple]:
    out = {tuple(s for s in x if s not in _NUM_WRAPPERS) for x in _main(paths)}
    # a value handed to str.format as a (keyword) argument: the formatted text is a rounding of that value
    for x in paths:
        if x[0].startswith(("const:", "builtin:", "global:")):
            continue
        if any(st.endswith(":format") and st.startswith(("kw:", "arg")) for st in x):
            i = next(k for k, st in enumerate(x) if st.endswith(":format") and st.startswith(("kw:", "arg")))
            if U.is_main_flow(x[:i]) and not any("digit" in st or "prec" in st for st in x[i:i + 1]):
                out.add(tuple(s for s in x[:i] if s not in _NUM_WRAPPERS))
    return out


class _IntTests:
    """the tests `X.is_integer()`, `X == int(X)`, `X % 1 == 0` of one function as guard atoms: 'rint' when X is round(..), else 'exact'"""

    def __init__(self, repo: Repo, f: FuncInfo):
        self.repo, self.f = repo, f
        self.p = L.prov(repo, f)
        self.tests: Dict[int, Tuple[str, ast.AST, ast.AST]] = {}      # id(test expr) -> (atom, test expr, tested value expr)
        self.in_test: Set[int] = set()
        for n in ast.walk(f.node):
            got = self._classify(n)
            if got is not None:
                atom, val = got
                self.tests[id(n)] = (atom, n, val)
                for sub in ast.walk(n):
                    self.in_test.add(id(sub))

    def trace(self, e, under=None):
        try:
            return U.norm_paths(self.repo, self.p.trace(e, under=under))
        except KeyError:
            return set()

    def _classify(self, n: ast.AST):
        val = None
        neg = False
        if isinstance(n, ast.Call) and isinstance(n.func, ast.Attribute) and n.func.attr == "is_integer" and not n.args:
            val = n.func.value
        elif isinstance(n, ast.Compare) and len(n.ops) == 1 and isinstance(n.ops[0], (ast.Eq, ast.NotEq)):
            a, b = n.left, n.comparators[0]
            neg = isinstance(n.ops[0], ast.NotEq)
            for x, y in ((a, b), (b, a)):
                if isinstance(y, ast.Call) and callee_name(y) in ("int", "round") and isinstance(y.func, ast.Name) and len(y.args) == 1 \
                        and not isinstance(x, ast.Constant):
                    tx, ty = self.trace(x), self.trace(y.args[0])
                    if tx and tx == ty:
                        val = x
                        break
                if isinstance(x, ast.BinOp) and isinstance(x.op, ast.Mod) and isinstance(x.right, ast.Constant) and x.right.value == 1 \
                        and isinstance(y, ast.Constant) and y.value == 0 and not isinstance(y.value, bool):
                    val = x.left
                    break
        if val is None:
            tol = self._tolerance_test(n)
            if tol is not None:
                return "tolerant", tol
            return None
        tr = self.trace(val)
        if not tr:
            return None
        atom = "rint" if _through_round(tr) else "exact"
        return ("!" + atom if neg else atom), val

    def _tolerance_test(self, n: ast.AST):
        """`isclose(x, round(x) | int(x), ..)` / `abs(x - round(x)) < eps`: 'x is nearly an integer' -- not an integer test"""
        def integer_of(a, b):
            tb = self.trace(b)
            if not tb or not all(any(st in ("arg0:round", "arg0:int", "arg0:floor", "arg0:trunc", "arg0:ceil") for st in x) for x in _main(tb) or [()]):
                return False
            ta = self.trace(a)
            strip = lambda paths: {tuple(s_ for s_ in x if s_ not in ("arg0:int", "arg0:floor", "arg0:trunc", "arg0:ceil")) for x in _bases(paths)}
            return bool(ta) and bool(strip(ta) & strip(tb))
        if isinstance(n, ast.Call) and callee_name(n) == "isclose" and len(n.args) >= 2:
            a, b = n.args[0], n.args[1]
            if integer_of(a, b):
                return a
            if integer_of(b, a):
                return b
        if isinstance(n, ast.Compare) and len(n.ops) == 1 and isinstance(n.ops[0], (ast.Lt, ast.LtE, ast.Gt, ast.GtE)):
            for side in (n.left, n.comparators[0]):
                if isinstance(side, ast.Call) and callee_name(side) == "abs" and len(side.args) == 1 and isinstance(side.args[0], ast.BinOp) \
                        and isinstance(side.args[0].op, ast.Sub):
                    a, b = side.args[0].left, side.args[0].right
                    if integer_of(a, b):
                        return a
                    if integer_of(b, a):
                        return b
        return None

    def matcher(self, e: ast.AST) -> Optional[str]:
        t = self.tests.get(id(e))
        return t[0] if t else None


def rule_round(repo: Repo, rid: str = "C13.round", specs=None) -> RuleResult:
    r = RuleResult(rid, "where a value is printed as an integer because round(x, d).is_integer(), the printed integer is int(round(x, d))",
                   "up to rounding of coefficients at the requested number of decimals")
    specs = specs or [f"{NS}::extract_atom"]
    for spec in specs:
        _round_in(repo, r, rid, _fn(repo, spec), must_have=(spec.endswith("extract_atom")))
    r.require_sites(1)
    return r


def _round_in(repo: Repo, r: RuleResult, rid: str, f: FuncInfo, must_have: bool) -> None:
    T = _IntTests(repo, f)
    p = T.p
    G = _Guards(repo, f, T.matcher)
    atoms = {a.lstrip("!") for a, _n, _v in T.tests.values()}
    test_bases: Set[tuple] = set()
    for _a, _n, v in T.tests.values():
        test_bases |= _bases(T.trace(v))
    test_roots = {b[0] for b in test_bases}
    convs = []
    for c in L.calls_in(f.node):
        if callee_name(c) in TRUNCATING and len(c.args) == 1 and not c.keywords and id(c) not in T.in_test and not isinstance(c.args[0], ast.Constant):
            tr = T.trace(c.args[0])
            if not tr or all(x[0].startswith(("const:", "global:", "builtin:")) for x in tr):
                continue
            if T.tests and not (_bases(tr) & test_bases) and not ({b[0] for b in _bases(tr)} & test_roots):
                continue        # an integer conversion of something that no integer test looks at
            convs.append(c)
    rd = L.rd_of(f)
    pm = L.parents_of(f)
    g = G.g
    seen_cache: Dict[tuple, Set[int]] = {}

    def seen_of(val: Dict[str, bool]) -> Set[int]:
        k = tuple(sorted(val.items()))
        if k not in seen_cache:
            seen_cache[k] = G.reach(val)
        return seen_cache[k]

    def used_under(val: Dict[str, bool], e: ast.AST, depth: int = 0) -> bool:
        """the value of e is used on some execution admitted by the valuation (follows plain local names to their uses)"""
        if not G.reaches_expr(val, e, seen=seen_of(val)):
            return False
        st = e
        while st in pm and not isinstance(st, ast.stmt):
            st = pm[st]
        if depth < 4 and isinstance(st, (ast.Assign, ast.AnnAssign)):
            tgts = st.targets if isinstance(st, ast.Assign) else [st.target]
            if len(tgts) == 1 and isinstance(tgts[0], ast.Name):
                name, dn = tgts[0].id, g.node_of(st)
                uses = [u for u in ast.walk(f.node) if isinstance(u, ast.Name) and u.id == name and isinstance(u.ctx, ast.Load)
                        and g.node_containing(u) is not None and dn in rd.defs_reaching(g.node_containing(u), name)]
                if uses:
                    return any(used_under(val, u, depth + 1) for u in uses)
        return True

    for _a, n, _v in T.tests.values():
        r.site(L.site(f, n, "integer test"))
    for a_, n, _v in T.tests.values():
        if a_ == "tolerant":
            r.fail(Finding(rid, f, "integer-test:tolerant", f"{unparse(n, 60)} decides whether the value is printed as an integer: a value within the tolerance "
                           f"of an integer loses a fraction that is representable at the print precision (5.0001 at 4 digits is printed as 5)", node=n))
    if not T.tests and not convs:
        if must_have and any(callee_name(c) in TRUNCATING for c in L.calls_in(f.node)):
            raise AnalysisError(f"{f.qn}: integer conversion found but its operand is not interpreted")
        r.site(f.qn + " [no integer shortcut]")
        r.ok({"function": f.qn, "integer_shortcut": None})
        return
    if T.tests and not convs:
        r.ok({"function": f.qn, "integer_tests": len(T.tests), "integer_conversions": 0})
        return
    for c in convs:
        r.site(L.site(f, c, "integer branch"))
        arg = c.args[0]
        if _through_round(T.trace(arg)):
            if "rint" in atoms and used_under({"rint": False}, c) and not ("exact" in atoms and not used_under({"rint": False, "exact": False}, c)):
                r.fail(Finding(rid, f, "integer-conversion-of-non-integer", f"{unparse(c, 50)} is used although the rounded value is not an integer: "
                               f"the fraction is cut off", node=c))
            else:
                r.ok({"integer_branch": unparse(c, 60)})
            continue
        if "exact" in atoms and used_under({"exact": True}, c) and not used_under({"exact": False}, c):
            r.ok({"integer_conversion": unparse(c, 60), "exact": True})
            continue
        if "rint" in atoms:
            val = {"rint": True}
            if used_under(val, c):
                if _through_round(T.trace(arg, under=G.under(val, seen_of(val)))):
                    r.ok({"integer_branch": unparse(c, 60)})
                else:
                    r.fail(Finding(rid, f, "truncation-under-round-guard", f"the branch taken when round(x, d) is an integer prints {unparse(c, 50)}: "
                                   f"int() truncates, so 2.99999 at 2 digits is printed as 2", node=c))
            else:
                r.fail(Finding(rid, f, "integer-conversion-of-non-integer", f"{unparse(c, 50)} is used only when the rounded value is not an integer: "
                               f"the fraction is cut off", node=c))
            continue
        if "tolerant" in atoms:
            continue            # reported above
        if must_have:
            raise AnalysisError(f"{f.qn}: {unparse(c, 50)} is not controlled by a recognised integer test")
        r.ok({"integer_conversion": unparse(c, 60), "guard": None})


# =============================================================================================================== C13.atoms
NUMBER_CLASSES = ("Float", "Integer", "Zero", "One", "NegativeOne", "Symbol", "Rational", "Half")
_ANCESTORS = {
    "Zero": {"IntegerConstant", "Integer", "Rational", "Number", "AtomicExpr", "Atom", "Expr", "Basic"},
    "One": {"IntegerConstant", "Integer", "Rational", "Number", "AtomicExpr", "Atom", "Expr", "Basic"},
    "NegativeOne": {"IntegerConstant", "Integer", "Rational", "Number", "AtomicExpr", "Atom", "Expr", "Basic"},
    "Half": {"RationalConstant", "Rational", "Number", "AtomicExpr", "Atom", "Expr", "Basic"},
    "Integer": {"Rational", "Number", "AtomicExpr", "Atom", "Expr", "Basic"},
    "Rational": {"Number", "AtomicExpr", "Atom", "Expr", "Basic"},
    "Float": {"Number", "AtomicExpr", "Atom", "Expr", "Basic"},
    "Symbol": {"AtomicExpr", "Atom", "Expr", "Basic", "Boolean"},
}
_COVERS = {"Half": {"Rational"}, "Zero": {"Integer"}, "One": {"Integer"}, "NegativeOne": {"Integer"}}   # isinstance tests that print the class


class _ClassTests:
    """tests of a function on the class of one of its parameters: (kind, class names, negated)"""

    def __init__(self, repo: Repo, f: FuncInfo):
        self.repo, self.f = repo, f
        self.p = L.prov(repo, f)
        self.tests: Dict[int, Tuple[str, Set[str], bool, ast.AST]] = {}
        self.uninterpreted: List[ast.AST] = []         # tests on the class of the parameter whose class operand is not understood
        for n in ast.walk(f.node):
            try:
                t = self._classify(n)
            except KeyError:
                t = None
            if t is not None:
                self.tests[id(n)] = t + (n,)

    def _is_class_of_param(self, e: ast.AST) -> bool:
        if isinstance(e, ast.Constant):
            return False
        tr = U.norm_paths(self.repo, self.p.trace(e))
        return bool(tr) and all(x[0].startswith("param:") and x[-1] in ("attr:func", "arg0:type", "attr:__class__") for x in tr)

    def _classes(self, e: ast.AST, depth: int = 0) -> Optional[Set[str]]:
        if depth > 4:
            return None
        if isinstance(e, (ast.Tuple, ast.List, ast.Set)):
            out: Set[str] = set()
            for x in e.elts:
                s = self._classes(x, depth + 1)
                if s is None:
                    return None
                out |= s
            return out
        if isinstance(e, ast.Dict):
            out = set()
            for k, v in zip(e.keys, e.values):
                s = self._classes(k if k is not None else v, depth + 1)         # `{**OTHER_TABLE, Cls: ..}`
                if s is None or (k is not None and len(s) != 1):
                    return None
                out |= s
            return out
        if isinstance(e, ast.BinOp) and isinstance(e.op, (ast.BitOr, ast.Add)):
            a, b = self._classes(e.left, depth + 1), self._classes(e.right, depth + 1)
            return None if a is None or b is None else a | b
        if isinstance(e, ast.Call) and callee_name(e) == "dict" and isinstance(e.func, ast.Name) and len(e.args) == 1 and not e.keywords:
            a = e.args[0]
            if isinstance(a, (ast.Tuple, ast.List)) and all(isinstance(x, (ast.Tuple, ast.List)) and len(x.elts) == 2 for x in a.elts):
                return self._classes(ast.Tuple(elts=[x.elts[0] for x in a.elts], ctx=ast.Load()), depth + 1)
            return self._classes(a, depth + 1) if isinstance(a, (ast.Name, ast.Dict)) else None
        if isinstance(e, ast.Call) and callee_name(e) in ("tuple", "set", "frozenset", "list", "keys") and (e.args or isinstance(e.func, ast.Attribute)):
            return self._classes(e.args[0] if e.args else e.func.value, depth + 1)
        if isinstance(e, ast.Attribute):
            return {e.attr}
        if isinstance(e, ast.Name):
            try:
                defs = self.p.rd.defs_reaching(self.p.node_of(e), e.id)
            except KeyError:
                defs = set()
            if defs:
                if len(defs) != 1:
                    return None
                st = self.p.g.stmt[next(iter(defs))]
                if isinstance(st, ast.Assign) and len(st.targets) == 1:
                    v = self.p._paired(st.targets[0], st.value, e.id)          # `cls, printer = (Integer, f)` names Integer
                    return self._classes(v, depth + 1) if v is not None else None
                if isinstance(st, (ast.Assign, ast.AnnAssign)) and st.value is not None:
                    return self._classes(st.value, depth + 1)
                return None
            r = self.repo.lookup(self.f.mod.name, e.id)
            if r and r[0] == "const" and isinstance(r[1], (ast.Tuple, ast.List, ast.Set, ast.Dict, ast.Call)):
                return self._classes(r[1], depth + 1)
            if r and r[0] == "external" and isinstance(r[1], tuple) and r[1][1]:
                return {r[1][1]}
            return {e.id}
        return None

    def _single_def(self, e: ast.Name) -> Optional[ast.AST]:
        try:
            defs = self.p.rd.defs_reaching(self.p.node_of(e), e.id)
        except KeyError:
            return None
        if len(defs) != 1:
            return None
        d = next(iter(defs))
        if d == self.p.g.entry:
            return None
        st = self.p.g.stmt[d]
        if isinstance(st, ast.Assign) and len(st.targets) == 1:
            return self.p._paired(st.targets[0], st.value, e.id)
        if isinstance(st, ast.AnnAssign) and isinstance(st.target, ast.Name):
            return st.value
        return None

    def _truthy_values(self, table: ast.AST, depth: int = 0) -> bool:
        """every value of the table display is a callable / a non-empty text (so `if entry:` means `the key is in the table`)"""
        if depth > 3:
            return False
        if isinstance(table, ast.Name):
            v = self._single_def(table)
            if v is None:
                r = self.repo.lookup(self.f.mod.name, table.id)
                v = r[1] if r and r[0] == "const" else None
            return v is not None and self._truthy_values(v, depth + 1)
        if isinstance(table, ast.Dict):
            for k, v in zip(table.keys, table.values):
                if k is None:
                    if not self._truthy_values(v, depth + 1):
                        return False
                    continue
                if isinstance(v, ast.Lambda) or (isinstance(v, ast.Constant) and isinstance(v.value, str) and v.value):
                    continue
                if isinstance(v, (ast.Name, ast.Attribute)):
                    nm = v.id if isinstance(v, ast.Name) else v.attr
                    r = self.repo.lookup(self.f.mod.name, nm) if isinstance(v, ast.Name) else None
                    if (r and r[0] in ("func", "external")) or (isinstance(v, ast.Attribute) and isinstance(v.value, ast.Name)
                                                                and (self.repo.lookup(self.f.mod.name, v.value.id) or ("",))[0] == "module"):
                        continue
                if isinstance(v, ast.Call) and callee_name(v) in ("partial", "attrgetter", "methodcaller", "itemgetter"):
                    continue
                return False
            return True
        return False

    def _lookup(self, e: ast.AST, depth: int = 0):
        """e is (a name bound once to) TABLE.get(<class of the parameter>) / TABLE[<class of the parameter>]:
        ('get' | 'item', classes that are keys of the table, table expression)"""
        if depth > 3:
            return None
        if isinstance(e, ast.Name) and isinstance(e.ctx, ast.Load):
            v = self._single_def(e)
            return self._lookup(v, depth + 1) if v is not None and not isinstance(v, ast.Name) else None
        if isinstance(e, ast.Call) and isinstance(e.func, ast.Attribute) and e.func.attr == "get" and not e.keywords and 1 <= len(e.args) <= 2:
            if len(e.args) == 2 and not (isinstance(e.args[1], ast.Constant) and e.args[1].value is None):
                return None
            if self._is_class_of_param(e.args[0]):
                cs = self._classes(e.func.value)
                if cs is not None:
                    return "get", cs, e.func.value
        if isinstance(e, ast.Subscript) and isinstance(e.ctx, ast.Load) and not isinstance(e.slice, ast.Slice) and self._is_class_of_param(e.slice):
            cs = self._classes(e.value)
            if cs is not None and isinstance(e.value, (ast.Name, ast.Attribute, ast.Dict)):
                return "item", cs, e.value
        return None

    def _classify(self, n: ast.AST):
        if isinstance(n, ast.Compare) and len(n.ops) == 1 and isinstance(n.ops[0], (ast.Is, ast.IsNot, ast.Eq, ast.NotEq)):
            for x, y in ((n.left, n.comparators[0]), (n.comparators[0], n.left)):
                if isinstance(y, ast.Constant) and y.value is None and not isinstance(x, ast.Constant):
                    lk = self._lookup(x)
                    if lk is not None and lk[0] == "get":
                        # `TABLE.get(cls) is None`: true exactly for the classes that are not keys
                        return "exact", lk[1], isinstance(n.ops[0], (ast.Is, ast.Eq))
        if isinstance(n, ast.Subscript):
            lk = self._lookup(n)
            if lk is not None:
                return "lookup", lk[1], False         # not a test (a missing key raises): it only names the classes it serves
        if isinstance(n, ast.Name) and isinstance(n.ctx, ast.Load):
            lk = self._lookup(n)
            if lk is not None and lk[0] == "get" and self._truthy_values(lk[2]):
                return "exact", lk[1], False           # the entry used as a truth value
            return None
        if isinstance(n, ast.Compare) and len(n.ops) == 1:
            op = n.ops[0]
            a, b = n.left, n.comparators[0]
            if isinstance(op, (ast.Eq, ast.Is, ast.NotEq, ast.IsNot)):
                for x, y in ((a, b), (b, a)):
                    if self._is_class_of_param(x):
                        cs = self._classes(y)
                        if cs is not None and len(cs) == 1:
                            return "exact", cs, isinstance(op, (ast.NotEq, ast.IsNot))
                        self.uninterpreted.append(n)
                        break
            if isinstance(op, (ast.In, ast.NotIn)) and self._is_class_of_param(a):
                cs = self._classes(b)
                if cs is not None:
                    return "exact", cs, isinstance(op, ast.NotIn)
                self.uninterpreted.append(n)
        if isinstance(n, ast.Call) and isinstance(n.func, ast.Name) and n.func.id == "isinstance" and len(n.args) == 2:
            tr = self.p.trace(n.args[0])
            if tr and all(x[0].startswith("param:") and len(x) == 1 for x in tr):
                cs = self._classes(n.args[1])
                if cs is not None:
                    return "isinstance", cs, False
                self.uninterpreted.append(n)
        return None

    def truth(self, n: ast.AST, cls: str) -> Optional[bool]:
        t = self.tests.get(id(n))
        if t is None:
            return None
        kind, cs, neg, _n = t
        if kind == "lookup":
            return None
        hit = cls in cs or (kind == "isinstance" and bool(_ANCESTORS.get(cls, set()) & cs))
        return hit != neg

    def names(self, n: ast.AST, cls: str) -> bool:
        kind, cs, _neg, _n = self.tests[id(n)]
        return cls in cs or (kind == "isinstance" and bool(_COVERS.get(cls, set()) & cs))


def rule_atoms(repo: Repo) -> RuleResult:
    r = RuleResult("C13.atoms", "extract_atom handles every sympy number class the simplifier can return", "text that the library's own reader accepts (no crash on x/2)")
    f = _fn(repo, f"{NS}::extract_atom")
    T = _ClassTests(repo, f)
    if not T.tests:
        raise AnalysisError("extract_atom: no test on the class of the expression recognised")
    tab = set(_sympy_table(repo).keys())
    for cls in NUMBER_CLASSES:
        r.site(f"{f.qn} [{cls}]")

        def matcher(e, cls=cls):
            v = T.truth(e, cls)
            return None if v is None else ("is" if v else "!is")

        G = _Guards(repo, f, matcher)
        seen = G.reach({"is": True})
        returns = any(G.g.kind[n] == "return" for n in seen)          # the class is not simply rejected
        handled = returns and any(T.names(n, cls) and G.reaches_expr({"is": True}, n, seen=seen) for _k, _c, _ng, n in T.tests.values())
        if handled and cls in tab:
            r.ok({"class": cls})
        else:
            if not handled and T.uninterpreted:
                raise AnalysisError(f"extract_atom: the test {unparse(T.uninterpreted[0], 60)} on the class of the expression is not interpreted "
                                    f"(cannot decide whether {cls} is handled)")
            where = [w for w, ok in (("extract_atom", handled), ("SYMPY_OP_TO_PDDL_OP", cls in tab)) if not ok]
            r.fail(Finding("C13.atoms", f, f"atom-class:{cls}", f"sympy {cls} is not handled by {where}: an expression such as x/2 raises KeyError / ValueError"))
    r.require_sites(8)
    return r


# =============================================================================================================== C13.sides
SPLITTERS = {"call:split": {0: 0, 1: 1}, "call:rsplit": {0: 0, 1: 1}, "call:partition": {0: 0, 2: 1}, "call:rpartition": {0: 0, 2: 1}}
CARRIERS = ("transform_expression",)


def _split_side(path) -> Optional[int]:
    """0 / 1: the value derives from the first / second part of a split of its root"""
    for i, st in enumerate(path[:-1]):
        if st in SPLITTERS:
            nxt = path[i + 1]
            k = nxt.split(":", 1)[1] if nxt.startswith(("unpack:", "item:")) else None
            if k is not None and k.lstrip("-").isdigit():
                return SPLITTERS[st].get(int(k), -1)
            return -1
    return None


def _returned_shapes(repo: Repo, f: FuncInfo):
    ev = S.Evaluator(repo, f)
    out = []
    for ret in L.func_returns(f):
        if ret.value is None or (isinstance(ret.value, ast.Constant) and ret.value.value is None):
            continue
        for sh in _alternatives(ev.string(ret.value)):
            out.append((ret, sh))
    return out


def _alternatives(sh) -> list:
    """the texts a returned value can be: `None if redundant else text` / a name that is None unless assigned are the text"""
    if isinstance(sh, S.Alt):
        return _alternatives(sh.a) + _alternatives(sh.b)
    if isinstance(sh, S.Hole) and isinstance(sh.node, ast.Constant) and sh.node.value is None:
        return []
    return [sh]


def _check_shape(repo: Repo, r: RuleResult, f: FuncInfo, role: str, want: str, hole, fail_text: str) -> None:
    shapes = _returned_shapes(repo, f)
    got = [U.squeeze(U.render(sh, hole)) for _ret, sh in shapes]
    if got and all(x == want for x in got):
        r.ok({"returns": want})
    else:
        node = next((ret for (ret, _sh), x in zip(shapes, got) if x != want), None)
        r.fail(Finding("C13.sides", f, role, f"{fail_text} (returned text: {got or 'none'}, expected {want!r})", node=node))


def rule_sides(repo: Repo) -> RuleResult:
    r = RuleResult("C13.sides", "the simplified (in)equality keeps its operator and the left / right sides", "means the same as the original")
    # ---- simplify_inequality: '(' op simplified(left part) simplified(right part) ')'
    f = _fn(repo, f"{NS}::simplify_inequality")
    p = L.prov(repo, f)
    r.site(f.qn)
    if len(f.params) < 2:
        raise AnalysisError("simplify_inequality: parameters (expression, operator) not found")
    expr_param, op_param = f.params[0], f.params[1]

    def hole_ineq(n) -> str:
        try:
            tr = U.norm_paths(repo, p.trace(n))
        except KeyError:
            return "?" + unparse(n, 30)
        if tr and all(x == (f"param:{op_param}",) for x in tr):
            return "op"
        main = [x for x in tr if x[0] == f"param:{expr_param}" and U.is_main_flow(x, CARRIERS)]
        sides = {_split_side(x) for x in main}
        if sides == {0}:
            return "left"
        if sides == {1}:
            return "right"
        return "?" + unparse(n, 30)

    _check_shape(repo, r, f, "inequality-shape", "({op} {left} {right})", hole_ineq,
                 "simplify_inequality does not return '(' op left right ')' with the sides in their original order")

    # ---- simplify_equality: '(= ' simplified.lhs simplified.rhs ')'
    g = _fn(repo, f"{NS}::simplify_equality")
    pg = L.prov(repo, g)
    r.site(g.qn)

    def eq_side(path) -> Optional[str]:
        for i, st in enumerate(path):
            if st in ("attr:lhs", "attr:rhs"):
                return st[5:]
            if st == "attr:args" and i + 1 < len(path) and path[i + 1] in ("item:0", "item:1", "unpack:0", "unpack:1"):
                return "lhs" if path[i + 1].endswith("0") else "rhs"
        return None

    def hole_eq(n) -> str:
        try:
            tr = U.norm_paths(repo, pg.trace(n))
        except KeyError:
            return "?" + unparse(n, 30)
        sides = {eq_side(x) for x in tr if U.is_main_flow(x, CARRIERS)} - {None}
        if len(sides) == 1:
            return sides.pop()
        return "?" + unparse(n, 30)

    _check_shape(repo, r, g, "equality-shape", "(= {lhs} {rhs})", hole_eq, "simplify_equality does not return '(= lhs rhs)'")

    # ---- the tree method keeps its own operator, simplifies child 0 and prints child 1
    h = _fn(repo, "NumericalExpressionTree.simplify_complex_numerical_pddl_expression")
    ph = L.prov(repo, h)
    r.site(h.qn)

    def child_of(path) -> Optional[int]:
        if path[0] != "self":
            return None
        for i, st in enumerate(path):
            if st == "attr:children":
                if i + 1 < len(path) and path[i + 1].startswith(("item:", "unpack:")) and path[i + 1].split(":", 1)[1].isdigit():
                    return int(path[i + 1].split(":", 1)[1])
                return -1
        return None

    def hole_tree(n) -> str:
        try:
            tr = U.norm_paths(repo, ph.trace(n))
        except KeyError:
            return "?" + unparse(n, 30)
        if tr and all(x == ("self", "attr:root", "attr:value") for x in tr):
            return "op"
        kids = {child_of(x) for x in tr if x[0] == "self" and U.is_main_flow(x)} - {None}
        if kids == {0}:
            return "child0"
        if kids == {1}:
            return "child1"
        return "?" + unparse(n, 30)

    _check_shape(repo, r, h, "tree-shape", "({op} {child0} {child1})", hole_tree, "the simplified tree text does not keep (operator, child 0, child 1)")
    r.require_sites(3)
    return r


# =============================================================================================================== C13.eliminate
OPERATORS = ("+", "-", "*", "/")


class _Elim:
    """symbolic reading of extract_eliminated_expressions: positions in the (copied) equality tree are symbols
    (children[0].children[0] = e1, children[0].children[1] = e2, children[1] = r), AnyNode constructions are rational expressions"""

    def __init__(self, repo: Repo, f: FuncInfo):
        from .. import absval as A
        self.A = A
        self.repo, self.f = repo, f
        self.p = L.prov(repo, f)
        self.g = C.cfg_of(f.node)
        # which side of the equality is taken apart: the one whose operator is tested (the left one when there is no test)
        sides = set()
        for n in ast.walk(f.node):
            if isinstance(n, ast.Compare) and len(n.ops) == 1:
                for x, y in ((n.left, n.comparators[0]), (n.comparators[0], n.left)):
                    pos = self.pos_of(x)
                    if pos is not None and pos[1] and pos[0] in ((0,), (1,)):
                        ok, v = self.const_of(y, None)
                        if ok and (isinstance(v, str) or (isinstance(v, list) and v and all(isinstance(i, str) for i in v))):
                            sides.add(pos[0][0])
        if len(sides) > 1:
            raise AnalysisError("extract_eliminated_expressions: operator tests on both sides of the equality are not interpreted")
        self.side = sides.pop() if sides else 0
        s_ = self.side
        self.SYMBOLS = {(s_, 0): "e1", (s_, 1): "e2", (1 - s_,): "r"}

    # -- positions
    def pos_of(self, e: ast.AST, under=None):
        """(child indices, '.value' taken?) of an expression that navigates the tree of self, else None"""
        if isinstance(e, ast.Constant):
            return None
        try:
            tr = U.norm_paths(self.repo, self._through_built_nodes(self.p.trace(e, under=under)))
        except KeyError:
            return None
        out = set()
        for x in tr:
            if x[0].startswith("fresh:") and len(x) == 1:
                continue
            if x[0] != "self" or any(s.startswith(("in:", "fresh:")) for s in x):
                return None
            idx = []
            is_value = False
            for s in x[1:]:
                if s.startswith(("item:", "unpack:")):
                    k = s.split(":", 1)[1]
                    if not k.isdigit():
                        return None
                    idx.append(int(k))
                elif s == "attr:value":
                    is_value = True
                elif s in ("attr:root", "attr:children", "call:__copy__", "call:copy", "arg0:deepcopy", "arg0:copy", f"arg0:{TREE_CLASS}", "arg0:list", "arg0:tuple"):
                    continue
                else:
                    return None
            out.add((tuple(idx), is_value))
        if len(out) != 1:
            return None
        return next(iter(out))

    NODE_FIELDS = ("id", "value", "children")       # AnyNode(id=.., value=.., children=[..]) stores its keyword arguments under these names

    def _copy_functions(self) -> Set[str]:
        """the methods __copy__ of the tree class copies the tree with (`return Tree(self.<m>(self.root))`): as good as __copy__ itself"""
        if not hasattr(self, "_copy_fns"):
            out: Set[str] = set()
            fi = self.repo.find_method(TREE_CLASS, "__copy__")
            if fi is not None:
                for c in L.calls_in(fi.node):
                    if isinstance(c.func, ast.Attribute) and isinstance(c.func.value, ast.Name) and c.func.value.id == fi.self_name and len(c.args) == 1 \
                            and isinstance(c.args[0], ast.Attribute) and c.args[0].attr == "root" and isinstance(c.args[0].value, ast.Name) and c.args[0].value.id == fi.self_name:
                        out.add(c.func.attr)
            self._copy_fns = out
        return self._copy_fns

    def _through_built_nodes(self, paths):
        """provenance paths with a field read from a node that was built right before cancelled against the keyword argument it was built
        from (`AnyNode(value=v, children=[a, b]).children[1]` is b), and the copy helper of __copy__ read as a copy"""
        copies = {f"arg0:{m}" for m in self._copy_functions()}
        out = set()
        for x in paths:
            if x[0] == "ext:AnyNode" and len(x) > 1:
                continue            # the node object itself: what its fields hold arrives on the paths of the constructor arguments
            if x[0] == "fresh:list" and len(x) > 1 and x[1] == "kw:children:AnyNode":
                continue
            if x[0] == "self" and len(x) > 1 and x[1] in {f"call:{m}" for m in self._copy_functions()}:
                continue            # the copy helper copies its ARGUMENT (that path is there as well), not the object it is called on
            steps: List[str] = []
            dead = False
            i = 0
            while i < len(x):
                st = x[i]
                fld = st[3:-len(":AnyNode")] if st.startswith("kw:") and st.endswith(":AnyNode") else None
                if fld in self.NODE_FIELDS and i + 1 < len(x) and x[i + 1].startswith("attr:"):
                    if x[i + 1] == f"attr:{fld}":
                        i += 2
                        continue
                    dead = True
                    break
                if st in copies:
                    i += 1
                    continue
                steps.append(st)
                i += 1
            if not dead:
                out.add(tuple(steps))
        return out

    # -- constants
    def const_of(self, e: ast.AST, seen: Set[int], depth: int = 0):
        """(True, python value) of a constant expression (literal, local or module-level name)"""
        if depth > 6:
            return False, None
        if isinstance(e, ast.Constant):
            return True, e.value
        if isinstance(e, ast.UnaryOp) and isinstance(e.op, ast.USub):
            ok, v = self.const_of(e.operand, seen, depth + 1)
            return (True, -v) if ok and isinstance(v, (int, float)) else (False, None)
        if isinstance(e, (ast.Tuple, ast.List, ast.Set)):
            vals = [self.const_of(x, seen, depth + 1) for x in e.elts]
            return (True, [v for _ok, v in vals]) if all(ok for ok, _v in vals) else (False, None)
        if isinstance(e, ast.IfExp):
            # `sign = -1 if op == "+" else 1`: decided by the valuation in force (operator admitted / r == 0)
            cur = getattr(self, "_cur_val", None)
            t = C.eval3(e.test, cur) if cur is not None else None
            if t is None:
                a, b = self.const_of(e.body, seen, depth + 1), self.const_of(e.orelse, seen, depth + 1)
                return a if a[0] and b[0] and a[1] == b[1] else (False, None)
            return self.const_of(e.body if t else e.orelse, seen, depth + 1)
        if isinstance(e, ast.Name):
            vals = self.live_values(e, seen)
            if vals is None:
                ok, v = self.repo.const_value(self.f.mod.name, e.id)
                if not ok:
                    node = self.repo.const_node(self.f.mod.name, e.id)
                    if node is not None and not isinstance(node, ast.Name):
                        return self.const_of(node, None, depth + 1)
                return (ok, v)
            if len(vals) == 1:
                return self.const_of(vals[0], seen, depth + 1)
        return False, None

    def live_values(self, e: ast.Name, seen: Optional[Set[int]]) -> Optional[List[ast.AST]]:
        """value expressions of the definitions of a local name that are live under the valuation; None for a non-local name;
        [] when a definition is not a plain (paired) assignment"""
        try:
            at = self.p.node_of(e)
        except KeyError:
            return None
        defs = self.p.rd.defs_reaching(at, e.id)
        if not defs:
            return None
        if seen is not None:
            defs = {d for d in defs if d in seen or d == self.g.entry} or defs
        out = []
        for d in sorted(defs):
            if d == self.g.entry:
                return []
            st = self.g.stmt[d]
            v = None
            if isinstance(st, ast.Assign) and len(st.targets) == 1:
                v = self.p._paired(st.targets[0], st.value, e.id)
            elif isinstance(st, ast.AnnAssign) and st.value is not None and isinstance(st.target, ast.Name):
                v = st.value
            if v is None:
                return []
            out.append(v)
        return out

    # -- guard atoms for a candidate operator
    def matcher_for(self, op: str):
        memo: Dict[int, Optional[str]] = {}

        def decide(e: ast.AST) -> Optional[str]:
            if isinstance(e, ast.Attribute) and e.attr == "value" and isinstance(e.ctx, ast.Load):
                pos = self.pos_of(e)
                return "!rz" if pos == ((1 - self.side,), True) else None       # used as a truth value: non-zero
            if not (isinstance(e, ast.Compare) and len(e.ops) == 1):
                return None
            o = e.ops[0]
            a, b = e.left, e.comparators[0]
            for x, y in ((a, b), (b, a)):
                pos = self.pos_of(x)
                if pos is None or not pos[1]:
                    continue
                if pos[0] == (self.side,):
                    ok, v = self.const_of(y, None)
                    if not ok:
                        continue
                    if isinstance(o, (ast.Eq, ast.NotEq)) and isinstance(v, str):
                        return "adm" if (op == v) != isinstance(o, ast.NotEq) else "!adm"
                    if isinstance(o, (ast.In, ast.NotIn)) and x is a and isinstance(v, (list, str)):
                        return "adm" if (op in v) != isinstance(o, ast.NotIn) else "!adm"
                if pos[0] == (1 - self.side,) and isinstance(o, (ast.Eq, ast.NotEq)):
                    ok, v = self.const_of(y, None)
                    if ok and isinstance(v, (int, float)) and not isinstance(v, bool) and v == 0:
                        return "!rz" if isinstance(o, ast.NotEq) else "rz"
            return None

        def m(e: ast.AST) -> Optional[str]:
            k = id(e)
            if k not in memo:
                memo[k] = decide(e)
            return memo[k]

        return m

    # -- evaluation of a constructed tree
    def eval(self, e: ast.AST, val, seen: Set[int], zero_r: bool, depth: int = 0):
        A = self.A
        if depth > 30:
            raise AnalysisError("extract_eliminated_expressions: construction too deep")
        ev = lambda x: self.eval(x, val, seen, zero_r, depth + 1)
        self._cur_val = val
        if isinstance(e, ast.IfExp):
            t = C.eval3(e.test, val)
            if t is None:
                # not a test the analysis can relate to the operator / to `r == 0`: it may go either way in every case, so the
                # replacement has to be right on both branches (the caller enumerates the choices)
                choice = getattr(self, "choice", {})
                if id(e.test) not in choice:
                    raise _NeedChoice(id(e.test), e.test)
                t = choice[id(e.test)]
            return ev(e.body if t else e.orelse)
        if isinstance(e, ast.Call):
            cn = callee_name(e)
            is_tree = cn == TREE_CLASS or (isinstance(e.func, ast.Attribute) and e.func.attr == "__class__") or \
                (isinstance(e.func, ast.Call) and callee_name(e.func) == "type")
            if is_tree and len(e.args) + len(e.keywords) == 1:
                return ev(e.args[0] if e.args else e.keywords[0].value)
            if cn == "AnyNode":
                kw = {k.arg: k.value for k in e.keywords}
                value, ch = kw.get("value"), kw.get("children")
                if value is None:
                    raise AnalysisError(f"extract_eliminated_expressions: node {unparse(e, 60)} has no value")
                ok, v = self.const_of(value, seen)
                if ch is None or (isinstance(ch, ast.Constant) and ch.value is None):
                    if ok and isinstance(v, (int, float)) and not isinstance(v, bool):
                        return A.num(v)
                    raise AnalysisError(f"extract_eliminated_expressions: leaf {unparse(e, 60)} not interpreted")
                kids = self.children(ch, seen)
                if not ok or v not in OPERATORS or kids is None or len(kids) != 2:
                    raise AnalysisError(f"extract_eliminated_expressions: node {unparse(e, 60)} not interpreted")
                a, b = ev(kids[0]), ev(kids[1])
                return {"+": lambda: a + b, "-": lambda: a - b, "*": lambda: a * b, "/": lambda: a / b}[v]()
        if isinstance(e, ast.Attribute) and e.attr == "root" and not self.pos_of(e, (val, seen)):
            return ev(e.value)         # NumericalExpressionTree(<node>).root
        if isinstance(e, ast.Name):
            vals = self.live_values(e, seen)
            if vals:
                res = [ev(v) for v in vals if not (isinstance(v, ast.Constant) and v.value is None)]
                if res and all(x.same(res[0]) for x in res[1:]):
                    return res[0]
                raise AnalysisError(f"extract_eliminated_expressions: {e.id} has several values")
        pos = self.pos_of(e, (val, seen))
        if pos is not None and not pos[1] and pos[0] in self.SYMBOLS:
            sy = self.SYMBOLS[pos[0]]
            return A.num(0) if (sy == "r" and zero_r) else A.sym(sy)
        raise AnalysisError(f"extract_eliminated_expressions: {unparse(e, 60)} is not a recognised part of the equality")

    def children(self, ch: ast.AST, seen: Set[int], depth: int = 0) -> Optional[List[ast.AST]]:
        if depth > 4:
            return None
        if isinstance(ch, (ast.List, ast.Tuple)):
            return list(ch.elts)
        if isinstance(ch, ast.Call) and callee_name(ch) in ("list", "tuple") and len(ch.args) == 1:
            return self.children(ch.args[0], seen, depth + 1)
        if isinstance(ch, ast.Name):
            vals = self.live_values(ch, seen)
            if vals and len(vals) == 1:
                return self.children(vals[0], seen, depth + 1)
        return None

    def results(self, seen: Set[int]) -> List[Tuple[ast.AST, ast.AST, ast.AST]]:
        """(return statement, eliminated, replacement) of the non-None returns reachable under the valuation"""
        out = []
        for n in self.g.nodes():
            st = self.g.stmt[n]
            if self.g.kind[n] != "return" or n not in seen or st.value is None:
                continue
            for v in self.tuple_values(st.value, seen):
                out.append((st, v.elts[0], v.elts[1]))
        return out

    def tuple_values(self, e: ast.AST, seen: Set[int], depth: int = 0) -> List[ast.Tuple]:
        if isinstance(e, ast.Constant) and e.value is None:
            return []
        if isinstance(e, ast.Tuple) and len(e.elts) == 2:
            return [e]
        if isinstance(e, ast.Name) and depth < 5:
            vals = self.live_values(e, seen)
            if vals:
                return [t for v in vals for t in self.tuple_values(v, seen, depth + 1)]
        raise AnalysisError(f"extract_eliminated_expressions: returned value {unparse(e, 60)} is not a pair")


def rule_eliminate(repo: Repo) -> RuleResult:
    """equality-based elimination: from (= (op e1 e2) r) the tree method derives `e1 := R`; for every operator the guard admits,
    op(R, e2) must be identically r (exact rational normal forms over the symbols e1, e2, r)."""
    from .. import absval as A
    r = RuleResult("C13.eliminate", "the expression substituted for e1 from (= (op e1 e2) r) satisfies op(R, e2) == r for every operator the guard admits",
                   "a condition is rewritten only into an equivalent one")
    f = _fn(repo, "NumericalExpressionTree.extract_eliminated_expressions")
    E = _Elim(repo, f)
    apply_op = {"+": lambda a, b: a + b, "-": lambda a, b: a - b, "*": lambda a, b: a * b, "/": lambda a, b: a / b}
    guards = {op: _Guards(repo, f, E.matcher_for(op)) for op in OPERATORS}
    admitted = []
    for op in OPERATORS:
        G = guards[op]
        if any(E.results(G.reach({"adm": True, "rz": z})) for z in (True, False)):
            admitted.append(op)
    r.site(f.qn + " [admitted operators]")
    if not admitted:
        raise AnalysisError("extract_eliminated_expressions: no returned (eliminated, replacement) pair recognised")
    r.ok({"admitted": sorted(admitted), "tested_on_left_operand": "adm" in guards["+"].atoms_seen})
    for op in sorted(admitted):
        G = guards[op]
        for zero in (True, False):
            r.site(f"{f.qn} [op {op!r}, r {'== 0' if zero else 'general'}]")
            valuation = {"adm": True, "rz": zero}
            val, seen = G.under(valuation)
            res = E.results(seen)
            if not res:
                r.ok({"operator": op, "r_is_zero": zero, "result": None})
                continue
            bad = None
            sample = None
            cases = []
            for st, elim_e, rep_e in res:
                for target in _all_choices(E, elim_e, val, seen, False):
                    for R in _all_choices(E, rep_e, val, seen, zero):
                        cases.append((st, target, R))
            for st, target, R in cases:
                rhs = A.num(0) if zero else A.sym("r")
                if target.same(A.sym("e1")):
                    lhs = apply_op[op](R, A.sym("e2"))
                elif target.same(A.sym("e2")):
                    lhs = apply_op[op](A.sym("e1"), R)
                else:
                    r.fail(Finding("C13.eliminate", f, "eliminated-operand", "the eliminated expression is not an operand of the left-hand side", node=st))
                    bad = "operand"
                    break
                if lhs.same(rhs):
                    sample = {"operator": op, "replacement": repr(R), "check": f"({R!r}) {op} e2 == {rhs!r}"}
                else:
                    bad = (R, lhs, rhs, st)
                    break
            if bad == "operand":
                continue
            if bad is None:
                r.ok(sample)
            else:
                R, lhs, rhs, st = bad
                r.fail(Finding("C13.eliminate", f, f"elimination:{op}", f"for (= ({op} e1 e2) r) the method substitutes e1 := {R!r}, but ({R!r}) {op} e2 = {lhs!r}, not {rhs!r}: "
                               f"every inequality rewritten with it changes its meaning", node=st))
    r.require_sites(3)
    return r


class _NeedChoice(Exception):
    def __init__(self, key, test):
        self.key, self.test = key, test


def _all_choices(E, expr, val, seen, zero_r):
    """the values an expression can construct when every branch condition the analysis cannot decide is taken either way"""
    pending, out = [{}], []
    while pending:
        ch = pending.pop()
        E.choice = ch
        try:
            out.append(E.eval(expr, val, seen, zero_r))
        except _NeedChoice as nc:
            if len(ch) >= 4:
                raise AnalysisError(f"extract_eliminated_expressions: too many branch conditions that are not recognised ({unparse(nc.test, 50)})")
            pending.append({**ch, nc.key: True})
            pending.append({**ch, nc.key: False})
        finally:
            E.choice = {}
    return out


def rule_digits(repo: Repo, rid: str = "C13.digits", modules=(NS,), pname: str = "decimal_digits") -> RuleResult:
    """option threading: a printer that is told how many decimals to keep hands that number to every function of the same module it
    calls that also takes it (otherwise nested parts are printed at the callee's default precision)"""
    r = RuleResult(rid, f"every function with a `{pname}` parameter passes it on to the functions of the same module that take one",
                   "up to rounding of coefficients at the REQUESTED number of decimals")
    mods = [repo.module(m) for m in modules]
    for f in repo.all_funcs():
        if f.mod not in mods or pname not in f.params:
            continue
        calls = 0
        for c in L.calls_in(f.node):
            _cat, tg = repo.resolve_call(f, c)
            if any(t is not None and t.mod in mods and pname in t.params for _k, t, _c in tg):
                calls += 1
        if not calls:
            continue
        r.site(f.qn)
        bad = [(c, t, what) for c, t, what in L.unthreaded_options(repo, f, pname) if t.mod in mods]
        if bad:
            c, t, what = bad[0]
            r.fail(Finding(rid, f, f"option-dropped:{pname}", f"{unparse(c, 60)} does not pass `{pname}` on to {t.qn.split('::')[-1]} "
                           f"({'it passes ' + what if what else 'the callee uses its default'}): that part is rounded at another precision", node=c))
        else:
            r.ok({"function": f.qn, "calls_with_option": calls})
    r.require_sites(1)
    return r


_SPEC_FIELD = re.compile(r"\{[^{}]*:[^{}]*(?:\.|\{)[^{}]*(?:\{[^{}]*\}[^{}]*)*\}")
_PERCENT_PREC = re.compile(r"%[-+ #0]*\d*\.(?:\d+|\*)[feEgG]")


def _precision_limited(e: ast.AST) -> List[ast.AST]:
    """operands whose text is cut to a number of decimals by this expression: round(x, d), format(x, '.3f'), '{:.3f}'.format(x),
    f'{x:.3f}', '%.3f' % x"""
    if isinstance(e, ast.Call):
        nm = callee_name(e)
        if nm == "round" and e.args and isinstance(e.func, (ast.Name, ast.Attribute)):
            return [e.args[0]]
        if nm == "format" and isinstance(e.func, ast.Name) and len(e.args) == 2:
            return [e.args[0]]
        if nm == "format" and isinstance(e.func, ast.Attribute) and isinstance(e.func.value, ast.Constant) and isinstance(e.func.value.value, str) \
                and _SPEC_FIELD.search(e.func.value.value):
            return list(e.args) + [k.value for k in e.keywords]
        if nm in ("quantize", "around", "round_") and e.args:
            return [e.args[0]] + ([e.func.value] if isinstance(e.func, ast.Attribute) else [])
    if isinstance(e, ast.FormattedValue) and e.format_spec is not None:
        return [e.value]
    if isinstance(e, ast.BinOp) and isinstance(e.op, ast.Mod) and isinstance(e.left, ast.Constant) and isinstance(e.left.value, str) \
            and _PERCENT_PREC.search(e.left.value):
        return list(e.right.elts) if isinstance(e.right, ast.Tuple) else [e.right]
    return []


def rule_fullprecision(repo: Repo, rid: str = "C13.fullprecision") -> RuleResult:
    """the infix text handed to sympy carries every constant of the expression as it is: rounding belongs to the PRINTING of the
    simplified result (at the requested number of decimals), not to its input -- a coefficient cut to a fixed number of decimals before
    simplification changes the condition (2.99999 becomes 3, 0.00002 drops its whole monomial)"""
    r = RuleResult(rid, "to_mathematical writes the constants of the expression unrounded (no round / precision format on a node value)",
                   "equivalent up to rounding of coefficients at the REQUESTED number of decimals")
    f = _fn(repo, "NumericalExpressionTree.to_mathematical")
    p = L.prov(repo, f)
    r.site(f.qn + " [constants]")
    bad = None
    for e in ast.walk(f.node):
        for x in _precision_limited(e):
            try:
                tr = p.trace(x)
            except KeyError:
                continue
            if any("attr:value" in t and t[0].startswith(("self", "param:")) for t in tr) and L.flows_to_return(f, e):
                bad = e
    if bad is not None:
        r.fail(Finding(rid, f, "constant-rounded", f"{unparse(bad, 70)} cuts a constant of the expression to a fixed number of decimals before the expression is "
                       f"simplified: the simplified condition is no longer equivalent at the requested precision", node=bad))
    else:
        r.ok({"constants": "written as they are"})
    return r


def rule_opmatch(repo: Repo, rid: str = "C13.opmatch") -> RuleResult:
    """the operator that joins the parts of a sympy node is the operator OF THAT NODE: wherever the printer is entered (or re-entered) with
    an expression and an operator, the operator is SYMPY_OP_TO_PDDL_OP[<that expression>.func] -- never the operator of the enclosing node
    (a sum under a reciprocal would be joined with the reciprocal's '^')"""
    r = RuleResult(rid, "every (expression, operator) pair handed to the recursive printer is (X, SYMPY_OP_TO_PDDL_OP[X.func])",
                   "text that uses only binary + - * / and denotes the simplified expression")
    m = repo.module(NS)
    funcs = [f for f in repo.all_funcs() if f.mod is m]
    # the printers: functions of the module with a parameter that is written as the head of a parenthesised text "({operator} ..."
    head_params: Dict[str, Tuple[FuncInfo, str, int]] = {}
    for f in funcs:
        for n in ast.walk(f.node):
            if isinstance(n, ast.JoinedStr):
                for a, b in zip(n.values, n.values[1:]):
                    if isinstance(a, ast.Constant) and isinstance(a.value, str) and a.value.endswith("(") and isinstance(b, ast.FormattedValue) \
                            and isinstance(b.value, ast.Name) and b.value.id in f.params:
                        head_params[f.qn] = (f, b.value.id, f.params.index(b.value.id))
            cand = None
            tmpl = None
            if isinstance(n, ast.Call) and isinstance(n.func, ast.Attribute) and n.func.attr == "format":
                okf, tv = repo.fold(n.func.value, f.mod.name)
                tmpl = tv if okf and isinstance(tv, str) else None
            if tmpl is not None and re.match(r"\s*\(\{\w*\}", tmpl):
                fld = re.match(r"\s*\(\{(\w*)\}", tmpl).group(1)
                cand = n.args[0] if (fld == "" or fld == "0") and n.args else next((k.value for k in n.keywords if k.arg == fld), None)
            elif isinstance(n, ast.BinOp) and isinstance(n.op, ast.Mod) and isinstance(n.left, ast.Constant) and isinstance(n.left.value, str) \
                    and re.match(r"\s*\(%s", n.left.value):
                cand = n.right.elts[0] if isinstance(n.right, ast.Tuple) and n.right.elts else n.right
            elif isinstance(n, ast.BinOp) and isinstance(n.op, ast.Add) and isinstance(n.left, ast.Constant) and n.left.value == "(":
                cand = n.right
            if isinstance(cand, ast.Name) and cand.id in f.params:
                head_params[f.qn] = (f, cand.id, f.params.index(cand.id))
    def operator_unwritten() -> bool:
        """def-use: the operator looked up for the node (SYMPY_OP_TO_PDDL_OP[<node>.func]) reaches no returned text of the printer"""
        ff = _fn(repo, f"{NS}::convert_expr_to_pddl")
        pp = L.prov(repo, ff)
        looked_up = []
        for n in ast.walk(ff.node):
            if isinstance(n, ast.Subscript) and isinstance(n.ctx, ast.Load):
                try:
                    tr = pp.trace(n.value)
                except (KeyError, RecursionError):
                    continue
                if any(x[0] == "global:SYMPY_OP_TO_PDDL_OP" for x in tr):
                    looked_up.append(n)
        # only the look-up for the node itself (not the ones handed on to the recursive calls) decides: it is the first in source order
        own = [n for n in looked_up if not any(isinstance(par, ast.Call) and n in par.args for par in ast.walk(ff.node))]
        if any(isinstance(n, (ast.FunctionDef, ast.Lambda)) and n is not ff.node for n in ast.walk(ff.node)):
            return False        # a nested function may write the operator: def-use through closures is not followed
        return bool(own) and not any(U.flows_to_return(ff, n) for n in own)

    if not head_params:
        if operator_unwritten():
            r.site(f"{NS}::convert_expr_to_pddl [operator]")
            r.fail(Finding(rid, _fn(repo, f"{NS}::convert_expr_to_pddl"), "operator-never-written", "the operator looked up for a sum / product (SYMPY_OP_TO_PDDL_OP[node.func]) "
                           "reaches no text the printer returns: the parts of the node are not joined by it"))
            return r
        raise AnalysisError("no printer with an operator parameter written as the head of '(op a b)' found in numeric_symbolic_operations")
    # a parameter handed on to a head parameter is a head parameter of the caller (helpers that only nest the parts)
    for _ in range(4):
        grew = False
        for f in funcs:
            if f.qn in head_params:
                continue
            for c in L.calls_in(f.node):
                _cat, tg = repo.resolve_call(f, c)
                for _k, t, _c in tg:
                    if t is None or t.qn not in head_params:
                        continue
                    a_ = L.arg_of(c, head_params[t.qn][0], head_params[t.qn][1])
                    if isinstance(a_, ast.Name) and a_.id in f.params and f.qn not in head_params:
                        head_params[f.qn] = (f, a_.id, f.params.index(a_.id))
                        grew = True
        if not grew:
            break

    def expr_param(tf: FuncInfo, depth: int = 0) -> Optional[str]:
        """the parameter that is the sympy node: .args / .func / .is_Atom / .base / .exp are read from it, or (a function that only
        hands the pair on) it is passed as the node to another printer"""
        for n in ast.walk(tf.node):
            if isinstance(n, ast.Attribute) and n.attr in ("args", "func", "is_Atom", "base", "exp") and isinstance(n.value, ast.Name) and n.value.id in tf.params:
                return n.value.id
        if depth < 3:
            for c in L.calls_in(tf.node):
                _cat, tg = repo.resolve_call(tf, c)
                for _k, t, _c in tg:
                    if t is None or t.qn not in head_params or t.qn == tf.qn:
                        continue
                    ep = expr_param(head_params[t.qn][0], depth + 1)
                    a_ = L.arg_of(c, head_params[t.qn][0], ep) if ep else None
                    if isinstance(a_, ast.Name) and a_.id in tf.params:
                        return a_.id
        return None

    n_sites = 0
    for f in funcs:
        p = L.prov(repo, f)
        for c in L.calls_in(f.node):
            _cat, tg = repo.resolve_call(f, c)
            for _k, t, _c in tg:
                if t is None or t.qn not in head_params:
                    continue
                tf, pname, _i = head_params[t.qn]
                ep = expr_param(tf)
                op = L.arg_of(c, tf, pname)
                ex = L.arg_of(c, tf, ep) if ep is not None and ep != pname else None
                if op is None or ex is None:
                    continue
                n_sites += 1
                r.site(L.site(f, c, "printer call"))
                tr = p.trace(op, keys=True)
                ex_paths = {x for x in p.trace(ex)}
                table = any(x[0] == "global:SYMPY_OP_TO_PDDL_OP" for x in tr)
                keys = {x[:x.index("attr:func")] for x in tr if "askey" in x and "attr:func" in x and x[-1] == "askey" and x[-2] == "attr:func"}
                own = head_params.get(f.qn)
                own_ex = expr_param(f) if own is not None else None
                if table and keys and (keys & ex_paths):
                    r.ok({"call": unparse(c, 70), "operator": "SYMPY_OP_TO_PDDL_OP[<expression>.func]"})
                elif own is not None and own_ex and own_ex != own[1] and set(tr) == {(f"param:{own[1]}",)} and ex_paths == {(f"param:{own_ex}",)}:
                    # the pair is handed on as it was received: (node, operator of that node) is what every caller is held to
                    r.ok({"call": unparse(c, 70), "operator": "the pair (expression, operator) of the enclosing printer, handed on unchanged"})
                else:
                    what = "the operator parameter of the enclosing call" if any(x[0].startswith("param:") and len(x) == 1 for x in tr) else f"{sorted(tr)[:2]}"
                    r.fail(Finding(rid, f, "operator-of-other-node", f"{unparse(c, 70)}: the operator handed over for {unparse(ex, 30)} is {what}, not "
                                   f"SYMPY_OP_TO_PDDL_OP[{unparse(ex, 30)}.func]: the parts of that node are joined with another node's operator", node=c))
    if n_sites < 2 and operator_unwritten():
        r.site(f"{NS}::convert_expr_to_pddl [operator]")
        r.fail(Finding(rid, _fn(repo, f"{NS}::convert_expr_to_pddl"), "operator-never-written", "the operator looked up for a sum / product (SYMPY_OP_TO_PDDL_OP[node.func]) "
                       "reaches no text the printer returns: the parts of the node are not joined by it"))
        return r
    if n_sites < 2:
        raise AnalysisError(f"calls of the recursive printer with an (expression, operator) pair: {n_sites} found, at least 2 expected")
    return r


# =============================================================================================================== C13.returns
import builtins as _builtins

PRE = "models.pddl_precondition"
TEXT_RESULT_MODULES = (NS, PRE)          # where the simplified text is built and handed on


def _own_scope_nodes(root: ast.AST):
    """the nodes of an expression / statement header that are evaluated in the function's own scope: nested functions, lambdas and
    class bodies are other scopes; comprehensions are walked with the names they bind"""
    def walk(n, bound: frozenset):
        if isinstance(n, (ast.FunctionDef, ast.AsyncFunctionDef, ast.Lambda, ast.ClassDef)):
            return
        if isinstance(n, (ast.ListComp, ast.SetComp, ast.GeneratorExp, ast.DictComp)):
            b = set(bound)
            for i, g_ in enumerate(n.generators):
                yield from walk(g_.iter, frozenset(b))
                b |= C.target_names(g_.target)
                for c_ in g_.ifs:
                    yield from walk(c_, frozenset(b))
            for part in ((n.key, n.value) if isinstance(n, ast.DictComp) else (n.elt,)):
                yield from walk(part, frozenset(b))
            return
        yield n, bound
        for ch in ast.iter_child_nodes(n):
            yield from walk(ch, bound)
    yield from walk(root, frozenset())


def _local_names(fn: ast.FunctionDef) -> Set[str]:
    a = fn.args
    out = {x.arg for x in a.posonlyargs + a.args + a.kwonlyargs}
    if a.vararg:
        out.add(a.vararg.arg)
    if a.kwarg:
        out.add(a.kwarg.arg)
    declared: Set[str] = set()

    def visit(n):
        for ch in ast.iter_child_nodes(n):
            if isinstance(ch, (ast.FunctionDef, ast.AsyncFunctionDef, ast.ClassDef)):
                out.add(ch.name)
                continue
            if isinstance(ch, ast.Lambda):
                continue
            if isinstance(ch, (ast.ListComp, ast.SetComp, ast.GeneratorExp, ast.DictComp)):
                out.update(w.target.id for w in ast.walk(ch) if isinstance(w, ast.NamedExpr) and isinstance(w.target, ast.Name))
                continue
            if isinstance(ch, ast.Name) and isinstance(ch.ctx, (ast.Store, ast.Del)):
                out.add(ch.id)
            elif isinstance(ch, ast.ExceptHandler) and ch.name:
                out.add(ch.name)
            elif isinstance(ch, (ast.Import, ast.ImportFrom)):
                out.update((x.asname or x.name).split(".")[0] for x in ch.names)
            elif isinstance(ch, (ast.Global, ast.Nonlocal)):
                declared.update(ch.names)
            visit(ch)

    for st in fn.body:
        visit(ast.Module(body=[st], type_ignores=[]))
    return out - declared


def _module_level_names(m) -> Set[str]:
    out: Set[str] = set(m.defs) | set(m.imports)
    for n in ast.walk(m.tree):
        if isinstance(n, (ast.FunctionDef, ast.AsyncFunctionDef, ast.ClassDef, ast.Lambda)):
            continue
    def visit(n):
        for ch in ast.iter_child_nodes(n):
            if isinstance(ch, (ast.FunctionDef, ast.AsyncFunctionDef, ast.ClassDef)):
                out.add(ch.name)
                continue
            if isinstance(ch, ast.Name) and isinstance(ch.ctx, ast.Store):
                out.add(ch.id)
            elif isinstance(ch, (ast.Import, ast.ImportFrom)):
                out.update((x.asname or x.name).split(".")[0] for x in ch.names)
            visit(ch)
    visit(m.tree)
    return out


def _maydef_forward(g: C.CFG, params: Set[str]) -> Dict[int, Set[str]]:
    """for every CFG node the names that MAY have been bound when the node is reached for the first time: definitions are propagated
    along forward edges only (an edge from the body of a loop back to its head is not followed)"""
    def inside(n: int, head: int) -> bool:
        cur = g.loop_of.get(n)
        while cur is not None:
            if cur == head:
                return True
            cur = g.loop_of.get(cur)
        return False

    def binds(st) -> Set[str]:
        if st is None:
            return set()
        out = set(C.defs_of(st))
        if isinstance(st, (ast.FunctionDef, ast.AsyncFunctionDef, ast.ClassDef)):
            out.add(st.name)
        elif isinstance(st, (ast.Import, ast.ImportFrom)):
            out.update((x.asname or x.name).split(".")[0] for x in st.names)
        elif isinstance(st, ast.ExceptHandler) and st.name:
            out.add(st.name)
        h = C.header(st)
        if h is not None and not isinstance(st, (ast.FunctionDef, ast.AsyncFunctionDef, ast.ClassDef)):
            out.update(w.target.id for w in ast.walk(h) if isinstance(w, ast.NamedExpr) and isinstance(w.target, ast.Name))
        return out

    live = C.reachable_from(g, g.entry)
    IN: Dict[int, Set[str]] = {n: set() for n in g.nodes()}
    OUT: Dict[int, Set[str]] = {n: set() for n in g.nodes()}
    OUT[g.entry] = set(params)
    changed = True
    while changed:
        changed = False
        for n in g.nodes():
            if n == g.entry or n not in live:
                continue
            new_in: Set[str] = set()
            for p_, _l in g.pred[n]:
                if p_ not in live or (g.kind[n] == "loop" and inside(p_, n)):
                    continue
                new_in |= OUT[p_]
            new_out = new_in | binds(g.stmt[n])
            if new_in != IN[n] or new_out != OUT[n]:
                IN[n], OUT[n] = new_in, new_out
                changed = True
    return IN


def rule_returns(repo: Repo, rid: str = "C13.returns") -> RuleResult:
    """two conditions without which a function that has to hand on the simplified text cannot do so: (1) a function declared `-> str` has no
    path that leaves it without a return statement (it would hand on None, printed as 'None' or dropped by the caller's truth test);
    (2) no statement that is always executed reads a local name before any assignment to it on every path from the entry (or a name that
    is neither a local, a global nor a builtin): the call raises NameError / UnboundLocalError whenever that statement is reached"""
    r = RuleResult(rid, "functions declared `-> str` return on every path; no name is read before it is bound on every path",
                   "yields text that the reader accepts (not None, no exception) for every condition")
    mods = [repo.module(m) for m in TEXT_RESULT_MODULES]
    for f in repo.all_funcs():
        if f.mod not in mods or getattr(f.node, "synthesised", False):
            continue
        fn = f.node
        g = C.cfg_of(fn)
        live = C.reachable_from(g, g.entry)
        is_gen = any(isinstance(x, (ast.Yield, ast.YieldFrom)) for x in ast.walk(fn))
        ret = fn.returns
        declared_str = (isinstance(ret, ast.Name) and ret.id == "str") or (isinstance(ret, ast.Constant) and ret.value == "str")
        if declared_str and not is_gen:
            r.site(f.qn + " [returns text]")
            ends = [p_ for p_, _l in g.pred[g.exit] if p_ in live and g.kind[p_] != "return"]
            if ends:
                st = g.stmt[ends[0]]
                r.fail(Finding(rid, f, "falls-off-the-end", f"{f.qn.split('::')[-1]} is declared `-> str` but a path leaves it without a return statement (after "
                               f"{unparse(C.header(st), 50) if st is not None and C.header(st) is not None else 'the entry'}): the caller receives None", node=st))
            else:
                r.ok({"function": f.qn, "returns_on_every_path": True})
        # ---- names read before they are bound
        r.site(f.qn + " [names]")
        local = _local_names(fn)
        params = {x for x in local if x in f.params or x in {a_.arg for a_ in ([fn.args.vararg] if fn.args.vararg else []) + ([fn.args.kwarg] if fn.args.kwarg else [])}}
        globals_ = _module_level_names(f.mod)
        IN = _maydef_forward(g, params)
        G = None
        bad = None
        for n in g.nodes():
            st = g.stmt[n]
            if st is None or n not in live or g.kind[n] == "except" or isinstance(st, ast.ExceptHandler):
                continue
            in_handler = False
            for x in ast.walk(fn):
                if isinstance(x, ast.Try) and any(st is y for h in x.handlers for y in ast.walk(h)) or \
                        isinstance(x, ast.Try) and any(st is y for fb in x.finalbody for y in ast.walk(fb)):
                    in_handler = True
                    break
            if in_handler:
                continue
            h = C.header(st)
            if h is None:
                continue
            roots = [h]
            if isinstance(st, ast.AnnAssign):
                roots = [x for x in (st.value, st.target) if x is not None]
            elif isinstance(st, (ast.FunctionDef, ast.AsyncFunctionDef, ast.ClassDef)):
                roots = []
            for root in roots:
                for x, bound in _own_scope_nodes(root):
                    if not isinstance(x, ast.Name) or x.id in bound:
                        continue
                    reads = isinstance(x.ctx, ast.Load) or (isinstance(st, ast.AugAssign) and x is st.target)
                    if not reads:
                        continue
                    if x.id in local:
                        if x.id in IN[n] or x.id in params:
                            continue
                        # executed whenever its loops are entered?
                        always = True
                        cur = n
                        while g.loop_of.get(cur) is not None:
                            head = g.loop_of[cur]
                            if G is None:
                                G = L.Guards(f, lambda e: None)
                            if not L.must_pass_in_loop(G, {}, g.stmt[head], {cur}):
                                always = False
                                break
                            cur = head
                        if always and bad is None:
                            bad = (x, st, f"the local name `{x.id}` is read in `{unparse(h, 60)}` before any assignment to it can have been executed: "
                                          f"UnboundLocalError on the first time the statement is reached")
                    elif x.id not in globals_ and not hasattr(_builtins, x.id) and repo.lookup(f.mod.name, x.id) is None:
                        if bad is None:
                            bad = (x, st, f"the name `{x.id}` read in `{unparse(h, 60)}` is bound nowhere (not a local, not a module-level name, not a builtin): "
                                          f"NameError whenever the statement is reached")
        if bad:
            r.fail(Finding(rid, f, "name-unbound", f"{f.qn.split('::')[-1]}: {bad[2]}", node=bad[1]))
        else:
            r.ok({"function": f.qn, "names_bound": True})
    r.require_sites(4)
    return r


# =============================================================================================================== C13.operands
OUTER_PARENTHESES = (1, -1)       # to_mathematical() wraps a compound node in one pair of parentheses: exactly these are cut off before the split
PARSERS = ("arg0:sympify", "arg0:parse_expr", "arg0:S", "arg0:parse")     # what turns text into a sympy expression
PRINTER = "convert_expr_to_pddl"
ZERO_FLAG = "should_remove_trailing_zeros"


def _small_int(text: str) -> Optional[int]:
    """the value of a slice bound written as integer arithmetic on literals (`1`, `-1`, `1 + 1`); None for anything else"""
    try:
        tree = ast.parse(text.strip(), mode="eval").body
    except SyntaxError:
        return None

    def ev(n) -> Optional[int]:
        if isinstance(n, ast.Constant) and isinstance(n.value, int) and not isinstance(n.value, bool):
            return n.value
        if isinstance(n, ast.UnaryOp) and isinstance(n.op, (ast.USub, ast.UAdd)):
            v = ev(n.operand)
            return None if v is None else (-v if isinstance(n.op, ast.USub) else v)
        if isinstance(n, ast.BinOp) and isinstance(n.op, (ast.Add, ast.Sub, ast.Mult)):
            a, b = ev(n.left), ev(n.right)
            if a is None or b is None:
                return None
            return a + b if isinstance(n.op, ast.Add) else a - b if isinstance(n.op, ast.Sub) else a * b
        return None
    return ev(tree)


def _net_slice(path, upto=SPLITTERS) -> Optional[Tuple[int, int]]:
    """(characters cut off at the front, at the end) by the constant slices a text passes before it is split; None when another
    operation changes the text or a bound is not a constant of the right sign"""
    lo, hi = 0, 0
    for st in path[1:]:
        if st in upto:
            return lo, hi
        if st.startswith("slice:"):
            parts = st.split(":")
            if len(parts) != 3:
                return None
            a, b = parts[1], parts[2]
            a_ = _small_int(a) if a not in ("", "None") else 0
            b_ = _small_int(b) if b not in ("", "None") else 0
            if a_ is None or b_ is None:
                return None
            if a_ < 0 or b_ > 0:
                return None
            lo, hi = lo + a_, hi + b_
        elif st.startswith(("call:strip", "call:lstrip", "call:rstrip", "call:replace", "call:removeprefix", "call:removesuffix", "item", "call:partition", "call:format")):
            return None
    return lo, hi


def _front_end_slices(repo: Repo, f: FuncInfo, p, text_param: str, exprs: List[ast.AST]) -> Set[Optional[Tuple[int, int]]]:
    out: Set[Optional[Tuple[int, int]]] = set()
    for e in exprs:
        try:
            tr = U.norm_paths(repo, p.trace(e))
        except KeyError:
            continue
        for x in tr:
            if x[0] == f"param:{text_param}" and U.is_main_flow(x, CARRIERS) and any(st in SPLITTERS for st in x):
                out.add(_net_slice(x))
    return out


def _printer_calls(repo: Repo, f: FuncInfo) -> List[ast.Call]:
    return [c for c in L.calls_in(f.node) if U.ext_callee(repo, f, c) == PRINTER]


def _const_of_arg(repo: Repo, p, e: Optional[ast.AST]):
    """('const', value) when every provenance path of the argument is one constant, ('default',) when it is not passed, else ('other',)"""
    if e is None:
        return ("default",)
    try:
        tr = p.trace(e)
    except KeyError:
        return ("other",)
    if tr and all(len(x) == 1 and x[0].startswith("const:") for x in tr) and len({x[0] for x in tr}) == 1:
        return ("const", next(iter(tr))[0][6:])
    return ("other",)


DEFAULT_INTERNAL_SLICE = {"simplify_inequality": OUTER_PARENTHESES, "simplify_equality": (0, 0)}     # who cuts the outer parentheses off today


def _caller_slices(repo: Repo, kind: str) -> Set[Optional[Tuple[int, int]]]:
    """what the callers of a front-end cut off to_mathematical() before they hand the text over (None: not a chain of constant slices)"""
    out: Set[Optional[Tuple[int, int]]] = set()
    callee = repo.func(f"{NS}::{kind}")
    for h in repo.all_funcs():
        if getattr(h.node, "synthesised", False) or h.name == kind or not any(U.ext_callee(repo, h, c) == kind for c in L.calls_in(h.node)):
            continue
        f = L.fn(repo, f"{h.cls}.{h.name}" if h.cls else f"{h.mod.short}::{h.name}")
        p = L.prov(repo, f)
        for c in L.calls_in(f.node):
            if U.ext_callee(repo, f, c) != kind:
                continue
            a0 = L.arg_of(c, callee, callee.params[0], 0)
            try:
                tr = U.norm_paths(repo, p.trace(a0)) if a0 is not None else set()
            except KeyError:
                tr = set()
            nets = set()
            for x in tr:
                if "call:to_mathematical" in x and U.is_main_flow(x):
                    i = len(x) - 1 - list(reversed(x)).index("call:to_mathematical")
                    nets.add(_net_slice(("root",) + tuple(x[i + 1:]), upto=()))
            out |= nets or {None}
    return out


def rule_operands(repo: Repo, rid: str = "C13.operands") -> RuleResult:
    """how the comparison text reaches sympy and the printer in simplify_inequality / simplify_equality, by provenance of the arguments:
    the text is split after exactly the outer parentheses are cut off (inequality) / as it is (equality: the caller cuts them); the first
    argument of transform_expression is text, the second the symbols of an earlier call; text reaches Eq only through a parser; the side
    printed second (right-hand side) is printed with zero-dropping off; the loop over the assumptions is not left early and substitutes
    into both sides on every path; an always-true equation is told apart before .lhs / .rhs are read"""
    r = RuleResult(rid, "comparison front-ends: slices of the comparison text, argument roles of transform_expression / Eq, zero-dropping off on the right-hand "
                        "side, every assumption substituted into both sides, the always-true case guarded",
                   "means the same as the original; valid PDDL; omitted only if implied")
    conv = repo.func(f"{NS}::{PRINTER}")
    for fname, want_slice, side_of in (("simplify_inequality", OUTER_PARENTHESES, "split"), ("simplify_equality", (0, 0), "eq")):
        f = _fn(repo, f"{NS}::{fname}")
        p = L.prov(repo, f)
        if not f.params:
            raise AnalysisError(f"{fname}: no parameters")
        text_param = f.params[0]
        calls = _printer_calls(repo, f)
        r.site(f"{f.qn} [printer calls]")
        if not calls:
            r.fail(Finding(rid, f, f"{fname}:not-printed", f"{fname} never hands a side to {PRINTER}"))
            continue
        # ---- slices
        r.site(f"{f.qn} [operand text]")
        slices = _front_end_slices(repo, f, p, text_param, [c.args[0] for c in calls if c.args])
        known = {x for x in slices if x is not None}
        if not slices or None in slices:
            r.notes.append(f"{fname}: the way the text reaches split() is not a chain of constant slices -- not decided")
        elif known == {want_slice}:
            r.ok({"function": fname, "cut_off_before_split": want_slice})
        elif len(known) == 1 and (lambda cs: cs and None not in cs and all((a + next(iter(known))[0], b + next(iter(known))[1]) == OUTER_PARENTHESES for a, b in cs))(_caller_slices(repo, fname)):
            # the outer parentheses are cut off once, by the callers instead of here (or the other way round)
            r.ok({"function": fname, "cut_off_before_split": sorted(known), "callers": "cut off the rest"})
        else:
            r.fail(Finding(rid, f, f"{fname}:operand-slice", f"{fname} cuts {sorted(known)} (front, end) characters off the comparison text before it is split; "
                           f"{want_slice} are the outer parentheses -- an operand loses / keeps a character", node=calls[0]))
        # ---- right-hand side printed with zero-dropping off
        r.site(f"{f.qn} [right-hand side]")
        rights = []
        for c in calls:
            if not c.args:
                continue
            try:
                tr = U.norm_paths(repo, p.trace(c.args[0]))
            except KeyError:
                continue
            main = [x for x in tr if U.is_main_flow(x, CARRIERS)]
            if side_of == "split":
                sides = {_split_side(x) for x in main if x[0] == f"param:{text_param}"} - {None}
                if sides == {1}:
                    rights.append(c)
            else:
                kinds = set()
                for x in main:
                    for i, st in enumerate(x):
                        if st in ("attr:lhs", "attr:rhs"):
                            kinds.add(st[5:])
                if kinds == {"rhs"}:
                    rights.append(c)
        if not rights:
            r.notes.append(f"{fname}: the call that prints the right-hand side is not recognised -- not decided")
        else:
            bad = None
            for c in rights:
                got = _const_of_arg(repo, p, L.arg_of(c, conv, ZERO_FLAG))
                if got != ("const", "False"):
                    bad = (c, got)
            if bad:
                r.fail(Finding(rid, f, f"{fname}:right-side-zero-dropping", f"{fname} prints the right-hand side with {ZERO_FLAG} "
                               f"{'at its default (True)' if bad[1] == ('default',) else 'not the constant False'}: a right-hand side that rounds to zero is printed as 'None'", node=bad[0]))
            else:
                r.ok({"function": fname, "right_side_zero_dropping": False})
        # ---- argument roles of transform_expression
        tcalls = [c for c in L.calls_in(f.node) if U.ext_callee(repo, f, c) == "transform_expression"]
        te = repo.func(f"{NS}::transform_expression")
        for c in tcalls:
            r.site(L.site(f, c, "transform_expression arguments"))
            a0 = L.arg_of(c, te, te.params[0], 0)
            a1 = L.arg_of(c, te, te.params[1], 1) if len(te.params) > 1 else None
            is_symbols = lambda x: len(x) >= 2 and x[-1] == "unpack:1" and x[-2].endswith(":transform_expression")
            try:
                t0 = U.norm_paths(repo, p.trace(a0)) if a0 is not None else set()
                t1 = U.norm_paths(repo, p.trace(a1)) if a1 is not None else set()
            except KeyError:
                r.notes.append(f"{fname}: arguments of {unparse(c, 50)} not traced")
                continue
            t0 = {x for x in t0 if not x[0].startswith("const:")} or t0
            if t0 and all(is_symbols(x) for x in t0) or (t1 and any(x[0].startswith("param:") for x in t1) and not any(is_symbols(x) for x in t1)
                                                         and all(not x[0].startswith("const:None") for x in t1) and any(is_symbols(x) for x in t0)):
                r.fail(Finding(rid, f, f"{fname}:transform-arguments", f"{unparse(c, 70)}: the first argument of transform_expression is the symbol table of an earlier "
                               f"call, not the text to transform (arguments exchanged)", node=c))
            else:
                r.ok({"call": unparse(c, 60)})
        # ---- text reaches Eq only through a parser
        for c in [c for c in L.calls_in(f.node) if U.ext_callee(repo, f, c) in ("Eq", "Equality")]:
            r.site(L.site(f, c, "equation operands"))
            bad = None
            for i, a in enumerate(c.args[:2]):
                try:
                    tr = U.norm_paths(repo, p.trace(a))
                except KeyError:
                    continue
                for x in tr:
                    if (x[0].startswith("param:") and U.is_main_flow(x, CARRIERS)) and not any(st in PARSERS for st in x) and any(st in SPLITTERS for st in x):
                        bad = (i, x)
            if bad:
                r.fail(Finding(rid, f, f"{fname}:equation-operand-text", f"{unparse(c, 60)}: operand {bad[0]} is a piece of the split text that no parser "
                               f"(sympify / parse_expr) has turned into an expression: Eq raises SympifyError", node=c))
            else:
                r.ok({"call": unparse(c, 60)})
    # ---- the loop over the assumptions
    f = _fn(repo, f"{NS}::simplify_inequality")
    p = L.prov(repo, f)
    g = C.cfg_of(f.node)
    if len(f.params) >= 3:
        aparam = f.params[2]
        loops = []
        for n in g.nodes():
            st = g.stmt[n]
            if g.kind[n] == "loop" and isinstance(st, ast.For):
                try:
                    tr = p.trace(st.iter)
                except KeyError:
                    continue
                if tr and all(x[0] == f"param:{aparam}" and all(s_ in ("arg0:list", "arg0:tuple", "arg0:iter", "call:copy") or s_.startswith("slice:") for s_ in x[1:]) for x in tr):
                    loops.append(st)
        r.site(f"{f.qn} [assumptions]")
        if not loops:
            r.notes.append("simplify_inequality: no loop over the assumptions recognised -- not decided")
        for loop in loops:
            G = L.Guards(f, lambda e: None)
            if L.leaves_loop_early(G, {}, loop):
                r.fail(Finding(rid, f, "simplify_inequality:assumptions-left-early", "the loop over the assumptions can be left before the last assumption "
                               "(break / return inside it): the remaining equalities are not substituted", node=loop))
                continue
            # statements of the loop that substitute into the left / into the right side
            by_side: Dict[int, Set[int]] = {0: set(), 1: set()}
            unclear = False
            for c in L.calls_in(loop):
                if isinstance(c.func, ast.Attribute) and c.func.attr in ("subs", "xreplace", "replace"):
                    try:
                        tr = U.norm_paths(repo, p.trace(c.func.value))
                    except KeyError:
                        continue
                    sides = {_split_side(x) for x in tr if x[0] == f"param:{f.params[0]}" and U.is_main_flow(x, CARRIERS)}
                    n = g.node_containing(c)
                    if n is not None and sides and sides <= {0, 1}:
                        for k in sides:
                            by_side[k].add(n)
                    elif sides:
                        unclear = True
                    if {_split_side(x) for x in tr if x[0] == f"param:{f.params[0]}"} - sides - {None}:
                        unclear = True          # a side also arrives as a secondary argument (a record / tuple of both sides is walked)
            missing = [("left", "right")[k] for k in (0, 1) if not by_side[k] or not L.must_pass_in_loop(G, {}, loop, by_side[k])]
            if missing and (unclear or not (by_side[0] or by_side[1])):
                r.notes.append("simplify_inequality: no substitution into a side recognised inside the loop over the assumptions -- not decided")
            elif missing:
                r.fail(Finding(rid, f, "simplify_inequality:assumption-not-substituted", f"a turn of the loop over the assumptions can end without substituting the "
                               f"assumption into the {' and the '.join(missing)} side", node=loop))
            else:
                r.ok({"assumptions": "substituted into both sides on every path"})
    # ---- the always-true equation
    f = _fn(repo, f"{NS}::simplify_equality")
    p = L.prov(repo, f)
    r.site(f"{f.qn} [always true]")

    def is_simplified_eq(e: ast.AST) -> bool:
        try:
            tr = U.norm_paths(repo, p.trace(e))
        except KeyError:
            return False
        main = [x for x in tr if x[0].startswith("param:") and U.is_main_flow(x, CARRIERS)]
        return bool(main) and all(x[-1] == "arg0:simplify" and any(st in ("arg0:Eq", "arg1:Eq") for st in x) for x in main)

    tests_on_it: List[ast.AST] = []

    def matcher(e: ast.AST) -> Optional[str]:
        if isinstance(e, ast.Call) and isinstance(e.func, ast.Name) and e.func.id == "isinstance" and len(e.args) == 2 and is_simplified_eq(e.args[0]):
            names = {_class_name(x) for x in (e.args[1].elts if isinstance(e.args[1], (ast.Tuple, ast.List)) else [e.args[1]])}
            return "true" if names & {"BooleanTrue", "BooleanAtom"} else None
        if isinstance(e, ast.Compare) and len(e.ops) == 1 and isinstance(e.ops[0], (ast.Eq, ast.Is, ast.NotEq, ast.IsNot)):
            for x, y in ((e.left, e.comparators[0]), (e.comparators[0], e.left)):
                if is_simplified_eq(x) and ((isinstance(y, ast.Constant) and y.value is True) or (isinstance(y, ast.Attribute) and y.attr == "true")):
                    return "true" if isinstance(e.ops[0], (ast.Eq, ast.Is)) else "!true"
        return None

    pm = L.parents_of(f)
    for n in ast.walk(f.node):
        if isinstance(n, (ast.If, ast.IfExp, ast.While)):
            for x in ast.walk(n.test):
                if isinstance(x, ast.expr) and not isinstance(x, ast.Constant) and is_simplified_eq(x):
                    tests_on_it.append(n.test)
                    break
    G = _Guards(repo, f, matcher)
    g = G.g
    side_reads = [n for n in ast.walk(f.node) if isinstance(n, ast.Attribute) and n.attr in ("lhs", "rhs") and isinstance(n.ctx, ast.Load) and is_simplified_eq(n.value)]
    if not side_reads:
        r.notes.append("simplify_equality: no read of .lhs / .rhs of the simplified equation recognised -- not decided")
    elif "true" not in G.atoms_seen:
        if tests_on_it:
            r.notes.append(f"simplify_equality: the test {unparse(tests_on_it[0], 60)} on the simplified equation is not interpreted -- not decided")
        else:
            r.fail(Finding(rid, f, "simplify_equality:always-true-not-guarded", "the sides of the simplified equation are read without asking whether sympy found the "
                           "equation always true (BooleanTrue has no .lhs): an implied condition raises AttributeError instead of being omitted", node=side_reads[0]))
    else:
        seen_t = G.reach({"true": True})
        seen_f = G.reach({"true": False})
        reads_t = [n for n in side_reads if G.reaches_expr({"true": True}, n, seen=seen_t)]
        rets_f = [g.stmt[n] for n in seen_f if g.kind[n] == "return"]
        none_f = [st for st in rets_f if st.value is None or (isinstance(st.value, ast.Constant) and st.value.value in (None, ""))]
        reads_f = [n for n in side_reads if G.reaches_expr({"true": False}, n, seen=seen_f)]
        if reads_t:
            r.fail(Finding(rid, f, "simplify_equality:always-true-not-guarded", "when sympy finds the equation always true its .lhs / .rhs are still read (AttributeError): "
                           "the implied condition cannot be omitted", node=reads_t[0]))
        elif none_f or not reads_f:
            r.fail(Finding(rid, f, "simplify_equality:equation-dropped", "an equation that sympy does NOT find always true is answered with None / its sides are never "
                           "printed: the condition is omitted although nothing implies it", node=(none_f[0] if none_f else side_reads[0])))
        else:
            r.ok({"always_true": "guarded before .lhs / .rhs are read", "other_equations": "printed"})
    r.require_sites(6)
    return r


# =============================================================================================================== C13.conditions
SINK_METHODS = ("append", "add", "extend", "insert", "appendleft", "update")      # a value put into a collection
NE = "models.numerical_expression"


def _spec_of(f: FuncInfo) -> str:
    return f"{f.cls}.{f.name}" if f.cls else f"{f.mod.short}::{f.name}"


def _functions_calling(repo: Repo, names: Set[str], method: bool = False) -> List[FuncInfo]:
    out = []
    for f in repo.all_funcs():
        if getattr(f.node, "synthesised", False) or f.name in names:
            continue
        for c in L.calls_in(f.node):
            nm = c.func.attr if (method and isinstance(c.func, ast.Attribute)) else (U.ext_callee(repo, f, c) if not method else None)
            if nm in names:
                out.append(f)
                break
    return out


def _in_test(pm, e: ast.AST) -> bool:
    cur = e
    while cur in pm and not isinstance(cur, ast.stmt):
        par = pm[cur]
        if isinstance(par, (ast.If, ast.While, ast.IfExp, ast.Assert)) and par.test is cur:
            return True
        if isinstance(par, ast.comprehension) and any(cur is c for c in par.ifs):
            return True
        cur = par
    return False


def _consumers(f: FuncInfo, p, g, is_value) -> Set[int]:
    """CFG nodes of the statements that hand a value on for good: `return` / `yield` of it, or putting it into a collection that flows
    to the result -- for the expressions selected by is_value, outside of tests"""
    pm = L.parents_of(f)
    out: Set[int] = set()
    for e in ast.walk(f.node):
        if not isinstance(e, (ast.Name, ast.Call, ast.JoinedStr, ast.BinOp)) or (isinstance(e, ast.Name) and not isinstance(e.ctx, ast.Load)):
            continue
        if not is_value(e) or _in_test(pm, e):
            continue
        st = e
        while st in pm and not isinstance(st, ast.stmt):
            st = pm[st]
        if not isinstance(st, ast.stmt):
            continue
        terminal = isinstance(st, ast.Return) or (isinstance(st, ast.Expr) and isinstance(st.value, (ast.Yield, ast.YieldFrom))) or \
            (isinstance(st, ast.Expr) and isinstance(st.value, ast.Call) and isinstance(st.value.func, ast.Attribute) and st.value.func.attr in SINK_METHODS) or \
            (isinstance(st, ast.AugAssign) and isinstance(st.op, (ast.Add, ast.BitOr)) and isinstance(st.target, ast.Name))
        if terminal and U.flows_to_return(f, e):
            n = g.node_of(st)
            if n is not None:
                out.add(n)
    return out


def _origin_calls(f: FuncInfo, g, e: ast.AST, depth: int = 0) -> Optional[Set[int]]:
    """ids of the call expressions a local name stands for: every definition that reaches the use is `name = <call>` or a copy of such a
    name; None when some definition is anything else"""
    if isinstance(e, ast.Call):
        return {id(e)}
    if not isinstance(e, ast.Name) or depth > 4:
        return None
    n = g.node_containing(e)
    if n is None:
        return None
    defs = L.rd_of(f).defs_reaching(n, e.id)
    if not defs:
        return None
    out: Set[int] = set()
    for d in defs:
        st = g.stmt[d]
        v = None
        if d != g.entry and isinstance(st, ast.Assign) and len(st.targets) == 1 and isinstance(st.targets[0], ast.Name):
            v = st.value
        elif d != g.entry and isinstance(st, ast.AnnAssign) and isinstance(st.target, ast.Name):
            v = st.value
        sub = _origin_calls(f, g, v, depth + 1) if v is not None else None
        if sub is None:
            return None
        out |= sub
    return out


def _passes(G, val, g, start: int, targets: Set[int]) -> bool:
    """under the valuation every way on from `start` passes one of the targets before the turn of its loop / the function ends"""
    if start in targets:
        return True
    head = g.loop_of.get(start)
    seen = G.reach(val, avoid=targets, start=start)
    for n in seen:
        if n == g.exit or (head is not None and n == head):
            return False
    return True


def rule_conditions(repo: Repo, rid: str = "C13.conditions") -> RuleResult:
    """where the conditions of a precondition are handed to simplify_equality / simplify_inequality (guard valuation over `operator == '='`,
    `result is truthy`, `elimination is None`): an equality goes to simplify_equality as to_mathematical() without exactly the outer
    parentheses, any other condition to simplify_inequality whole and with its own operator; what the call returns is handed on (returned /
    yielded / collected) on every path on which it is truthy; the loop over the conditions is not left early; an elimination that is None
    is not unpacked and one that is not None is collected as an assumption on every path"""
    r = RuleResult(rid, "every numeric condition reaches exactly one of simplify_equality / simplify_inequality (whole, right operator), its result reaches the "
                        "output on every path, usable eliminations become assumptions, None eliminations are not unpacked",
                   "a condition is omitted only if it is implied by the ones kept")
    anchor = repo.func("Precondition.print")
    internal: Dict[str, Optional[Tuple[int, int]]] = {}
    for fname in ("simplify_equality", "simplify_inequality"):
        f0 = _fn(repo, f"{NS}::{fname}")
        sl = _front_end_slices(repo, f0, L.prov(repo, f0), f0.params[0], [c.args[0] for c in _printer_calls(repo, f0) if c.args]) if f0.params else set()
        internal[fname] = next(iter(sl)) if len(sl) == 1 and None not in sl else None
    callers = _functions_calling(repo, {"simplify_equality", "simplify_inequality"})
    r.site(anchor.qn + " [simplification calls]")
    kinds_called = {U.ext_callee(repo, h, c) for h in callers for c in L.calls_in(h.node)} & {"simplify_equality", "simplify_inequality"}
    for fname in ("simplify_equality", "simplify_inequality"):
        if fname not in kinds_called:
            r.fail(Finding(rid, anchor, f"{fname}:never-called", f"no function of the library hands a condition to {fname}: "
                           f"{'equalities' if fname.endswith('equality') and 'in' not in fname else 'inequalities'} are never simplified / printed"))
    if not kinds_called:
        return r
    r.ok({"callers": sorted(h.qn for h in callers)})
    for h in callers:
        f = L.fn(repo, _spec_of(h))
        p = L.prov(repo, f)
        g = C.cfg_of(f.node)
        pm0 = L.parents_of(f)

        def in_other_scope(e) -> bool:
            cur = e
            while cur in pm0:
                cur = pm0[cur]
                if isinstance(cur, (ast.Lambda, ast.FunctionDef)) and cur is not f.node:
                    return True
            return False
        calls = {k: [c for c in L.calls_in(f.node) if U.ext_callee(repo, f, c) == k and not in_other_scope(c)] for k in ("simplify_equality", "simplify_inequality")}
        if any(U.ext_callee(repo, f, c) in calls and in_other_scope(c) for c in L.calls_in(f.node)):
            r.notes.append(f"{f.qn}: a simplification call inside a lambda / nested function is not followed -- not decided")

        def paths(e):
            try:
                return U.norm_paths(repo, p.trace(e))
            except KeyError:
                return set()

        def is_operator(e) -> bool:
            tr = [x for x in paths(e) if not x[0].startswith(("const:", "builtin:"))]
            return bool(tr) and all(len(x) >= 3 and x[-2:] == ("attr:root", "attr:value") for x in tr)

        all_call_ids = {id(c) for cs in calls.values() for c in cs}

        def is_result(e) -> bool:
            oc = _origin_calls(f, g, e) if isinstance(e, ast.Name) else None
            return bool(oc) and oc <= all_call_ids

        def matcher(e: ast.AST) -> Optional[str]:
            if isinstance(e, ast.Compare) and len(e.ops) == 1:
                o = e.ops[0]
                for x, y in ((e.left, e.comparators[0]), (e.comparators[0], e.left)):
                    if isinstance(o, (ast.Eq, ast.NotEq)) and isinstance(y, ast.Constant) and y.value == "=" and is_operator(x):
                        return "eq" if isinstance(o, ast.Eq) else "!eq"
                    if isinstance(o, (ast.Is, ast.IsNot, ast.Eq, ast.NotEq)) and isinstance(y, ast.Constant) and y.value is None and isinstance(x, ast.Name) and is_result(x):
                        return "!res" if isinstance(o, (ast.Is, ast.Eq)) else "res"
                if isinstance(o, (ast.In, ast.NotIn)) and is_operator(e.left) and isinstance(e.comparators[0], (ast.Tuple, ast.List, ast.Set)) \
                        and [getattr(x, "value", None) for x in e.comparators[0].elts] == ["="]:
                    return "eq" if isinstance(o, ast.In) else "!eq"
            if isinstance(e, ast.Name) and isinstance(e.ctx, ast.Load) and is_result(e):
                return "res"
            return None

        G = _Guards(repo, f, matcher)
        both = bool(calls["simplify_equality"]) and bool(calls["simplify_inequality"])
        se, si = repo.func(f"{NS}::simplify_equality"), repo.func(f"{NS}::simplify_inequality")
        for kind, cs in calls.items():
            callee = se if kind == "simplify_equality" else si
            for c in cs:
                r.site(L.site(f, c, kind))
                problems: List[Tuple[str, str]] = []
                # -- the text handed over
                a0 = L.arg_of(c, callee, callee.params[0], 0)
                nets = set()
                for x in paths(a0) if a0 is not None else ():
                    if "call:to_mathematical" in x and U.is_main_flow(x):
                        i = len(x) - 1 - list(reversed(x)).index("call:to_mathematical")
                        nets.add(_net_slice(("root",) + tuple(x[i + 1:]), upto=()))
                if nets and None not in nets and internal[kind] is not None:
                    total = {(a + internal[kind][0], b + internal[kind][1]) for a, b in nets}
                    if total != {OUTER_PARENTHESES} and internal[kind] == DEFAULT_INTERNAL_SLICE[kind]:
                        problems.append(("text-slice", f"{unparse(c, 70)}: together with what {kind} cuts off itself {sorted(total)} (front, end) characters of "
                                         f"to_mathematical() are removed before the split; {OUTER_PARENTHESES} are the outer parentheses"))
                elif not nets or None in nets:
                    r.notes.append(f"{f.qn}: the text handed to {kind} is not to_mathematical() under constant slices -- slice not decided")
                # -- the operator
                if kind == "simplify_inequality" and len(callee.params) > 1:
                    a1 = L.arg_of(c, callee, callee.params[1], 1)
                    interpreted = lambda x: x[0].startswith(("param:", "const:")) and not any(st.startswith(("call:", "arg", "kw:")) and st not in ("call:__copy__",) for st in x)
                    if a1 is not None and paths(a1) and not is_operator(a1) and all(interpreted(x) for x in paths(a1)):
                        problems.append(("operator", f"{unparse(c, 70)}: the operator handed over is not the root value of the condition"))
                # -- dispatch on the operator
                n_call = g.node_containing(c)
                eq_as_value = [x for x in ast.walk(f.node) if isinstance(x, ast.Compare) and matcher(x) in ("eq", "!eq") and not _in_test(L.parents_of(f), x)
                               and not isinstance(L.parents_of(f).get(x), (ast.BoolOp, ast.UnaryOp))]
                if eq_as_value:
                    r.notes.append(f"{f.qn}: the comparison of the operator with '=' is used as a value, not as a test -- dispatch not decided")
                elif "eq" in G.atoms_seen:
                    here, other = (True, False) if kind == "simplify_equality" else (False, True)
                    if n_call in G.reach({"eq": other}) and G.reaches_expr({"eq": other}, c):
                        problems.append(("dispatch", f"{unparse(c, 60)} is reached for a condition whose operator is {'not ' if kind == 'simplify_equality' else ''}'=': "
                                         f"{'an inequality is printed as an equation' if kind == 'simplify_equality' else 'an equality is rewritten with its own assumption and lost'}"))
                    elif not (n_call in G.reach({"eq": here}) and G.reaches_expr({"eq": here}, c)):
                        problems.append(("dispatch", f"{unparse(c, 60)} is never reached for the conditions it is meant for"))
                elif both:
                    r.notes.append(f"{f.qn}: no test of the condition's operator against '=' recognised -- dispatch not decided")
                # -- the result is handed on
                def is_this_result(e, c=c):
                    if e is c:
                        return True
                    if isinstance(e, ast.Name) and isinstance(e.ctx, ast.Load):
                        oc = _origin_calls(f, g, e)
                        return bool(oc) and oc <= all_call_ids and id(c) in oc
                    return False
                cons = _consumers(f, p, g, is_this_result)
                val = {"eq": kind == "simplify_equality", "res": True}
                if not cons and U.flows_to_return(f, c):
                    r.notes.append(f"{f.qn}: how the result of {kind} is handed on is not recognised -- not decided")
                elif not cons:
                    problems.append(("result-dropped", f"what {unparse(c, 50)} returns is never returned / yielded / put into the collection that is returned: the simplified "
                                     f"condition is lost"))
                elif n_call is not None and n_call in G.reach(val) and not _passes(G, val, g, n_call, cons):
                    problems.append(("result-dropped", f"a path on from {unparse(c, 50)} with a non-empty result ends the turn without handing the result on "
                                     f"(the truth test is inverted or skips the collection)"))
                # -- the walk over the conditions
                head = g.loop_of.get(n_call) if n_call is not None else None
                if head is not None and isinstance(g.stmt[head], (ast.For, ast.While)):
                    for ev_, rv_ in ((True, True), (True, False), (False, True), (False, False)):
                        if L.leaves_loop_early(G, {"eq": ev_, "res": rv_}, g.stmt[head]):
                            problems.append(("walk-left-early", f"the loop that hands the conditions to {kind} can be left before the last condition "
                                             f"(break / return in a turn): the remaining conditions are omitted"))
                            break
                if problems:
                    seen_roles = set()
                    for role, text in problems:
                        if role not in seen_roles:
                            seen_roles.add(role)
                            r.fail(Finding(rid, f, f"{kind}:{role}", text, node=c))
                else:
                    r.ok({"call": unparse(c, 60), "in": f.qn})
    # ---- eliminations -> assumptions
    users = _functions_calling(repo, {"extract_eliminated_expressions"}, method=True)
    r.site(anchor.qn + " [eliminations]")
    if not users:
        r.notes.append("no caller of extract_eliminated_expressions: no equality is used for elimination (nothing to decide)")
    for h in users:
        f = L.fn(repo, _spec_of(h))
        p = L.prov(repo, f)
        g = C.cfg_of(f.node)

        def paths2(e):
            try:
                return U.norm_paths(repo, p.trace(e))
            except KeyError:
                return set()

        def is_elim(e) -> bool:
            tr = [x for x in paths2(e) if not x[0].startswith("const:")]
            return bool(tr) and all(x[-1] == "call:extract_eliminated_expressions" for x in tr)

        def is_operator2(e) -> bool:
            tr = [x for x in paths2(e) if not x[0].startswith(("const:", "builtin:"))]
            return bool(tr) and all(len(x) >= 3 and x[-2:] == ("attr:root", "attr:value") for x in tr)

        def matcher2(e: ast.AST) -> Optional[str]:
            if isinstance(e, ast.Compare) and len(e.ops) == 1:
                o = e.ops[0]
                for x, y in ((e.left, e.comparators[0]), (e.comparators[0], e.left)):
                    if isinstance(o, (ast.Is, ast.IsNot, ast.Eq, ast.NotEq)) and isinstance(y, ast.Constant) and y.value is None and is_elim(x):
                        return "none" if isinstance(o, (ast.Is, ast.Eq)) else "!none"
                    if isinstance(o, (ast.Eq, ast.NotEq)) and isinstance(y, ast.Constant) and y.value == "=" and is_operator2(x):
                        return "eq" if isinstance(o, ast.Eq) else "!eq"
            if isinstance(e, ast.Name) and isinstance(e.ctx, ast.Load) and is_elim(e):
                return "!none"
            return None

        G = _Guards(repo, f, matcher2)
        pm = L.parents_of(f)
        ecalls = [c for c in L.calls_in(f.node) if isinstance(c.func, ast.Attribute) and c.func.attr == "extract_eliminated_expressions"]
        for c in ecalls:
            r.site(L.site(f, c, "elimination"))
            unpacks = []
            for n in ast.walk(f.node):
                if isinstance(n, ast.Assign) and isinstance(n.targets[0], (ast.Tuple, ast.List)) and is_elim(n.value):
                    unpacks.append(n)
                elif isinstance(n, ast.Subscript) and isinstance(n.ctx, ast.Load) and is_elim(n.value):
                    unpacks.append(n)
            tests = [n for n in ast.walk(f.node) if isinstance(n, (ast.If, ast.IfExp, ast.While)) and any(isinstance(x, ast.expr) and is_elim(x) for x in ast.walk(n.test))]
            problems = []

            def caught(u) -> bool:
                cur = u
                while cur in pm:
                    par = pm[cur]
                    if isinstance(par, ast.Try) and any(cur is y for b_ in par.body for y in ast.walk(b_)):
                        for h_ in par.handlers:
                            names = {_class_name(x) for x in (h_.type.elts if isinstance(h_.type, ast.Tuple) else [h_.type])} if h_.type is not None else {"BaseException"}
                            if names & {"TypeError", "Exception", "BaseException"}:
                                return True
                    cur = par
                return False
            unpacks = [u for u in unpacks if not caught(u)]
            if not unpacks:
                r.notes.append(f"{f.qn}: no unguarded unpacking of the elimination pair recognised -- not decided")
                continue
            if "none" not in G.atoms_seen:
                if tests:
                    r.notes.append(f"{f.qn}: the test {unparse(tests[0].test, 50)} on the elimination is not interpreted -- not decided")
                    continue
                problems.append(("none-unpacked", "the pair returned by extract_eliminated_expressions() is unpacked without asking whether it is None (an equality that "
                                 "cannot be used for elimination): TypeError, the precondition cannot be printed"))
            else:
                seen_n = G.reach({"none": True, "eq": True})
                hit = [u for u in unpacks if (g.node_containing(u) if not isinstance(u, ast.stmt) else g.node_of(u)) in seen_n
                       and (isinstance(u, ast.stmt) or G.reaches_expr({"none": True, "eq": True}, u, seen=seen_n))]
                if hit:
                    problems.append(("none-unpacked", "when extract_eliminated_expressions() returns None (the equality cannot be used for elimination) the result is still "
                                     "unpacked: TypeError, the precondition cannot be printed"))

                def is_assumption(e) -> bool:
                    tr = paths2(e)
                    return any("call:extract_eliminated_expressions" in x and "call:to_mathematical" in x for x in tr)
                cons = _consumers(f, p, g, is_assumption)
                n_call = g.node_containing(c)
                val = {"none": False, "eq": True}
                if not cons:
                    problems.append(("assumption-dropped", "the text `<eliminated> = <replacement>` built from a usable equality is never returned / yielded / collected: "
                                     "no inequality is simplified under it (or collecting it raises)"))
                elif n_call is not None and n_call in G.reach(val) and not _passes(G, val, g, n_call, cons):
                    problems.append(("assumption-dropped", "a path on from a usable elimination (not None) ends the turn without collecting the assumption"))
            if problems:
                for role, text in problems:
                    r.fail(Finding(rid, f, f"elimination:{role}", text, node=c))
            else:
                r.ok({"elimination": unparse(c, 60), "in": f.qn})
    r.require_sites(3)
    return r


# =============================================================================================================== C13.branches
# the kinds of node the printer tells apart, as a finite abstraction of its argument: (is an atom, is a Pow, exponent)
NODE_KINDS = {"atom": (True, False, None), "reciprocal": (False, True, -1), "square": (False, True, 2), "cube": (False, True, 3), "sum-or-product": (False, False, None)}
_RECIPROCAL_TEXT = re.compile(r"\(\s*/\s+1\s")
_ATOM_CLASS_NAMES = set(NUMBER_CLASSES)


_printer_results: Dict[int, tuple] = {}


def rule_branches(repo: Repo) -> RuleResult:
    return _printer_rules(repo)[0]


def rule_walk(repo: Repo) -> RuleResult:
    return _printer_rules(repo)[1]


def _printer_rules(repo: Repo, rid: str = "C13.branches", wid: str = "C13.walk"):
    """guard valuation of convert_expr_to_pddl (private helpers inlined) over the kinds of node it tells apart -- atom / Pow with exponent
    -1 / 2 / 3 / sum or product: the tests on the node (is_Atom, isinstance / func against Pow, comparisons of .exp with constants, decided
    arithmetically for the exponent of the kind) leave exactly the branch of that kind reachable: an atom reaches extract_atom and nothing
    else, a reciprocal reaches the text '(/ 1 ..)' and neither the walk over .args nor the expansion of a power, a square / cube reaches
    the code that uses the exponent and neither '(/ 1 ..)' nor the walk over .args, a sum / product reaches the walk over .args.  The loop
    that expands a power runs `exponent + k` times over a text with c factors and adds d factors per turn: c + d * (n + k) == n for n = 2, 3"""
    r = RuleResult(rid, "each kind of node (atom, x**-1, x**2, x**3, sum / product) reaches its own branch of the printer and no other; the power loop writes "
                        "exactly `exponent` factors", "text that uses only binary + - * / and denotes the simplified expression")
    if id(repo) in _printer_results and _printer_results[id(repo)][0] is repo:
        return _printer_results[id(repo)][1]
    f = _fn(repo, f"{NS}::convert_expr_to_pddl")
    p = L.prov(repo, f)
    if not f.params:
        raise AnalysisError("convert_expr_to_pddl: no parameters")
    root = f"param:{f.params[0]}"
    pm = L.parents_of(f)
    g = C.cfg_of(f.node)

    def paths(e):
        try:
            return {x for x in U.norm_paths(repo, p.trace(e)) if not x[0].startswith(("const:", "builtin:"))}
        except (KeyError, RecursionError):
            return set()

    def is_node(e) -> bool:
        return paths(e) == {(root,)}

    def is_exp(e) -> bool:
        tr = paths(e)
        return bool(tr) and tr <= {(root, "attr:exp"), (root, "attr:args", "item:1")}

    def const_int(e):
        ok, v = repo.fold(e, f.mod.name)
        if ok and isinstance(v, int) and not isinstance(v, bool):
            return v
        if isinstance(e, ast.UnaryOp) and isinstance(e.op, (ast.USub, ast.UAdd)):
            v = const_int(e.operand)
            return None if v is None else (-v if isinstance(e.op, ast.USub) else v)
        if isinstance(e, ast.Name) and g.node_containing(e) is not None and not L.rd_of(f).defs_reaching(g.node_containing(e), e.id):
            node = repo.const_node(f.mod.name, e.id)
            return const_int(node) if node is not None and not isinstance(node, ast.Name) else None
        return None

    def class_names(e) -> Optional[Set[str]]:
        if isinstance(e, (ast.Tuple, ast.List, ast.Set)):
            out: Set[str] = set()
            for x in e.elts:
                s_ = class_names(x)
                if s_ is None:
                    return None
                out |= s_
            return out
        nm = _class_name(e)
        return {nm} if nm else None

    def matcher_for(kind: str):
        atom, is_pow, n = NODE_KINDS[kind]
        memo: Dict[int, Optional[str]] = {}

        def decide(e: ast.AST) -> Optional[bool]:
            if isinstance(e, ast.Attribute) and isinstance(e.ctx, ast.Load) and is_node(e.value):
                if e.attr == "is_Atom":
                    return atom
                if e.attr == "is_Pow":
                    return is_pow
                if e.attr in ("is_Add", "is_Mul") and kind != "sum-or-product":
                    return False
            if isinstance(e, ast.Call) and isinstance(e.func, ast.Name) and e.func.id == "isinstance" and len(e.args) == 2 and is_node(e.args[0]):
                cs = class_names(e.args[1])
                if cs is not None:
                    if "Pow" in cs:
                        return True if is_pow else (False if cs == {"Pow"} or (atom and not cs & (_ATOM_CLASS_NAMES | set(_ANCESTORS["Float"]))) else None)
                    if cs <= {"Add", "Mul"} and kind != "sum-or-product":
                        return False
            if isinstance(e, ast.Compare) and len(e.ops) == 1:
                o = e.ops[0]
                a, b = e.left, e.comparators[0]
                for x, y in ((a, b), (b, a)):
                    tr = paths(x)
                    if tr and tr <= {(root, "attr:func"), (root, "arg0:type"), (root, "attr:__class__")} and isinstance(o, (ast.Eq, ast.Is, ast.NotEq, ast.IsNot, ast.In, ast.NotIn)) and x is a:
                        cs = class_names(y)
                        if cs is not None and "Pow" in cs and (is_pow or cs == {"Pow"}):
                            return is_pow == isinstance(o, (ast.Eq, ast.Is, ast.In))
                    if n is not None and is_exp(x):
                        c = const_int(y)
                        if c is not None:
                            l_, r_ = (n, c) if x is a else (c, n)
                            table = {ast.Eq: l_ == r_, ast.NotEq: l_ != r_, ast.Lt: l_ < r_, ast.LtE: l_ <= r_, ast.Gt: l_ > r_, ast.GtE: l_ >= r_}
                            if type(o) in table:
                                return table[type(o)]
            return None

        def m(e: ast.AST) -> Optional[str]:
            k = id(e)
            if k not in memo:
                v = decide(e)
                memo[k] = None if v is None else ("T" if v else "!T")
            return memo[k]
        return m

    def node_of_expr(e) -> Optional[int]:
        return g.node_containing(e)

    # ---- the constructs of the branches, by provenance
    atom_calls = [c for c in L.calls_in(f.node) if U.ext_callee(repo, f, c) == "extract_atom" and c.args and is_node(c.args[0])]
    recip_texts = [n for n, text in _built_texts(repo, f) if _RECIPROCAL_TEXT.search(text)]
    walks: List[ast.AST] = []          # iteration over the arguments of the node
    for n in ast.walk(f.node):
        it = n.iter if isinstance(n, (ast.For, ast.comprehension)) else None
        if it is not None:
            tr = paths(it)
            if tr and all(x[:2] == (root, "attr:args") and not any(st in ("elem", "item") or st.startswith("item:") for st in x[2:]) for x in tr):
                walks.append(it)
    exp_uses: List[ast.AST] = []       # the exponent used as a value (not merely tested or copied)
    for n in ast.walk(f.node):
        if isinstance(n, (ast.Name, ast.Attribute, ast.Subscript)) and isinstance(getattr(n, "ctx", None), ast.Load) and is_exp(n):
            par = pm.get(n)
            if isinstance(par, ast.Attribute) or _in_test(pm, n):
                continue
            if isinstance(par, (ast.Assign, ast.AnnAssign)) and getattr(par, "value", None) is n:
                continue
            if isinstance(par, ast.Tuple) and isinstance(pm.get(par), ast.Assign) and pm[par].value is par:
                continue
            if isinstance(par, ast.Compare):
                continue
            exp_uses.append(n)

    def reached(G, seen, exprs) -> List[ast.AST]:
        return [e for e in exprs if node_of_expr(e) in seen and G.reaches_expr({"T": True}, e, seen=seen)]

    constructs = {"extract_atom": atom_calls, "the text '(/ 1 ..)'": recip_texts, "the walk over .args": walks, "the expansion of a power": exp_uses}
    own = {"atom": "extract_atom", "reciprocal": "the text '(/ 1 ..)'", "square": "the expansion of a power", "cube": "the expansion of a power",
           "sum-or-product": "the walk over .args"}
    for kind in NODE_KINDS:
        r.site(f"{f.qn} [{kind}]")
        G = _Guards(repo, f, matcher_for(kind))
        seen = G.reach({"T": True})
        wrong = [name for name, exprs in constructs.items() if name != own[kind] and not (kind == "sum-or-product") and reached(G, seen, exprs)]
        if kind in ("square", "cube"):
            wrong = [w for w in wrong if w != "the expansion of a power"]
        if wrong:
            r.fail(Finding(rid, f, f"branch:{kind}:reaches-other", f"for a node of kind `{kind}` the printer reaches {' and '.join(wrong)}: the node is printed by the wrong "
                           f"branch (a test on the node is missing, inverted or compares with another constant, or a branch does not return)"))
            continue
        if not constructs[own[kind]]:
            if kind in ("square", "cube") and not walks and not recip_texts:
                r.notes.append(f"{kind}: the branches of the printer are not recognised -- not decided")
            elif kind in ("square", "cube"):
                r.fail(Finding(rid, f, f"branch:{kind}:exponent-unused", "no branch of the printer uses the exponent of a power as a value: x**2 and x**3 are printed alike"))
            elif kind == "sum-or-product" and not any(isinstance(n, ast.Attribute) and n.attr == "args" and is_node(n.value) for n in ast.walk(f.node)) \
                    and not any(U.ext_callee(repo, f, c) != "extract_atom" and any(is_node(a) for a in list(c.args) + [k.value for k in c.keywords])
                                and (any(t is not None for _k, t, _c in repo.resolve_call(f, c)[1]) or
                                     (isinstance(c.func, ast.Attribute) and not (isinstance(c.func.value, ast.Name) and (repo.lookup(f.mod.name, c.func.value.id) or ("",))[0] == "module")))
                                for c in L.calls_in(f.node)):
                r.fail(Finding(rid, f, "branch:sum-or-product:arguments-never-read", "the printer never reads .args of the node it is handed: the terms of a sum / the factors "
                               "of a product are not printed"))
            else:
                r.notes.append(f"{kind}: {own[kind]} is not recognised in the printer -- not decided")
            continue
        if not reached(G, seen, constructs[own[kind]]):
            r.fail(Finding(rid, f, f"branch:{kind}:own-not-reached", f"for a node of kind `{kind}` the printer does not reach {own[kind]}"))
        else:
            r.ok({"kind": kind, "reaches": own[kind]})
    # ---- trip count of the power expansion

    def linear(e) -> Optional[Tuple[int, int]]:
        c = const_int(e)
        if c is not None:
            return (0, c)
        if is_exp(e):
            return (1, 0)
        if isinstance(e, ast.BinOp) and isinstance(e.op, (ast.Add, ast.Sub)):
            a, b = linear(e.left), linear(e.right)
            if a is None or b is None:
                return None
            return (a[0] + b[0], a[1] + b[1]) if isinstance(e.op, ast.Add) else (a[0] - b[0], a[1] - b[1])
        if isinstance(e, ast.Name):
            n_ = g.node_containing(e)
            defs = L.rd_of(f).defs_reaching(n_, e.id) if n_ is not None else set()
            if len(defs) == 1:
                st = g.stmt[next(iter(defs))]
                if isinstance(st, (ast.Assign, ast.AnnAssign)) and st.value is not None and not isinstance(st.value, ast.Name):
                    return linear(st.value)
        return None

    def holes(e: ast.AST) -> Optional[List[ast.AST]]:
        """the values written into a text template (f-string, str.format on a constant, %, +), in the order of the fields; None when
        e is not such a template"""
        if isinstance(e, ast.JoinedStr):
            return [v.value for v in e.values if isinstance(v, ast.FormattedValue)]
        if isinstance(e, ast.Call) and isinstance(e.func, ast.Attribute) and e.func.attr == "format":
            ok, tmpl = repo.fold(e.func.value, f.mod.name)
            if not ok or not isinstance(tmpl, str) or any(isinstance(a, ast.Starred) for a in e.args) or any(k.arg is None for k in e.keywords):
                return None
            out, auto = [], 0
            for _lit, fld, _spec, _conv in string.Formatter().parse(tmpl):
                if fld is None:
                    continue
                key = fld.split(".")[0].split("[")[0]
                if key == "":
                    key, auto = str(auto), auto + 1
                if key.isdigit():
                    if int(key) >= len(e.args):
                        return None
                    out.append(e.args[int(key)])
                else:
                    kw = next((k.value for k in e.keywords if k.arg == key), None)
                    if kw is None:
                        return None
                    out.append(kw)
            return out
        if isinstance(e, ast.BinOp) and isinstance(e.op, ast.Mod):
            ok, tmpl = repo.fold(e.left, f.mod.name)
            if ok and isinstance(tmpl, str):
                vals = list(e.right.elts) if isinstance(e.right, ast.Tuple) else [e.right]
                return vals if len(re.findall(r"%[sdrf]", tmpl)) == len(vals) else None
            return None
        if isinstance(e, ast.BinOp) and isinstance(e.op, ast.Add):
            out = []
            for side in (e.left, e.right):
                ok, v = repo.fold(side, f.mod.name)
                if ok and isinstance(v, str):
                    continue
                h = holes(side)
                out += h if h is not None else [side]
            return out
        return None

    _holes_all = holes

    def holes(e: ast.AST) -> Optional[List[ast.AST]]:      # noqa: F811 -- fields filled with a constant text are part of the literal
        h = _holes_all(e)
        return None if h is None else [x for x in h if not (repo.fold(x, f.mod.name)[0] and isinstance(repo.fold(x, f.mod.name)[1], str))]

    def factors_of(e: ast.AST, at: int, depth: int = 0) -> Optional[int]:
        """the number of values a starting text is made of: the fields of a template, one for any other value; names are followed
        through their only definition"""
        h = holes(e)
        if h is not None:
            return len(h)
        if isinstance(e, ast.Name) and depth < 4:
            defs = L.rd_of(f).defs_reaching(at, e.id)
            if len(defs) == 1:
                d = next(iter(defs))
                st0 = g.stmt[d]
                if d != g.entry and isinstance(st0, (ast.Assign, ast.AnnAssign)) and st0.value is not None and \
                        (isinstance(st0, ast.AnnAssign) or (len(st0.targets) == 1 and isinstance(st0.targets[0], ast.Name))):
                    return factors_of(st0.value, d, depth + 1)
            return None
        if isinstance(e, (ast.Subscript, ast.Attribute, ast.Call)):
            return 1
        return None

    for loop in [n for n in ast.walk(f.node) if isinstance(n, ast.For)]:
        it = loop.iter
        if not (isinstance(it, ast.Call) and isinstance(it.func, ast.Name) and it.func.id == "range" and len(it.args) == 1 and not it.keywords):
            continue
        if not any(is_exp(x) for x in ast.walk(it.args[0]) if isinstance(x, ast.expr)) and linear(it.args[0]) in (None,) :
            continue
        lin = linear(it.args[0])
        if lin is None or lin[0] == 0:
            continue
        r.site(L.site(f, loop, "power expansion"))
        # the accumulated text: the one name that the body assigns from itself
        accs = [st for st in loop.body if isinstance(st, ast.Assign) and len(st.targets) == 1 and isinstance(st.targets[0], ast.Name)
                and any(isinstance(x, ast.Name) and x.id == st.targets[0].id and isinstance(x.ctx, ast.Load) for x in ast.walk(st.value))]
        other = [st for st in loop.body if st not in accs and not isinstance(st, ast.Pass)]
        if other or len(accs) > 1:
            r.notes.append("power expansion: the body of the loop is not a single accumulation -- not decided")
            continue
        if not accs:
            per_turn, self_refs, seed_e = 0, 1, None
        else:
            st = accs[0]
            hs = holes(st.value)
            if hs is None:
                r.notes.append("power expansion: the accumulated text is not a plain template -- not decided")
                continue
            name = st.targets[0].id
            self_refs = sum(1 for h in hs if isinstance(h, ast.Name) and h.id == name)
            per_turn = len(hs) - self_refs
            seed_e = name
        seed = 1
        if seed_e is not None:
            n_loop = g.node_of(loop)
            defs = [d for d in L.rd_of(f).defs_reaching(n_loop, seed_e) if g.loop_of.get(d) != n_loop]
            counts = set()
            for d in defs:
                st0 = g.stmt[d]
                if d != g.entry and isinstance(st0, (ast.Assign, ast.AnnAssign)) and st0.value is not None:
                    counts.add(factors_of(st0.value, d))
                else:
                    counts.add(None)
            if len(counts) != 1 or None in counts:
                r.notes.append("power expansion: the text the loop starts from is not a plain template -- not decided")
                continue
            seed = counts.pop()
        bad = [n for n in (2, 3) if self_refs != 1 or seed + per_turn * (lin[0] * n + lin[1]) != n]
        if bad:
            n = bad[0]
            r.fail(Finding(rid, f, "power:factors", f"the expansion of x**n starts from {seed} factor(s) and runs {lin[0] if lin[0] != 1 else ''}n{lin[1]:+d} turns that add "
                           f"{per_turn} factor(s) each{'' if self_refs == 1 else ' (the text built so far is not kept)'}: x**{n} is printed with "
                           f"{seed + per_turn * (lin[0] * n + lin[1]) if self_refs == 1 else per_turn + 1} factors", node=loop))
        else:
            r.ok({"power": f"{seed} + {per_turn} * (n{lin[1]:+d}) factors"})
    r.require_sites(5)

    # =========================================================================================================== C13.walk
    rw = RuleResult(wid, "sum / product: every printed argument that is not empty is collected on every path of a turn, the collection reaches the returned "
                         "text, and every turn of the loop that nests the collected parts keeps the text built so far and adds the part of the turn",
                    "satisfied by exactly the same valuations (no term of a sum / factor of a product is lost)")
    Gs = _Guards(repo, f, matcher_for("sum-or-product"))
    seen_s = Gs.reach({"T": True})
    rd = L.rd_of(f)

    def aliases_in(loop: ast.AST, names: Set[str]) -> Set[str]:
        """the names that stand for the same value inside the loop: a name all of whose assignments in the loop copy one of them, and
        the names such a copy is made from"""
        assigns: Dict[str, List[ast.AST]] = {}
        for st in ast.walk(loop):
            if isinstance(st, (ast.Assign, ast.AugAssign, ast.AnnAssign)):
                for t in (st.targets if isinstance(st, ast.Assign) else [st.target]):
                    for nm in C.target_names(t):
                        assigns.setdefault(nm, []).append(st.value if isinstance(st, ast.Assign) and isinstance(t, ast.Name) else None)
        out = set(names)
        n_head = g.node_of(loop)

        def inside(d: int) -> bool:
            cur = g.loop_of.get(d)
            while cur is not None:
                if cur == n_head:
                    return True
                cur = g.loop_of.get(cur)
            return False
        # a name that already has a value when the loop starts carries something else than the element of the turn
        carried = {nm for nm in assigns if n_head is not None and any(not inside(d) for d in rd.defs_reaching(n_head, nm))}
        grew = True
        while grew:
            grew = False
            for nm, vals in assigns.items():
                if nm in carried:
                    continue
                if nm not in out and all(isinstance(v, ast.Name) and v.id in out for v in vals):
                    out.add(nm)
                    grew = True
                if nm in out:
                    for v in vals:
                        if isinstance(v, ast.Name) and v.id not in out and len(vals) == 1 and len(assigns.get(v.id, [])) <= 1:
                            out.add(v.id)
                            grew = True
        return out

    def stmt_node(e):
        st = e
        while st in pm and not isinstance(st, ast.stmt):
            st = pm[st]
        return g.node_of(st) if isinstance(st, ast.stmt) else None

    walk_loops = [n for n in ast.walk(f.node) if isinstance(n, ast.For) and any(n.iter is w or any(x is w for x in ast.walk(n.iter)) for w in walks)]
    walk_loops += [n for n in ast.walk(f.node) if isinstance(n, ast.For) and isinstance(n.iter, ast.Call) and getattr(n.iter.func, "id", "") == "range"
                   and any(paths(x) and all(y == (root, "attr:args") for y in paths(x)) for x in ast.walk(n.iter) if isinstance(x, (ast.Attribute, ast.Name)))
                   and n not in walk_loops]
    for loop in walk_loops:
        if g.node_of(loop) not in seen_s:
            continue
        rw.site(L.site(f, loop, "walk over the arguments"))
        sinks: Dict[int, str] = {}
        for st in ast.walk(loop):
            if isinstance(st, ast.Expr) and isinstance(st.value, ast.Call) and isinstance(st.value.func, ast.Attribute) and st.value.func.attr in SINK_METHODS \
                    and len(st.value.args) == 1 and isinstance(st.value.args[0], ast.Name) and U.flows_to_return(f, st.value.args[0]):
                n_ = g.node_of(st)
                if n_ is not None and g.loop_of.get(n_) == g.node_of(loop):
                    sinks[n_] = st.value.args[0].id
            elif isinstance(st, ast.Expr) and isinstance(st.value, ast.Yield) and isinstance(st.value.value, ast.Name):
                n_ = g.node_of(st)
                if n_ is not None and g.loop_of.get(n_) == g.node_of(loop):
                    sinks[n_] = st.value.value.id
        if not sinks:
            inner_calls = [c for c in L.calls_in(loop) if any(paths(a) and all(y[:2] == (root, "attr:args") for y in paths(a)) for a in c.args[:1])]
            if inner_calls and not any(U.flows_to_return(f, c) for c in inner_calls):
                rw.fail(Finding(wid, f, "walk:part-not-collected", "what the printer returns for an argument of a sum / product is put into no collection that reaches the returned "
                                "text: every term / factor is lost", node=loop))
            elif inner_calls:
                rw.notes.append("walk: the printed arguments are not collected by append / yield in the loop -- not decided")
            else:
                rw.notes.append("walk: the call that prints an argument is not recognised -- not decided")
            continue
        part_names = aliases_in(loop, set(sinks.values()))

        def part_matcher(e, base=matcher_for("sum-or-product"), part_names=part_names, loop=loop):
            v = base(e)
            if v is not None:
                return v
            if isinstance(e, ast.Name) and isinstance(e.ctx, ast.Load) and e.id in part_names and any(e is x for x in ast.walk(loop)):
                return "part"
            if isinstance(e, ast.Compare) and len(e.ops) == 1 and isinstance(e.left, ast.Name) and e.left.id in part_names and any(e is x for x in ast.walk(loop)):
                c0 = e.comparators[0]
                if isinstance(c0, ast.Constant) and c0.value in (None, ""):
                    if isinstance(e.ops[0], (ast.Eq, ast.Is)):
                        return "!part"
                    if isinstance(e.ops[0], (ast.NotEq, ast.IsNot)):
                        return "part"
            return None
        Gp = _Guards(repo, f, part_matcher)
        if L.leaves_loop_early(Gp, {"T": True, "part": True}, loop) or L.leaves_loop_early(Gp, {"T": True, "part": False}, loop):
            rw.fail(Finding(wid, f, "walk:left-early", "the walk over the arguments of a sum / product can be left before the last argument: the remaining terms / "
                            "factors are lost", node=loop))
        elif not L.must_pass_in_loop(Gp, {"T": True, "part": True}, loop, set(sinks)):
            rw.fail(Finding(wid, f, "walk:part-not-collected", "a turn of the walk over the arguments can end without collecting a non-empty printed argument (the truth "
                            "test on it is inverted or the collection is skipped): the term / factor is lost", node=loop))
        else:
            rw.ok({"walk": unparse(loop.iter, 50), "collected_on_every_path": True})
    # ---- the loop that nests the parts
    for loop in [n for n in ast.walk(f.node) if isinstance(n, ast.For) and n not in walk_loops]:
        n_loop = g.node_of(loop)
        if n_loop is None or n_loop not in seen_s:
            continue
        elem = aliases_in(loop, C.target_names(loop.target))
        accs: Dict[str, List[ast.Assign]] = {}
        for st in ast.walk(loop):
            if isinstance(st, ast.Assign) and len(st.targets) == 1 and isinstance(st.targets[0], ast.Name) and g.loop_of.get(g.node_of(st)) == n_loop:
                used = {x.id for x in ast.walk(st.value) if isinstance(x, ast.Name) and isinstance(x.ctx, ast.Load)}
                if used & elem and st.targets[0].id not in elem:
                    accs.setdefault(st.targets[0].id, []).append(st)
        accs = {a: sts for a, sts in accs.items() if any(U.flows_to_return(f, st.targets[0]) or U.flows_to_return(f, st.value) for st in sts)
                and (any(a in {x.id for x in ast.walk(st.value) if isinstance(x, ast.Name)} for st in sts)
                     or any(isinstance(x, ast.Name) and x.id == a and isinstance(x.ctx, ast.Load) and _in_test(pm, x) for x in ast.walk(loop)))}
        # the collection that is walked holds printed parts (texts), not nodes of the expression
        tr_iter = paths(loop.iter)
        if not accs or (tr_iter and all(x[0] == root and "attr:args" in x and not any(s_.startswith("arg") for s_ in x) for x in tr_iter)):
            continue
        for acc, sts in accs.items():
            rw.site(L.site(f, loop, "nesting of the parts"))

            def arms(e):
                return arms(e.body) + arms(e.orelse) if isinstance(e, ast.IfExp) else [e]

            def names_of(e):
                return {x.id for x in ast.walk(e) if isinstance(x, ast.Name) and isinstance(x.ctx, ast.Load)}

            all_assigns = [st for st in ast.walk(loop) if isinstance(st, ast.Assign) and len(st.targets) == 1 and isinstance(st.targets[0], ast.Name)
                           and st.targets[0].id == acc and g.loop_of.get(g.node_of(st)) == n_loop]

            def acc_matcher(e, base=matcher_for("sum-or-product"), acc=acc, loop=loop):
                v = base(e)
                if v is not None:
                    return v
                if isinstance(e, ast.Name) and isinstance(e.ctx, ast.Load) and e.id == acc and any(e is x for x in ast.walk(loop)):
                    return "acc"
                if isinstance(e, ast.Compare) and len(e.ops) == 1 and isinstance(e.left, ast.Name) and e.left.id == acc and any(e is x for x in ast.walk(loop)):
                    c0 = e.comparators[0]
                    if isinstance(c0, ast.Constant) and c0.value in (None, ""):
                        if isinstance(e.ops[0], (ast.Eq, ast.Is)):
                            return "!acc"
                        if isinstance(e.ops[0], (ast.NotEq, ast.IsNot)):
                            return "acc"
                return None
            Ga = _Guards(repo, f, acc_matcher)
            tested = "acc" in Ga.atoms_seen and any(_in_test(pm, x) for x in ast.walk(loop) if isinstance(x, ast.Name) and x.id == acc and isinstance(x.ctx, ast.Load))
            problem = None
            for built in ((True, False) if tested else (True,)):
                good = set()
                for st in all_assigns:
                    if all((names_of(a) & elem) and (not built or acc in names_of(a)) for a in arms(st.value)):
                        good.add(g.node_of(st))
                val = {"T": True, "acc": built} if tested else {"T": True}
                if not L.must_pass_in_loop(Ga, val, loop, good):
                    problem = ("a turn that finds text already built can end without a new text that contains both that text and the part of the turn: what was nested "
                               "so far is overwritten or the part is skipped") if built else \
                              "a turn that finds no text built yet can end without taking the part of the turn as the text: the first part is lost and nothing is ever built"
                    break
            if problem is None and L.leaves_loop_early(Ga, {"T": True}, loop):
                problem = "the loop that nests the parts can be left before the last part"
            if problem:
                rw.fail(Finding(wid, f, "nesting:part-lost", f"nesting of the printed parts of a sum / product: {problem}", node=loop))
            else:
                rw.ok({"nesting": unparse(loop.iter, 40), "keeps_text_and_adds_part": True})
    _printer_results[id(repo)] = (repo, (r, rw))
    return r, rw


# =============================================================================================================== C13.zerodrop
def rule_zerodrop(repo: Repo, rid: str = "C13.zerodrop") -> RuleResult:
    """extract_atom on a Float (guard valuation over: the class is Float, the zero-dropping flag, `the printed number is 0`): with the flag
    off a text is returned on every path (right-hand sides are never dropped); with the flag on, None is returned only when the printed
    number compares equal to 0 -- not when it differs from 0, and not against another constant.  The value is the first argument of
    round() / format(), the number of decimals the second (provenance)"""
    r = RuleResult(rid, "a Float atom is dropped (None) only if zero-dropping is on AND the printed number is 0; round / format get (value, decimals)",
                   "up to rounding of coefficients at the requested number of decimals; valid PDDL")
    f = _fn(repo, f"{NS}::extract_atom")
    p = L.prov(repo, f)
    T = _ClassTests(repo, f)
    if ZERO_FLAG not in f.params:
        raise AnalysisError(f"extract_atom has no parameter {ZERO_FLAG}")
    value_root = f"param:{f.params[0]}"

    def roots(e) -> Set[str]:
        try:
            return {x[0] for x in p.trace(e) if not x[0].startswith(("const:", "builtin:", "global:", "fresh:"))}
        except (KeyError, RecursionError):
            return set()

    boundary: List[Tuple[ast.AST, object]] = []

    def zero_test(e: ast.AST) -> Optional[str]:
        if isinstance(e, ast.Compare) and len(e.ops) == 1 and isinstance(e.ops[0], (ast.Eq, ast.NotEq)):
            for x, y in ((e.left, e.comparators[0]), (e.comparators[0], e.left)):
                if isinstance(y, ast.Constant) and isinstance(y.value, (int, float)) and not isinstance(y.value, bool) and not isinstance(x, ast.Constant) \
                        and isinstance(x, ast.Call) and callee_name(x) in ("float", "Decimal", "abs") and value_root in roots(x):
                    if y.value == 0:
                        return "zero" if isinstance(e.ops[0], ast.Eq) else "!zero"
                    if not any(b is e for b, _v in boundary):
                        boundary.append((e, y.value))
        return None

    def matcher(e: ast.AST) -> Optional[str]:
        v = T.truth(e, "Float")
        if v is not None:
            return "is" if v else "!is"
        if isinstance(e, ast.Name) and isinstance(e.ctx, ast.Load) and L.is_param(p, e, ZERO_FLAG):
            return "flag"
        return zero_test(e)

    G = _Guards(repo, f, matcher)
    g = G.g

    def statuses(val: Dict[str, bool]) -> Tuple[Set[str], Optional[ast.AST]]:
        seen = G.reach(val)
        out: Set[str] = set()
        where = None

        def of(v, at) -> Set[str]:
            if v is None or (isinstance(v, ast.Constant) and v.value is None):
                return {"none"}
            if isinstance(v, ast.IfExp):
                t = G.value(val, v.test, seen)
                if t is True:
                    return of(v.body, at)
                if t is False:
                    return of(v.orelse, at)
                return of(v.body, at) | of(v.orelse, at)
            if isinstance(v, (ast.JoinedStr, ast.Constant)) or (isinstance(v, ast.Call) and callee_name(v) in ("str", "format", "repr")):
                return {"text"}
            if isinstance(v, ast.Name):
                nn = G._noneness(v, at, seen)
                if nn is not None:
                    return {"none" if nn else "text"}
                defs = [d for d in L.rd_of(f).defs_reaching(at, v.id) if d in seen]
                sub: Set[str] = set()
                for d in defs:
                    st = g.stmt[d]
                    if d != g.entry and isinstance(st, (ast.Assign, ast.AnnAssign)) and st.value is not None and \
                            (isinstance(st, ast.AnnAssign) or (len(st.targets) == 1 and isinstance(st.targets[0], ast.Name))):
                        sub |= of(st.value, d)
                    else:
                        sub.add("unknown")
                return sub or {"unknown"}
            return {"unknown"}

        for n in seen:
            if g.kind[n] == "return":
                st = g.stmt[n]
                s_ = of(st.value, n)
                if "none" in s_ and where is None:
                    where = st
                out |= s_
        return out, where

    r.site(f"{f.qn} [flag off]")
    if "flag" not in G.atoms_seen or "is" not in G.atoms_seen:
        r.notes.append("extract_atom: the test of the zero-dropping flag / of the class Float is not recognised -- not decided")
    else:
        st_off, where = statuses({"is": True, "flag": False})
        if not st_off:
            r.fail(Finding(rid, f, "flag-off:no-text", f"with {ZERO_FLAG} off no return statement is reached for a Float: every decimal on a right-hand side raises"))
        elif "none" in st_off:
            r.fail(Finding(rid, f, "flag-off:dropped", f"with {ZERO_FLAG} off a Float can still be answered with None: a right-hand side that rounds to zero is printed as 'None'", node=where))
        elif "unknown" in st_off:
            r.notes.append("extract_atom: what is returned with the flag off is not interpreted -- not decided")
        else:
            r.ok({"flag": False, "returns": "text"})
        r.site(f"{f.qn} [flag on]")
        if "zero" in G.atoms_seen:
            st_nz, where = statuses({"is": True, "flag": True, "zero": False})
            st_z, _w = statuses({"is": True, "flag": True, "zero": True})
            if "none" in st_nz:
                r.fail(Finding(rid, f, "flag-on:nonzero-dropped", "a Float whose printed value is NOT 0 is answered with None: every decimal coefficient vanishes from left-hand sides", node=where))
            elif "unknown" in st_nz:
                r.notes.append("extract_atom: what is returned for a non-zero number is not interpreted -- not decided")
            else:
                r.ok({"flag": True, "non_zero": "text", "zero": sorted(st_z)})
        elif boundary:
            e, c = boundary[0]
            r.fail(Finding(rid, f, "flag-on:boundary", f"the test that decides whether a Float is dropped is {unparse(e, 50)}: numbers that print as {c} are dropped, numbers that "
                           f"print as 0 are kept (the constant of the zero test is 0)", node=e))
        else:
            st_on, _w = statuses({"is": True, "flag": True})
            if "none" in st_on:
                r.notes.append("extract_atom: the test under which a Float is dropped is not recognised -- not decided")
            else:
                r.ok({"flag": True, "dropped": "never"})
    # ---- argument roles of round / format
    digits_root = "param:decimal_digits"
    for c in L.calls_in(f.node):
        if isinstance(c.func, ast.Name) and c.func.id in ("round", "format") and len(c.args) == 2 and not c.keywords:
            a, b = roots(c.args[0]), roots(c.args[1])
            if not (value_root in a | b):
                continue
            r.site(L.site(f, c, f"{c.func.id} arguments"))
            if value_root in b and value_root not in a:
                r.fail(Finding(rid, f, f"{c.func.id}-arguments", f"{unparse(c, 60)}: the number is the SECOND argument of {c.func.id}() and "
                               f"{'the number of decimals' if digits_root in a else 'something else'} the first: TypeError for every Float that takes this path", node=c))
            else:
                r.ok({"call": unparse(c, 60)})
    r.require_sites(2)
    return r


# =============================================================================================================== C13.fluents
def rule_fluents(repo: Repo, rid: str = "C13.fluents") -> RuleResult:
    """transform_expression hands the text back untransformed only when NO fluent was found in it: a return whose text is the parameter
    itself (no replacement on any path) is not reachable when the collection of found fluents is not empty -- in particular not under a
    length test against another constant than 0 (guard valuation over `found is empty` and the other length tests on it)"""
    r = RuleResult(rid, "the untransformed text is returned only if no fluent was found (boundary of the length test on the found fluents)",
                   "text that the reader accepts / sympy can parse for every number of fluents")
    f = _fn(repo, f"{NS}::transform_expression")
    p = L.prov(repo, f)
    text_root = (f"param:{f.params[0]}",) if f.params else None
    if text_root is None:
        raise AnalysisError("transform_expression: no parameters")

    def is_found(e) -> bool:
        try:
            tr = [x for x in p.trace(e) if not x[0].startswith(("const:", "builtin:", "global:"))]
        except (KeyError, RecursionError):
            return False
        return bool(tr) and all(any(st.endswith((":findall", ":finditer")) or st in ("call:findall", "call:finditer") for st in x) or x[0] in ("ext:findall", "ext:finditer") for x in tr)

    odd: List[ast.AST] = []

    def matcher(e: ast.AST) -> Optional[str]:
        if isinstance(e, ast.Name) and isinstance(e.ctx, ast.Load) and is_found(e):
            return "!empty"
        if isinstance(e, ast.Compare) and len(e.ops) == 1:
            l_, r_, op = e.left, e.comparators[0], type(e.ops[0])
            if isinstance(l_, ast.Call) and isinstance(l_.func, ast.Name) and l_.func.id == "len" and len(l_.args) == 1 and is_found(l_.args[0]) \
                    and isinstance(r_, ast.Constant) and isinstance(r_.value, int) and not isinstance(r_.value, bool):
                c = r_.value
                if (op, c) in ((ast.Eq, 0), (ast.Lt, 1), (ast.LtE, 0)):
                    return "empty"
                if (op, c) in ((ast.NotEq, 0), (ast.Gt, 0), (ast.GtE, 1)):
                    return "!empty"
                if not any(o is e for o in odd):
                    odd.append(e)
                return "odd"
            if op in (ast.Eq, ast.NotEq) and is_found(l_) and ((isinstance(r_, (ast.List, ast.Tuple, ast.Set, ast.Dict)) and not getattr(r_, "elts", getattr(r_, "keys", None)))
                                                              or (isinstance(r_, ast.Call) and callee_name(r_) in ("set", "list", "frozenset", "tuple") and not r_.args)):
                return "empty" if op is ast.Eq else "!empty"
        return None

    G = _Guards(repo, f, matcher)
    g = G.g
    r.site(f.qn)
    untouched = []
    for n in g.nodes():
        st = g.stmt[n]
        if g.kind[n] == "return" and st.value is not None:
            v = st.value.elts[0] if isinstance(st.value, ast.Tuple) and st.value.elts else st.value
            try:
                tr = {x for x in p.trace(v) if not x[0].startswith("const:")}
            except (KeyError, RecursionError):
                continue
            if tr == {text_root}:
                untouched.append((n, st))
    if not odd:
        r.ok({"untransformed_return": len(untouched), "length_tests": "emptiness only"})
        return r
    seen = G.reach({"odd": True, "empty": False})
    hit = [st for n, st in untouched if n in seen]
    if hit:
        r.fail(Finding(rid, f, "untransformed-with-fluents", f"under the test {unparse(odd[0], 50)} (the found fluents are NOT none) the text is returned as it was handed in: "
                       f"its fluents are not replaced by symbols and sympy's parser fails on them", node=hit[0]))
    else:
        r.ok({"untransformed_return": len(untouched), "length_tests": [unparse(o, 40) for o in odd]})
    return r


def rules(repo: Repo, tier: str) -> List[RuleResult]:
    env = c12.rule_env(repo)
    env.rule = "C13.env"
    for fd in env.findings:
        fd.rule = "C13.env"
    return [rule_vocab(repo), rule_mangle(repo), rule_round(repo), rule_atoms(repo), rule_sides(repo), rule_eliminate(repo), rule_digits(repo), env, rule_fullprecision(repo), rule_opmatch(repo),
            rule_returns(repo), rule_operands(repo), rule_conditions(repo), rule_branches(repo), rule_walk(repo), rule_zerodrop(repo), rule_fluents(repo)]
