"""C13 -- simplified numeric conditions are valid PDDL and mean the same as the originals (thin claim)."""
from __future__ import annotations

import ast
import itertools
import re
from typing import Dict, List, Optional, Set, Tuple

from .. import cfg as C
from .. import lib as L
from .. import strshape as S
from ..core import AnalysisError, FuncInfo, Repo, is_logging_call, unparse
from ..prov import callee_name
from ..report import Finding, RuleResult
from . import c12
from . import _c13_util as U

NS = "models.numeric_symbolic_operations"

EXPLANATION = (
    "Thin claim: equivalence of sympy-simplified text for all valuations is out of reach of a static argument; only necessary "
    "conditions are decided. All function rules read the public function with its private helpers inlined and identify values by "
    "def-use provenance, not by names; before that, comprehensions / zip / map / enumerate / loops over sequences whose length is "
    "known from the source (displays, module constants, dict views) are written out element by element, operator.attrgetter / "
    "itemgetter / methodcaller applications and **{..} keyword expansions are written as plain attribute reads / calls, fields read "
    "from NamedTuple / dataclass records are the constructor arguments, and `x is None` tests are decided when every definition of x "
    "that is live under the valuation is None / an object. C13.vocab: every operator string of SYMPY_OP_TO_PDDL_OP is one of + - * / (or a numeral / "
    "empty for atoms), and so is every operator that the printer writes out itself ('(<op> ' in the string shapes built by "
    "convert_expr_to_pddl and its helpers). C13.mangle: the fluent -> symbol naming must be injective: the expression handed to symbols()/Symbol() is "
    "evaluated (AST interpretation of re.sub / compiled patterns / str.replace / translate / join-filter chains on constants) for "
    "witness fluents that differ in one character; a name that loses '-', '_', blanks, a digit or a letter, or maps two of them to "
    "the same text, merges different fluents. C13.round: an int()/floor()/trunc() of the coefficient that is used when "
    "round(x, d) is an integer (finite valuation of the integer tests, boolean locals and if/else or conditional-expression forms "
    "alike) must convert round(x, d), not x (truncation); under an exact x.is_integer() test int(x) is fine; no integer conversion "
    "may be used when the rounded value is not an integer. C13.atoms: for every number class sympy can return (Float, Integer, "
    "Zero, One, NegativeOne, Symbol, Rational, Half) a test of extract_atom on the class of the expression (== / is / in a tuple or "
    "table / isinstance / look-up in a table keyed by class: TABLE.get(cls) tested against None or used as a truth value, TABLE[cls], "
    "a dispatch loop over (class, printer) records) that names the class is reachable under the valuation 'the expression has that class', and the class is a "
    "key of SYMPY_OP_TO_PDDL_OP. C13.sides: the text returned by simplify_inequality / simplify_equality / the tree method has the "
    "shape '(op left right)' (string shapes: f-string, format, concatenation, intermediate names) where op is the operator "
    "parameter / '=' / the root value and left / right derive from the first / second part of the split input (lhs / rhs of the "
    "simplified equation, child 0 / child 1) as primary operands. C13.eliminate: for every operator that the guard of "
    "extract_eliminated_expressions admits (valuation of the tests on the left operand's value over + - * /) the returned pair "
    "(eliminated operand, replacement R) -- AnyNode constructions evaluated to exact rational normal forms over e1, e2, r, with "
    "r = 0 in the branch taken for a zero right-hand side -- satisfies op(R, e2) == r. C13.env: the precision setting is a number."
)
UNDECIDED = ("validity and equivalence of the simplified text; that a condition is omitted only if implied; zero-coefficient dropping "
             "inside products; everything that depends on what sympy returns for a given expression")


# the public API of today: functions a maintainer adds next to it (with or without a leading underscore) are helpers and are
# analysed in place, inside the function that calls them
API_FUNCTIONS = {"is_number_string", "extract_atom", "convert_expr_to_pddl", "transform_expression", "simplify_complex_numeric_expression",
                 "simplify_equality", "simplify_inequality"}
API_METHODS = {"to_pddl", "to_mathematical", "change_signature", "locate_and_replace", "extract_eliminated_expressions",
               "simplify_complex_numerical_pddl_expression"}
TREE_CLASS = "NumericalExpressionTree"


def _fn(repo: Repo, spec: str) -> FuncInfo:
    f0 = repo.func(spec)
    also = set()
    for x in repo.all_funcs():
        if x.mod is not f0.mod or x.name.startswith("__"):
            continue
        if (x.cls is None and x.name not in API_FUNCTIONS and f0.mod.short.endswith(NS)) or (x.cls == TREE_CLASS and x.name not in API_METHODS):
            also.add(x.name)
    return U.unroll(repo, L.fn(repo, spec, also=also or None))


_NOT_NONE_CALLS = {"list", "dict", "tuple", "set", "frozenset", "str", "int", "float", "bool", "sorted", "repr", "format", "len"}


class _Guards(L.Guards):
    """L.Guards that also decides `x is None` / `x is not None` / `x == None` / `x != None` for an Optional result: when
    every definition of the local name x that is reachable under the valuation is the constant None the test is decided that way,
    when every one constructs an object (class / record of the repository, display, text) the other way.  This is what an inlined
    `return None` guard clause of a helper followed by `if result is None: return None` in the caller amounts to."""

    def __init__(self, repo: Repo, f: FuncInfo, matcher):
        super().__init__(f, matcher)
        self.repo = repo

    def _noneness(self, e: ast.AST, at: Optional[int], seen: Set[int], depth: int = 0) -> Optional[bool]:
        """True: certainly None, False: certainly an object, None: unknown"""
        if depth > 6:
            return None
        if isinstance(e, ast.Constant):
            return e.value is None
        if isinstance(e, (ast.Tuple, ast.List, ast.Dict, ast.Set, ast.JoinedStr, ast.ListComp, ast.SetComp, ast.DictComp, ast.GeneratorExp, ast.Lambda)):
            return False
        if isinstance(e, ast.Call):
            cn = callee_name(e)
            if isinstance(e.func, ast.Name) and (cn in self.repo.classes or U.record_fields(self.repo, cn) is not None or
                                                 (cn in _NOT_NONE_CALLS and self.repo.lookup(self.f.mod.name, cn) is None)):
                return False
            return None
        if isinstance(e, ast.IfExp):
            a, b = self._noneness(e.body, at, seen, depth + 1), self._noneness(e.orelse, at, seen, depth + 1)
            return a if a == b else None
        if isinstance(e, ast.Name) and isinstance(e.ctx, ast.Load):
            n = self.g.node_containing(e) if at is None else at
            if n is None:
                return None
            defs = [d for d in L.rd_of(self.f).defs_reaching(n, e.id) if d in seen]
            if not defs:
                return None
            out = set()
            for d in defs:
                st = self.g.stmt[d]
                v = None
                if d != self.g.entry and isinstance(st, ast.Assign) and len(st.targets) == 1 and isinstance(st.targets[0], ast.Name):
                    v = st.value
                elif d != self.g.entry and isinstance(st, ast.AnnAssign) and isinstance(st.target, ast.Name):
                    v = st.value
                out.add(self._noneness(v, d, seen, depth + 1) if v is not None else None)
            return out.pop() if len(out) == 1 else None
        return None

    def _val(self, valuation, seen):
        base = super()._val(valuation, seen)
        if seen is None:
            return base

        def val(e):
            v = base(e)
            if v is not None:
                return v
            if isinstance(e, ast.Compare) and len(e.ops) == 1 and isinstance(e.ops[0], (ast.Is, ast.IsNot, ast.Eq, ast.NotEq)):
                for x, y in ((e.left, e.comparators[0]), (e.comparators[0], e.left)):
                    if isinstance(y, ast.Constant) and y.value is None and isinstance(x, ast.Name):
                        nn = self._noneness(x, None, seen)
                        if nn is not None:
                            return nn == isinstance(e.ops[0], (ast.Is, ast.Eq))
            return None

        return val


def _class_name(e: ast.AST) -> Optional[str]:
    if isinstance(e, ast.Name):
        return e.id
    if isinstance(e, ast.Attribute):
        return e.attr
    return None


def _sympy_table(repo: Repo) -> Dict[str, ast.AST]:
    """SYMPY_OP_TO_PDDL_OP as {class name: value node} (`Add` and `sympy.Add` are the same key)"""
    m = repo.module(NS)
    node = repo.const_node(m.name, "SYMPY_OP_TO_PDDL_OP")
    if isinstance(node, ast.Dict) and all(k is not None and _class_name(k) for k in node.keys):
        return {_class_name(k): v for k, v in zip(node.keys, node.values)}
    return {str(k).rsplit(".", 1)[-1]: v for k, v in L.table(repo, NS, "SYMPY_OP_TO_PDDL_OP").items()}


def rule_vocab(repo: Repo) -> RuleResult:
    r = RuleResult("C13.vocab", "operators emitted for sympy nodes are binary + - * / only", "text that uses only binary + - * /")
    tab = _sympy_table(repo)
    m = repo.module(NS)
    for k, v in tab.items():
        r.site(f"{NS}.SYMPY_OP_TO_PDDL_OP[{k}]")
        ok, val = repo.fold(v, m.name)
        if not ok or not isinstance(val, str):
            raise AnalysisError(f"SYMPY_OP_TO_PDDL_OP[{k}] is not a string constant")
        numeral = val.lstrip("-").isdigit()
        if val in ("", "+", "-", "*", "/") or numeral:
            r.ok({"key": str(k), "emits": val})
        else:
            r.fail(Finding("C13.vocab", (m.short, "SYMPY_OP_TO_PDDL_OP", str(m.path)), f"table-value:{k}", f"sympy {k} is printed with the operator {val!r}, "
                           f"which is not PDDL (only + - * / are)", node=v))
    # operators written out in the text the printer builds itself, e.g. "(/ 1 {x})"
    f = _fn(repo, f"{NS}::convert_expr_to_pddl")
    for node, text in _built_texts(repo, f):
        for tok in _OPERATOR_HEAD.findall(text):
            r.site(L.site(f, node, f"literal operator {tok}"))
            if tok in ("+", "-", "*", "/"):
                r.ok({"text": text, "operator": tok})
            else:
                r.fail(Finding("C13.vocab", f, f"literal-operator:{tok}", f"the printer builds the text {text!r}: {tok!r} is not a PDDL operator (only + - * / are)", node=node))
    r.require_sites(5)
    return r


_OPERATOR_HEAD = re.compile(r"\(\s*([^\s(){}]+)(?=[\s{])")


def _built_texts(repo: Repo, f: FuncInfo):
    """(node, template) of the outermost string-building expressions of f that are not part of a raise / logging statement;
    values that are not literal are written {}"""
    pm = L.parents_of(f)
    ev = S.Evaluator(repo, f)

    def builds(n) -> bool:
        if isinstance(n, ast.JoinedStr):
            return True
        if isinstance(n, ast.BinOp) and isinstance(n.op, ast.Add):
            return any(isinstance(x, ast.JoinedStr) or (isinstance(x, ast.Constant) and isinstance(x.value, str)) or builds(x) for x in (n.left, n.right))
        if isinstance(n, ast.Call) and isinstance(n.func, ast.Attribute) and n.func.attr in ("format", "join"):
            return True
        return False

    out = []
    for n in ast.walk(f.node):
        if not builds(n):
            continue
        cur, outer, skip = n, True, False
        while cur in pm:
            cur = pm[cur]
            if isinstance(cur, ast.expr) and builds(cur):
                outer = False
                break
            if isinstance(cur, ast.Raise) or (isinstance(cur, ast.Call) and is_logging_call(cur)):
                skip = True
                break
            if isinstance(cur, ast.stmt):
                break
        if not outer or skip:
            continue
        try:
            text = U.render(ev.string(n), lambda _n: "")
        except (AnalysisError, KeyError):
            continue
        out.append((n, text))
    return out


# =============================================================================================================== C13.mangle
SYMBOL_CTORS = ("symbols", "Symbol", "var", "Dummy")
_PROBES = [("(", "("), (")", ")"), ("-", "-"), ("_", "_"), ("?", "?"), (" ", " "), ("\t", "<tab>"), ("1", "<digit>"), ("x", "<letter>")]


def _witness(c: str) -> str:
    return "(dist a" + c + "b)"


def rule_mangle(repo: Repo) -> RuleResult:
    r = RuleResult("C13.mangle", "the fluent -> sympy symbol name is injective (no deletion / merging of characters that distinguish PDDL names)",
                   "distinct fluents stay distinct through simplification")
    f = _fn(repo, f"{NS}::transform_expression")
    p = L.prov(repo, f)
    syms = [c for c in L.calls_in(f.node) if U.ext_callee(repo, f, c) in SYMBOL_CTORS]
    if not syms:
        raise AnalysisError("transform_expression: symbol construction not recognised")
    for c in syms:
        r.site(L.site(f, c, "symbol name"))
        name_e = c.args[0] if c.args else next((k.value for k in c.keywords if k.arg in ("names", "name")), None)
        if name_e is None:
            raise AnalysisError(f"transform_expression: {unparse(c, 50)} has no name argument")

        def name_of(w: str) -> str:
            ev = U.PureEval(repo, f, p, w)
            try:
                v = ev.ev(name_e)
            except U.NotPure as ex:
                raise AnalysisError(f"transform_expression: the symbol name {unparse(name_e, 60)} is not interpreted ({ex})")
            if not ev.inputs:
                raise AnalysisError(f"transform_expression: the symbol name {unparse(name_e, 60)} does not depend on the fluent that is iterated")
            if not isinstance(v, str):
                raise AnalysisError(f"transform_expression: the symbol name {unparse(name_e, 60)} is not a string")
            return v

        base = name_of(_witness(""))
        names = {label: name_of(_witness(ch)) for ch, label in _PROBES}
        deleted = {label for label, n in names.items() if n == base}
        if {" ", "<tab>"} <= deleted:
            deleted = (deleted - {" ", "<tab>"}) | {"<whitespace>"}
        deleted.discard("<tab>")
        harmful = sorted(deleted & {"-", "_", "<whitespace>", " ", "<digit>", "<letter>"})
        kept = [label for label in ("-", "_", " ", "<digit>", "<letter>") if names[label] != base]
        merged = sorted({f"{a}|{b}" for a, b in itertools.combinations(kept, 2) if names[a] == names[b]})
        if harmful:
            r.fail(Finding("C13.mangle", f, "symbol-name:deletes:" + "/".join(harmful), f"the symbol name is the fluent text with {sorted(deleted)} deleted; deleting {harmful} "
                           f"merges different fluents: (dist a bc) and (dist ab c) become the same symbol", node=c))
        elif merged:
            r.fail(Finding("C13.mangle", f, "symbol-name:merges:" + "/".join(merged), f"the symbol name maps different characters of a fluent to the same text ({merged}): "
                           f"{_witness('-')} and {_witness('_')} style fluents become the same symbol", node=c))
        else:
            r.ok({"deleted_characters": sorted(deleted), "example": f"{_witness('-')} -> {names['-']}"})
    r.require_sites(1)
    return r


# =============================================================================================================== C13.round
TRUNCATING = ("int", "floor", "trunc", "ceil")
_NUM_WRAPPERS = {"arg0:float", "arg0:round", "arg0:Float", "arg0:abs", "arg0:Decimal"}


def _main(paths):
    """the paths on which the value itself travels (not the number of digits handed to round / format)"""
    return [x for x in paths if not x[0].startswith(("const:", "builtin:", "global:")) and U.is_main_flow(x)]


def _format_rounded(paths) -> bool:
    """the value was pushed through str.format / format() (a fixed number of decimals): what comes out is the ROUNDED value"""
    return any(not x[0].startswith(("const:", "builtin:", "global:")) and
               any(st.endswith(":format") and st.startswith(("kw:", "arg")) for st in x) for x in paths)


def _through_round(paths) -> bool:
    if _format_rounded(paths):
        return True
    paths = _main(paths)
    return bool(paths) and all("arg0:round" in x for x in paths)


def _bases(paths) -> Set[tuple]:
    out = {tuple(s for s in x if s not in _NUM_WRAPPERS) for x in _main(paths)}
    # a value handed to str.format as a (keyword) argument: the formatted text is a rounding of that value
    for x in paths:
        if x[0].startswith(("const:", "builtin:", "global:")):
            continue
        if any(st.endswith(":format") and st.startswith(("kw:", "arg")) for st in x):
            i = next(k for k, st in enumerate(x) if st.endswith(":format") and st.startswith(("kw:", "arg")))
            if U.is_main_flow(x[:i]) and not any("digit" in st or "prec" in st for st in x[i:i + 1]):
                out.add(tuple(s for s in x[:i] if s not in _NUM_WRAPPERS))
    return out


class _IntTests:
    """the tests `X.is_integer()`, `X == int(X)`, `X % 1 == 0` of one function as guard atoms: 'rint' when X is round(..), else 'exact'"""

    def __init__(self, repo: Repo, f: FuncInfo):
        self.repo, self.f = repo, f
        self.p = L.prov(repo, f)
        self.tests: Dict[int, Tuple[str, ast.AST, ast.AST]] = {}      # id(test expr) -> (atom, test expr, tested value expr)
        self.in_test: Set[int] = set()
        for n in ast.walk(f.node):
            got = self._classify(n)
            if got is not None:
                atom, val = got
                self.tests[id(n)] = (atom, n, val)
                for sub in ast.walk(n):
                    self.in_test.add(id(sub))

    def trace(self, e, under=None):
        try:
            return U.norm_paths(self.repo, self.p.trace(e, under=under))
        except KeyError:
            return set()

    def _classify(self, n: ast.AST):
        val = None
        neg = False
        if isinstance(n, ast.Call) and isinstance(n.func, ast.Attribute) and n.func.attr == "is_integer" and not n.args:
            val = n.func.value
        elif isinstance(n, ast.Compare) and len(n.ops) == 1 and isinstance(n.ops[0], (ast.Eq, ast.NotEq)):
            a, b = n.left, n.comparators[0]
            neg = isinstance(n.ops[0], ast.NotEq)
            for x, y in ((a, b), (b, a)):
                if isinstance(y, ast.Call) and callee_name(y) in ("int", "round") and isinstance(y.func, ast.Name) and len(y.args) == 1 \
                        and not isinstance(x, ast.Constant):
                    tx, ty = self.trace(x), self.trace(y.args[0])
                    if tx and tx == ty:
                        val = x
                        break
                if isinstance(x, ast.BinOp) and isinstance(x.op, ast.Mod) and isinstance(x.right, ast.Constant) and x.right.value == 1 \
                        and isinstance(y, ast.Constant) and y.value == 0 and not isinstance(y.value, bool):
                    val = x.left
                    break
        if val is None:
            tol = self._tolerance_test(n)
            if tol is not None:
                return "tolerant", tol
            return None
        tr = self.trace(val)
        if not tr:
            return None
        atom = "rint" if _through_round(tr) else "exact"
        return ("!" + atom if neg else atom), val

    def _tolerance_test(self, n: ast.AST):
        """`isclose(x, round(x) | int(x), ..)` / `abs(x - round(x)) < eps`: 'x is nearly an integer' -- not an integer test"""
        def integer_of(a, b):
            tb = self.trace(b)
            if not tb or not all(any(st in ("arg0:round", "arg0:int", "arg0:floor", "arg0:trunc", "arg0:ceil") for st in x) for x in _main(tb) or [()]):
                return False
            ta = self.trace(a)
            strip = lambda paths: {tuple(s_ for s_ in x if s_ not in ("arg0:int", "arg0:floor", "arg0:trunc", "arg0:ceil")) for x in _bases(paths)}
            return bool(ta) and bool(strip(ta) & strip(tb))
        if isinstance(n, ast.Call) and callee_name(n) == "isclose" and len(n.args) >= 2:
            a, b = n.args[0], n.args[1]
            if integer_of(a, b):
                return a
            if integer_of(b, a):
                return b
        if isinstance(n, ast.Compare) and len(n.ops) == 1 and isinstance(n.ops[0], (ast.Lt, ast.LtE, ast.Gt, ast.GtE)):
            for side in (n.left, n.comparators[0]):
                if isinstance(side, ast.Call) and callee_name(side) == "abs" and len(side.args) == 1 and isinstance(side.args[0], ast.BinOp) \
                        and isinstance(side.args[0].op, ast.Sub):
                    a, b = side.args[0].left, side.args[0].right
                    if integer_of(a, b):
                        return a
                    if integer_of(b, a):
                        return b
        return None

    def matcher(self, e: ast.AST) -> Optional[str]:
        t = self.tests.get(id(e))
        return t[0] if t else None


def rule_round(repo: Repo, rid: str = "C13.round", specs=None) -> RuleResult:
    r = RuleResult(rid, "where a value is printed as an integer because round(x, d).is_integer(), the printed integer is int(round(x, d))",
                   "up to rounding of coefficients at the requested number of decimals")
    specs = specs or [f"{NS}::extract_atom"]
    for spec in specs:
        _round_in(repo, r, rid, _fn(repo, spec), must_have=(spec.endswith("extract_atom")))
    r.require_sites(1)
    return r


def _round_in(repo: Repo, r: RuleResult, rid: str, f: FuncInfo, must_have: bool) -> None:
    T = _IntTests(repo, f)
    p = T.p
    G = _Guards(repo, f, T.matcher)
    atoms = {a.lstrip("!") for a, _n, _v in T.tests.values()}
    test_bases: Set[tuple] = set()
    for _a, _n, v in T.tests.values():
        test_bases |= _bases(T.trace(v))
    test_roots = {b[0] for b in test_bases}
    convs = []
    for c in L.calls_in(f.node):
        if callee_name(c) in TRUNCATING and len(c.args) == 1 and not c.keywords and id(c) not in T.in_test and not isinstance(c.args[0], ast.Constant):
            tr = T.trace(c.args[0])
            if not tr or all(x[0].startswith(("const:", "global:", "builtin:")) for x in tr):
                continue
            if T.tests and not (_bases(tr) & test_bases) and not ({b[0] for b in _bases(tr)} & test_roots):
                continue        # an integer conversion of something that no integer test looks at
            convs.append(c)
    rd = L.rd_of(f)
    pm = L.parents_of(f)
    g = G.g
    seen_cache: Dict[tuple, Set[int]] = {}

    def seen_of(val: Dict[str, bool]) -> Set[int]:
        k = tuple(sorted(val.items()))
        if k not in seen_cache:
            seen_cache[k] = G.reach(val)
        return seen_cache[k]

    def used_under(val: Dict[str, bool], e: ast.AST, depth: int = 0) -> bool:
        """the value of e is used on some execution admitted by the valuation (follows plain local names to their uses)"""
        if not G.reaches_expr(val, e, seen=seen_of(val)):
            return False
        st = e
        while st in pm and not isinstance(st, ast.stmt):
            st = pm[st]
        if depth < 4 and isinstance(st, (ast.Assign, ast.AnnAssign)):
            tgts = st.targets if isinstance(st, ast.Assign) else [st.target]
            if len(tgts) == 1 and isinstance(tgts[0], ast.Name):
                name, dn = tgts[0].id, g.node_of(st)
                uses = [u for u in ast.walk(f.node) if isinstance(u, ast.Name) and u.id == name and isinstance(u.ctx, ast.Load)
                        and g.node_containing(u) is not None and dn in rd.defs_reaching(g.node_containing(u), name)]
                if uses:
                    return any(used_under(val, u, depth + 1) for u in uses)
        return True

    for _a, n, _v in T.tests.values():
        r.site(L.site(f, n, "integer test"))
    for a_, n, _v in T.tests.values():
        if a_ == "tolerant":
            r.fail(Finding(rid, f, "integer-test:tolerant", f"{unparse(n, 60)} decides whether the value is printed as an integer: a value within the tolerance "
                           f"of an integer loses a fraction that is representable at the print precision (5.0001 at 4 digits is printed as 5)", node=n))
    if not T.tests and not convs:
        if must_have and any(callee_name(c) in TRUNCATING for c in L.calls_in(f.node)):
            raise AnalysisError(f"{f.qn}: integer conversion found but its operand is not interpreted")
        r.site(f.qn + " [no integer shortcut]")
        r.ok({"function": f.qn, "integer_shortcut": None})
        return
    if T.tests and not convs:
        r.ok({"function": f.qn, "integer_tests": len(T.tests), "integer_conversions": 0})
        return
    for c in convs:
        r.site(L.site(f, c, "integer branch"))
        arg = c.args[0]
        if _through_round(T.trace(arg)):
            if "rint" in atoms and used_under({"rint": False}, c) and not ("exact" in atoms and not used_under({"rint": False, "exact": False}, c)):
                r.fail(Finding(rid, f, "integer-conversion-of-non-integer", f"{unparse(c, 50)} is used although the rounded value is not an integer: "
                               f"the fraction is cut off", node=c))
            else:
                r.ok({"integer_branch": unparse(c, 60)})
            continue
        if "exact" in atoms and used_under({"exact": True}, c) and not used_under({"exact": False}, c):
            r.ok({"integer_conversion": unparse(c, 60), "exact": True})
            continue
        if "rint" in atoms:
            val = {"rint": True}
            if used_under(val, c):
                if _through_round(T.trace(arg, under=G.under(val, seen_of(val)))):
                    r.ok({"integer_branch": unparse(c, 60)})
                else:
                    r.fail(Finding(rid, f, "truncation-under-round-guard", f"the branch taken when round(x, d) is an integer prints {unparse(c, 50)}: "
                                   f"int() truncates, so 2.99999 at 2 digits is printed as 2", node=c))
            else:
                r.fail(Finding(rid, f, "integer-conversion-of-non-integer", f"{unparse(c, 50)} is used only when the rounded value is not an integer: "
                               f"the fraction is cut off", node=c))
            continue
        if "tolerant" in atoms:
            continue            # reported above
        if must_have:
            raise AnalysisError(f"{f.qn}: {unparse(c, 50)} is not controlled by a recognised integer test")
        r.ok({"integer_conversion": unparse(c, 60), "guard": None})


# =============================================================================================================== C13.atoms
NUMBER_CLASSES = ("Float", "Integer", "Zero", "One", "NegativeOne", "Symbol", "Rational", "Half")
_ANCESTORS = {
    "Zero": {"IntegerConstant", "Integer", "Rational", "Number", "AtomicExpr", "Atom", "Expr", "Basic"},
    "One": {"IntegerConstant", "Integer", "Rational", "Number", "AtomicExpr", "Atom", "Expr", "Basic"},
    "NegativeOne": {"IntegerConstant", "Integer", "Rational", "Number", "AtomicExpr", "Atom", "Expr", "Basic"},
    "Half": {"RationalConstant", "Rational", "Number", "AtomicExpr", "Atom", "Expr", "Basic"},
    "Integer": {"Rational", "Number", "AtomicExpr", "Atom", "Expr", "Basic"},
    "Rational": {"Number", "AtomicExpr", "Atom", "Expr", "Basic"},
    "Float": {"Number", "AtomicExpr", "Atom", "Expr", "Basic"},
    "Symbol": {"AtomicExpr", "Atom", "Expr", "Basic", "Boolean"},
}
_COVERS = {"Half": {"Rational"}, "Zero": {"Integer"}, "One": {"Integer"}, "NegativeOne": {"Integer"}}   # isinstance tests that print the class


class _ClassTests:
    """tests of a function on the class of one of its parameters: (kind, class names, negated)"""

    def __init__(self, repo: Repo, f: FuncInfo):
        self.repo, self.f = repo, f
        self.p = L.prov(repo, f)
        self.tests: Dict[int, Tuple[str, Set[str], bool, ast.AST]] = {}
        self.uninterpreted: List[ast.AST] = []         # tests on the class of the parameter whose class operand is not understood
        for n in ast.walk(f.node):
            try:
                t = self._classify(n)
            except KeyError:
                t = None
            if t is not None:
                self.tests[id(n)] = t + (n,)

    def _is_class_of_param(self, e: ast.AST) -> bool:
        if isinstance(e, ast.Constant):
            return False
        tr = U.norm_paths(self.repo, self.p.trace(e))
        return bool(tr) and all(x[0].startswith("param:") and x[-1] in ("attr:func", "arg0:type", "attr:__class__") for x in tr)

    def _classes(self, e: ast.AST, depth: int = 0) -> Optional[Set[str]]:
        if depth > 4:
            return None
        if isinstance(e, (ast.Tuple, ast.List, ast.Set)):
            out: Set[str] = set()
            for x in e.elts:
                s = self._classes(x, depth + 1)
                if s is None:
                    return None
                out |= s
            return out
        if isinstance(e, ast.Dict):
            out = set()
            for k, v in zip(e.keys, e.values):
                s = self._classes(k if k is not None else v, depth + 1)         # `{**OTHER_TABLE, Cls: ..}`
                if s is None or (k is not None and len(s) != 1):
                    return None
                out |= s
            return out
        if isinstance(e, ast.BinOp) and isinstance(e.op, (ast.BitOr, ast.Add)):
            a, b = self._classes(e.left, depth + 1), self._classes(e.right, depth + 1)
            return None if a is None or b is None else a | b
        if isinstance(e, ast.Call) and callee_name(e) == "dict" and isinstance(e.func, ast.Name) and len(e.args) == 1 and not e.keywords:
            a = e.args[0]
            if isinstance(a, (ast.Tuple, ast.List)) and all(isinstance(x, (ast.Tuple, ast.List)) and len(x.elts) == 2 for x in a.elts):
                return self._classes(ast.Tuple(elts=[x.elts[0] for x in a.elts], ctx=ast.Load()), depth + 1)
            return self._classes(a, depth + 1) if isinstance(a, (ast.Name, ast.Dict)) else None
        if isinstance(e, ast.Call) and callee_name(e) in ("tuple", "set", "frozenset", "list", "keys") and (e.args or isinstance(e.func, ast.Attribute)):
            return self._classes(e.args[0] if e.args else e.func.value, depth + 1)
        if isinstance(e, ast.Attribute):
            return {e.attr}
        if isinstance(e, ast.Name):
            try:
                defs = self.p.rd.defs_reaching(self.p.node_of(e), e.id)
            except KeyError:
                defs = set()
            if defs:
                if len(defs) != 1:
                    return None
                st = self.p.g.stmt[next(iter(defs))]
                if isinstance(st, ast.Assign) and len(st.targets) == 1:
                    v = self.p._paired(st.targets[0], st.value, e.id)          # `cls, printer = (Integer, f)` names Integer
                    return self._classes(v, depth + 1) if v is not None else None
                if isinstance(st, (ast.Assign, ast.AnnAssign)) and st.value is not None:
                    return self._classes(st.value, depth + 1)
                return None
            r = self.repo.lookup(self.f.mod.name, e.id)
            if r and r[0] == "const" and isinstance(r[1], (ast.Tuple, ast.List, ast.Set, ast.Dict, ast.Call)):
                return self._classes(r[1], depth + 1)
            if r and r[0] == "external" and isinstance(r[1], tuple) and r[1][1]:
                return {r[1][1]}
            return {e.id}
        return None

    def _single_def(self, e: ast.Name) -> Optional[ast.AST]:
        try:
            defs = self.p.rd.defs_reaching(self.p.node_of(e), e.id)
        except KeyError:
            return None
        if len(defs) != 1:
            return None
        d = next(iter(defs))
        if d == self.p.g.entry:
            return None
        st = self.p.g.stmt[d]
        if isinstance(st, ast.Assign) and len(st.targets) == 1:
            return self.p._paired(st.targets[0], st.value, e.id)
        if isinstance(st, ast.AnnAssign) and isinstance(st.target, ast.Name):
            return st.value
        return None

    def _truthy_values(self, table: ast.AST, depth: int = 0) -> bool:
        """every value of the table display is a callable / a non-empty text (so `if entry:` means `the key is in the table`)"""
        if depth > 3:
            return False
        if isinstance(table, ast.Name):
            v = self._single_def(table)
            if v is None:
                r = self.repo.lookup(self.f.mod.name, table.id)
                v = r[1] if r and r[0] == "const" else None
            return v is not None and self._truthy_values(v, depth + 1)
        if isinstance(table, ast.Dict):
            for k, v in zip(table.keys, table.values):
                if k is None:
                    if not self._truthy_values(v, depth + 1):
                        return False
                    continue
                if isinstance(v, ast.Lambda) or (isinstance(v, ast.Constant) and isinstance(v.value, str) and v.value):
                    continue
                if isinstance(v, (ast.Name, ast.Attribute)):
                    nm = v.id if isinstance(v, ast.Name) else v.attr
                    r = self.repo.lookup(self.f.mod.name, nm) if isinstance(v, ast.Name) else None
                    if (r and r[0] in ("func", "external")) or (isinstance(v, ast.Attribute) and isinstance(v.value, ast.Name)
                                                                and (self.repo.lookup(self.f.mod.name, v.value.id) or ("",))[0] == "module"):
                        continue
                if isinstance(v, ast.Call) and callee_name(v) in ("partial", "attrgetter", "methodcaller", "itemgetter"):
                    continue
                return False
            return True
        return False

    def _lookup(self, e: ast.AST, depth: int = 0):
        """e is (a name bound once to) TABLE.get(<class of the parameter>) / TABLE[<class of the parameter>]:
        ('get' | 'item', classes that are keys of the table, table expression)"""
        if depth > 3:
            return None
        if isinstance(e, ast.Name) and isinstance(e.ctx, ast.Load):
            v = self._single_def(e)
            return self._lookup(v, depth + 1) if v is not None and not isinstance(v, ast.Name) else None
        if isinstance(e, ast.Call) and isinstance(e.func, ast.Attribute) and e.func.attr == "get" and not e.keywords and 1 <= len(e.args) <= 2:
            if len(e.args) == 2 and not (isinstance(e.args[1], ast.Constant) and e.args[1].value is None):
                return None
            if self._is_class_of_param(e.args[0]):
                cs = self._classes(e.func.value)
                if cs is not None:
                    return "get", cs, e.func.value
        if isinstance(e, ast.Subscript) and isinstance(e.ctx, ast.Load) and not isinstance(e.slice, ast.Slice) and self._is_class_of_param(e.slice):
            cs = self._classes(e.value)
            if cs is not None and isinstance(e.value, (ast.Name, ast.Attribute, ast.Dict)):
                return "item", cs, e.value
        return None

    def _classify(self, n: ast.AST):
        if isinstance(n, ast.Compare) and len(n.ops) == 1 and isinstance(n.ops[0], (ast.Is, ast.IsNot, ast.Eq, ast.NotEq)):
            for x, y in ((n.left, n.comparators[0]), (n.comparators[0], n.left)):
                if isinstance(y, ast.Constant) and y.value is None and not isinstance(x, ast.Constant):
                    lk = self._lookup(x)
                    if lk is not None and lk[0] == "get":
                        # `TABLE.get(cls) is None`: true exactly for the classes that are not keys
                        return "exact", lk[1], isinstance(n.ops[0], (ast.Is, ast.Eq))
        if isinstance(n, ast.Subscript):
            lk = self._lookup(n)
            if lk is not None:
                return "lookup", lk[1], False         # not a test (a missing key raises): it only names the classes it serves
        if isinstance(n, ast.Name) and isinstance(n.ctx, ast.Load):
            lk = self._lookup(n)
            if lk is not None and lk[0] == "get" and self._truthy_values(lk[2]):
                return "exact", lk[1], False           # the entry used as a truth value
            return None
        if isinstance(n, ast.Compare) and len(n.ops) == 1:
            op = n.ops[0]
            a, b = n.left, n.comparators[0]
            if isinstance(op, (ast.Eq, ast.Is, ast.NotEq, ast.IsNot)):
                for x, y in ((a, b), (b, a)):
                    if self._is_class_of_param(x):
                        cs = self._classes(y)
                        if cs is not None and len(cs) == 1:
                            return "exact", cs, isinstance(op, (ast.NotEq, ast.IsNot))
                        self.uninterpreted.append(n)
                        break
            if isinstance(op, (ast.In, ast.NotIn)) and self._is_class_of_param(a):
                cs = self._classes(b)
                if cs is not None:
                    return "exact", cs, isinstance(op, ast.NotIn)
                self.uninterpreted.append(n)
        if isinstance(n, ast.Call) and isinstance(n.func, ast.Name) and n.func.id == "isinstance" and len(n.args) == 2:
            tr = self.p.trace(n.args[0])
            if tr and all(x[0].startswith("param:") and len(x) == 1 for x in tr):
                cs = self._classes(n.args[1])
                if cs is not None:
                    return "isinstance", cs, False
                self.uninterpreted.append(n)
        return None

    def truth(self, n: ast.AST, cls: str) -> Optional[bool]:
        t = self.tests.get(id(n))
        if t is None:
            return None
        kind, cs, neg, _n = t
        if kind == "lookup":
            return None
        hit = cls in cs or (kind == "isinstance" and bool(_ANCESTORS.get(cls, set()) & cs))
        return hit != neg

    def names(self, n: ast.AST, cls: str) -> bool:
        kind, cs, _neg, _n = self.tests[id(n)]
        return cls in cs or (kind == "isinstance" and bool(_COVERS.get(cls, set()) & cs))


def rule_atoms(repo: Repo) -> RuleResult:
    r = RuleResult("C13.atoms", "extract_atom handles every sympy number class the simplifier can return", "text that the library's own reader accepts (no crash on x/2)")
    f = _fn(repo, f"{NS}::extract_atom")
    T = _ClassTests(repo, f)
    if not T.tests:
        raise AnalysisError("extract_atom: no test on the class of the expression recognised")
    tab = set(_sympy_table(repo).keys())
    for cls in NUMBER_CLASSES:
        r.site(f"{f.qn} [{cls}]")

        def matcher(e, cls=cls):
            v = T.truth(e, cls)
            return None if v is None else ("is" if v else "!is")

        G = _Guards(repo, f, matcher)
        seen = G.reach({"is": True})
        returns = any(G.g.kind[n] == "return" for n in seen)          # the class is not simply rejected
        handled = returns and any(T.names(n, cls) and G.reaches_expr({"is": True}, n, seen=seen) for _k, _c, _ng, n in T.tests.values())
        if handled and cls in tab:
            r.ok({"class": cls})
        else:
            if not handled and T.uninterpreted:
                raise AnalysisError(f"extract_atom: the test {unparse(T.uninterpreted[0], 60)} on the class of the expression is not interpreted "
                                    f"(cannot decide whether {cls} is handled)")
            where = [w for w, ok in (("extract_atom", handled), ("SYMPY_OP_TO_PDDL_OP", cls in tab)) if not ok]
            r.fail(Finding("C13.atoms", f, f"atom-class:{cls}", f"sympy {cls} is not handled by {where}: an expression such as x/2 raises KeyError / ValueError"))
    r.require_sites(8)
    return r


# =============================================================================================================== C13.sides
SPLITTERS = {"call:split": {0: 0, 1: 1}, "call:rsplit": {0: 0, 1: 1}, "call:partition": {0: 0, 2: 1}, "call:rpartition": {0: 0, 2: 1}}
CARRIERS = ("transform_expression",)


def _split_side(path) -> Optional[int]:
    """0 / 1: the value derives from the first / second part of a split of its root"""
    for i, st in enumerate(path[:-1]):
        if st in SPLITTERS:
            nxt = path[i + 1]
            k = nxt.split(":", 1)[1] if nxt.startswith(("unpack:", "item:")) else None
            if k is not None and k.lstrip("-").isdigit():
                return SPLITTERS[st].get(int(k), -1)
            return -1
    return None


def _returned_shapes(repo: Repo, f: FuncInfo):
    ev = S.Evaluator(repo, f)
    out = []
    for ret in L.func_returns(f):
        if ret.value is None or (isinstance(ret.value, ast.Constant) and ret.value.value is None):
            continue
        for sh in _alternatives(ev.string(ret.value)):
            out.append((ret, sh))
    return out


def _alternatives(sh) -> list:
    """the texts a returned value can be: `None if redundant else text` / a name that is None unless assigned are the text"""
    if isinstance(sh, S.Alt):
        return _alternatives(sh.a) + _alternatives(sh.b)
    if isinstance(sh, S.Hole) and isinstance(sh.node, ast.Constant) and sh.node.value is None:
        return []
    return [sh]


def _check_shape(repo: Repo, r: RuleResult, f: FuncInfo, role: str, want: str, hole, fail_text: str) -> None:
    shapes = _returned_shapes(repo, f)
    got = [U.squeeze(U.render(sh, hole)) for _ret, sh in shapes]
    if got and all(x == want for x in got):
        r.ok({"returns": want})
    else:
        node = next((ret for (ret, _sh), x in zip(shapes, got) if x != want), None)
        r.fail(Finding("C13.sides", f, role, f"{fail_text} (returned text: {got or 'none'}, expected {want!r})", node=node))


def rule_sides(repo: Repo) -> RuleResult:
    r = RuleResult("C13.sides", "the simplified (in)equality keeps its operator and the left / right sides", "means the same as the original")
    # ---- simplify_inequality: '(' op simplified(left part) simplified(right part) ')'
    f = _fn(repo, f"{NS}::simplify_inequality")
    p = L.prov(repo, f)
    r.site(f.qn)
    if len(f.params) < 2:
        raise AnalysisError("simplify_inequality: parameters (expression, operator) not found")
    expr_param, op_param = f.params[0], f.params[1]

    def hole_ineq(n) -> str:
        try:
            tr = U.norm_paths(repo, p.trace(n))
        except KeyError:
            return "?" + unparse(n, 30)
        if tr and all(x == (f"param:{op_param}",) for x in tr):
            return "op"
        main = [x for x in tr if x[0] == f"param:{expr_param}" and U.is_main_flow(x, CARRIERS)]
        sides = {_split_side(x) for x in main}
        if sides == {0}:
            return "left"
        if sides == {1}:
            return "right"
        return "?" + unparse(n, 30)

    _check_shape(repo, r, f, "inequality-shape", "({op} {left} {right})", hole_ineq,
                 "simplify_inequality does not return '(' op left right ')' with the sides in their original order")

    # ---- simplify_equality: '(= ' simplified.lhs simplified.rhs ')'
    g = _fn(repo, f"{NS}::simplify_equality")
    pg = L.prov(repo, g)
    r.site(g.qn)

    def eq_side(path) -> Optional[str]:
        for i, st in enumerate(path):
            if st in ("attr:lhs", "attr:rhs"):
                return st[5:]
            if st == "attr:args" and i + 1 < len(path) and path[i + 1] in ("item:0", "item:1", "unpack:0", "unpack:1"):
                return "lhs" if path[i + 1].endswith("0") else "rhs"
        return None

    def hole_eq(n) -> str:
        try:
            tr = U.norm_paths(repo, pg.trace(n))
        except KeyError:
            return "?" + unparse(n, 30)
        sides = {eq_side(x) for x in tr if U.is_main_flow(x, CARRIERS)} - {None}
        if len(sides) == 1:
            return sides.pop()
        return "?" + unparse(n, 30)

    _check_shape(repo, r, g, "equality-shape", "(= {lhs} {rhs})", hole_eq, "simplify_equality does not return '(= lhs rhs)'")

    # ---- the tree method keeps its own operator, simplifies child 0 and prints child 1
    h = _fn(repo, "NumericalExpressionTree.simplify_complex_numerical_pddl_expression")
    ph = L.prov(repo, h)
    r.site(h.qn)

    def child_of(path) -> Optional[int]:
        if path[0] != "self":
            return None
        for i, st in enumerate(path):
            if st == "attr:children":
                if i + 1 < len(path) and path[i + 1].startswith(("item:", "unpack:")) and path[i + 1].split(":", 1)[1].isdigit():
                    return int(path[i + 1].split(":", 1)[1])
                return -1
        return None

    def hole_tree(n) -> str:
        try:
            tr = U.norm_paths(repo, ph.trace(n))
        except KeyError:
            return "?" + unparse(n, 30)
        if tr and all(x == ("self", "attr:root", "attr:value") for x in tr):
            return "op"
        kids = {child_of(x) for x in tr if x[0] == "self" and U.is_main_flow(x)} - {None}
        if kids == {0}:
            return "child0"
        if kids == {1}:
            return "child1"
        return "?" + unparse(n, 30)

    _check_shape(repo, r, h, "tree-shape", "({op} {child0} {child1})", hole_tree, "the simplified tree text does not keep (operator, child 0, child 1)")
    r.require_sites(3)
    return r


# =============================================================================================================== C13.eliminate
OPERATORS = ("+", "-", "*", "/")


class _Elim:
    """symbolic reading of extract_eliminated_expressions: positions in the (copied) equality tree are symbols
    (children[0].children[0] = e1, children[0].children[1] = e2, children[1] = r), AnyNode constructions are rational expressions"""

    def __init__(self, repo: Repo, f: FuncInfo):
        from .. import absval as A
        self.A = A
        self.repo, self.f = repo, f
        self.p = L.prov(repo, f)
        self.g = C.cfg_of(f.node)
        # which side of the equality is taken apart: the one whose operator is tested (the left one when there is no test)
        sides = set()
        for n in ast.walk(f.node):
            if isinstance(n, ast.Compare) and len(n.ops) == 1:
                for x, y in ((n.left, n.comparators[0]), (n.comparators[0], n.left)):
                    pos = self.pos_of(x)
                    if pos is not None and pos[1] and pos[0] in ((0,), (1,)):
                        ok, v = self.const_of(y, None)
                        if ok and (isinstance(v, str) or (isinstance(v, list) and v and all(isinstance(i, str) for i in v))):
                            sides.add(pos[0][0])
        if len(sides) > 1:
            raise AnalysisError("extract_eliminated_expressions: operator tests on both sides of the equality are not interpreted")
        self.side = sides.pop() if sides else 0
        s_ = self.side
        self.SYMBOLS = {(s_, 0): "e1", (s_, 1): "e2", (1 - s_,): "r"}

    # -- positions
    def pos_of(self, e: ast.AST, under=None):
        """(child indices, '.value' taken?) of an expression that navigates the tree of self, else None"""
        if isinstance(e, ast.Constant):
            return None
        try:
            tr = U.norm_paths(self.repo, self.p.trace(e, under=under))
        except KeyError:
            return None
        out = set()
        for x in tr:
            if x[0].startswith("fresh:") and len(x) == 1:
                continue
            if x[0] != "self" or any(s.startswith(("in:", "fresh:")) for s in x):
                return None
            idx = []
            is_value = False
            for s in x[1:]:
                if s.startswith(("item:", "unpack:")):
                    k = s.split(":", 1)[1]
                    if not k.isdigit():
                        return None
                    idx.append(int(k))
                elif s == "attr:value":
                    is_value = True
                elif s in ("attr:root", "attr:children", "call:__copy__", "call:copy", "arg0:deepcopy", "arg0:copy", f"arg0:{TREE_CLASS}", "arg0:list", "arg0:tuple"):
                    continue
                else:
                    return None
            out.add((tuple(idx), is_value))
        if len(out) != 1:
            return None
        return next(iter(out))

    # -- constants
    def const_of(self, e: ast.AST, seen: Set[int], depth: int = 0):
        """(True, python value) of a constant expression (literal, local or module-level name)"""
        if depth > 6:
            return False, None
        if isinstance(e, ast.Constant):
            return True, e.value
        if isinstance(e, ast.UnaryOp) and isinstance(e.op, ast.USub):
            ok, v = self.const_of(e.operand, seen, depth + 1)
            return (True, -v) if ok and isinstance(v, (int, float)) else (False, None)
        if isinstance(e, (ast.Tuple, ast.List, ast.Set)):
            vals = [self.const_of(x, seen, depth + 1) for x in e.elts]
            return (True, [v for _ok, v in vals]) if all(ok for ok, _v in vals) else (False, None)
        if isinstance(e, ast.IfExp):
            # `sign = -1 if op == "+" else 1`: decided by the valuation in force (operator admitted / r == 0)
            cur = getattr(self, "_cur_val", None)
            t = C.eval3(e.test, cur) if cur is not None else None
            if t is None:
                a, b = self.const_of(e.body, seen, depth + 1), self.const_of(e.orelse, seen, depth + 1)
                return a if a[0] and b[0] and a[1] == b[1] else (False, None)
            return self.const_of(e.body if t else e.orelse, seen, depth + 1)
        if isinstance(e, ast.Name):
            vals = self.live_values(e, seen)
            if vals is None:
                ok, v = self.repo.const_value(self.f.mod.name, e.id)
                if not ok:
                    node = self.repo.const_node(self.f.mod.name, e.id)
                    if node is not None and not isinstance(node, ast.Name):
                        return self.const_of(node, None, depth + 1)
                return (ok, v)
            if len(vals) == 1:
                return self.const_of(vals[0], seen, depth + 1)
        return False, None

    def live_values(self, e: ast.Name, seen: Optional[Set[int]]) -> Optional[List[ast.AST]]:
        """value expressions of the definitions of a local name that are live under the valuation; None for a non-local name;
        [] when a definition is not a plain (paired) assignment"""
        try:
            at = self.p.node_of(e)
        except KeyError:
            return None
        defs = self.p.rd.defs_reaching(at, e.id)
        if not defs:
            return None
        if seen is not None:
            defs = {d for d in defs if d in seen or d == self.g.entry} or defs
        out = []
        for d in sorted(defs):
            if d == self.g.entry:
                return []
            st = self.g.stmt[d]
            v = None
            if isinstance(st, ast.Assign) and len(st.targets) == 1:
                v = self.p._paired(st.targets[0], st.value, e.id)
            elif isinstance(st, ast.AnnAssign) and st.value is not None and isinstance(st.target, ast.Name):
                v = st.value
            if v is None:
                return []
            out.append(v)
        return out

    # -- guard atoms for a candidate operator
    def matcher_for(self, op: str):
        memo: Dict[int, Optional[str]] = {}

        def decide(e: ast.AST) -> Optional[str]:
            if isinstance(e, ast.Attribute) and e.attr == "value" and isinstance(e.ctx, ast.Load):
                pos = self.pos_of(e)
                return "!rz" if pos == ((1 - self.side,), True) else None       # used as a truth value: non-zero
            if not (isinstance(e, ast.Compare) and len(e.ops) == 1):
                return None
            o = e.ops[0]
            a, b = e.left, e.comparators[0]
            for x, y in ((a, b), (b, a)):
                pos = self.pos_of(x)
                if pos is None or not pos[1]:
                    continue
                if pos[0] == (self.side,):
                    ok, v = self.const_of(y, None)
                    if not ok:
                        continue
                    if isinstance(o, (ast.Eq, ast.NotEq)) and isinstance(v, str):
                        return "adm" if (op == v) != isinstance(o, ast.NotEq) else "!adm"
                    if isinstance(o, (ast.In, ast.NotIn)) and x is a and isinstance(v, (list, str)):
                        return "adm" if (op in v) != isinstance(o, ast.NotIn) else "!adm"
                if pos[0] == (1 - self.side,) and isinstance(o, (ast.Eq, ast.NotEq)):
                    ok, v = self.const_of(y, None)
                    if ok and isinstance(v, (int, float)) and not isinstance(v, bool) and v == 0:
                        return "!rz" if isinstance(o, ast.NotEq) else "rz"
            return None

        def m(e: ast.AST) -> Optional[str]:
            k = id(e)
            if k not in memo:
                memo[k] = decide(e)
            return memo[k]

        return m

    # -- evaluation of a constructed tree
    def eval(self, e: ast.AST, val, seen: Set[int], zero_r: bool, depth: int = 0):
        A = self.A
        if depth > 30:
            raise AnalysisError("extract_eliminated_expressions: construction too deep")
        ev = lambda x: self.eval(x, val, seen, zero_r, depth + 1)
        self._cur_val = val
        if isinstance(e, ast.IfExp):
            t = C.eval3(e.test, val)
            if t is None:
                # not a test the analysis can relate to the operator / to `r == 0`: it may go either way in every case, so the
                # replacement has to be right on both branches (the caller enumerates the choices)
                choice = getattr(self, "choice", {})
                if id(e.test) not in choice:
                    raise _NeedChoice(id(e.test), e.test)
                t = choice[id(e.test)]
            return ev(e.body if t else e.orelse)
        if isinstance(e, ast.Call):
            cn = callee_name(e)
            is_tree = cn == TREE_CLASS or (isinstance(e.func, ast.Attribute) and e.func.attr == "__class__") or \
                (isinstance(e.func, ast.Call) and callee_name(e.func) == "type")
            if is_tree and len(e.args) + len(e.keywords) == 1:
                return ev(e.args[0] if e.args else e.keywords[0].value)
            if cn == "AnyNode":
                kw = {k.arg: k.value for k in e.keywords}
                value, ch = kw.get("value"), kw.get("children")
                if value is None:
                    raise AnalysisError(f"extract_eliminated_expressions: node {unparse(e, 60)} has no value")
                ok, v = self.const_of(value, seen)
                if ch is None or (isinstance(ch, ast.Constant) and ch.value is None):
                    if ok and isinstance(v, (int, float)) and not isinstance(v, bool):
                        return A.num(v)
                    raise AnalysisError(f"extract_eliminated_expressions: leaf {unparse(e, 60)} not interpreted")
                kids = self.children(ch, seen)
                if not ok or v not in OPERATORS or kids is None or len(kids) != 2:
                    raise AnalysisError(f"extract_eliminated_expressions: node {unparse(e, 60)} not interpreted")
                a, b = ev(kids[0]), ev(kids[1])
                return {"+": lambda: a + b, "-": lambda: a - b, "*": lambda: a * b, "/": lambda: a / b}[v]()
        if isinstance(e, ast.Attribute) and e.attr == "root" and not self.pos_of(e, (val, seen)):
            return ev(e.value)         # NumericalExpressionTree(<node>).root
        if isinstance(e, ast.Name):
            vals = self.live_values(e, seen)
            if vals:
                res = [ev(v) for v in vals if not (isinstance(v, ast.Constant) and v.value is None)]
                if res and all(x.same(res[0]) for x in res[1:]):
                    return res[0]
                raise AnalysisError(f"extract_eliminated_expressions: {e.id} has several values")
        pos = self.pos_of(e, (val, seen))
        if pos is not None and not pos[1] and pos[0] in self.SYMBOLS:
            sy = self.SYMBOLS[pos[0]]
            return A.num(0) if (sy == "r" and zero_r) else A.sym(sy)
        raise AnalysisError(f"extract_eliminated_expressions: {unparse(e, 60)} is not a recognised part of the equality")

    def children(self, ch: ast.AST, seen: Set[int], depth: int = 0) -> Optional[List[ast.AST]]:
        if depth > 4:
            return None
        if isinstance(ch, (ast.List, ast.Tuple)):
            return list(ch.elts)
        if isinstance(ch, ast.Call) and callee_name(ch) in ("list", "tuple") and len(ch.args) == 1:
            return self.children(ch.args[0], seen, depth + 1)
        if isinstance(ch, ast.Name):
            vals = self.live_values(ch, seen)
            if vals and len(vals) == 1:
                return self.children(vals[0], seen, depth + 1)
        return None

    def results(self, seen: Set[int]) -> List[Tuple[ast.AST, ast.AST, ast.AST]]:
        """(return statement, eliminated, replacement) of the non-None returns reachable under the valuation"""
        out = []
        for n in self.g.nodes():
            st = self.g.stmt[n]
            if self.g.kind[n] != "return" or n not in seen or st.value is None:
                continue
            for v in self.tuple_values(st.value, seen):
                out.append((st, v.elts[0], v.elts[1]))
        return out

    def tuple_values(self, e: ast.AST, seen: Set[int], depth: int = 0) -> List[ast.Tuple]:
        if isinstance(e, ast.Constant) and e.value is None:
            return []
        if isinstance(e, ast.Tuple) and len(e.elts) == 2:
            return [e]
        if isinstance(e, ast.Name) and depth < 5:
            vals = self.live_values(e, seen)
            if vals:
                return [t for v in vals for t in self.tuple_values(v, seen, depth + 1)]
        raise AnalysisError(f"extract_eliminated_expressions: returned value {unparse(e, 60)} is not a pair")


def rule_eliminate(repo: Repo) -> RuleResult:
    """equality-based elimination: from (= (op e1 e2) r) the tree method derives `e1 := R`; for every operator the guard admits,
    op(R, e2) must be identically r (exact rational normal forms over the symbols e1, e2, r)."""
    from .. import absval as A
    r = RuleResult("C13.eliminate", "the expression substituted for e1 from (= (op e1 e2) r) satisfies op(R, e2) == r for every operator the guard admits",
                   "a condition is rewritten only into an equivalent one")
    f = _fn(repo, "NumericalExpressionTree.extract_eliminated_expressions")
    E = _Elim(repo, f)
    apply_op = {"+": lambda a, b: a + b, "-": lambda a, b: a - b, "*": lambda a, b: a * b, "/": lambda a, b: a / b}
    guards = {op: _Guards(repo, f, E.matcher_for(op)) for op in OPERATORS}
    admitted = []
    for op in OPERATORS:
        G = guards[op]
        if any(E.results(G.reach({"adm": True, "rz": z})) for z in (True, False)):
            admitted.append(op)
    r.site(f.qn + " [admitted operators]")
    if not admitted:
        raise AnalysisError("extract_eliminated_expressions: no returned (eliminated, replacement) pair recognised")
    r.ok({"admitted": sorted(admitted), "tested_on_left_operand": "adm" in guards["+"].atoms_seen})
    for op in sorted(admitted):
        G = guards[op]
        for zero in (True, False):
            r.site(f"{f.qn} [op {op!r}, r {'== 0' if zero else 'general'}]")
            valuation = {"adm": True, "rz": zero}
            val, seen = G.under(valuation)
            res = E.results(seen)
            if not res:
                r.ok({"operator": op, "r_is_zero": zero, "result": None})
                continue
            bad = None
            sample = None
            cases = []
            for st, elim_e, rep_e in res:
                for target in _all_choices(E, elim_e, val, seen, False):
                    for R in _all_choices(E, rep_e, val, seen, zero):
                        cases.append((st, target, R))
            for st, target, R in cases:
                rhs = A.num(0) if zero else A.sym("r")
                if target.same(A.sym("e1")):
                    lhs = apply_op[op](R, A.sym("e2"))
                elif target.same(A.sym("e2")):
                    lhs = apply_op[op](A.sym("e1"), R)
                else:
                    r.fail(Finding("C13.eliminate", f, "eliminated-operand", "the eliminated expression is not an operand of the left-hand side", node=st))
                    bad = "operand"
                    break
                if lhs.same(rhs):
                    sample = {"operator": op, "replacement": repr(R), "check": f"({R!r}) {op} e2 == {rhs!r}"}
                else:
                    bad = (R, lhs, rhs, st)
                    break
            if bad == "operand":
                continue
            if bad is None:
                r.ok(sample)
            else:
                R, lhs, rhs, st = bad
                r.fail(Finding("C13.eliminate", f, f"elimination:{op}", f"for (= ({op} e1 e2) r) the method substitutes e1 := {R!r}, but ({R!r}) {op} e2 = {lhs!r}, not {rhs!r}: "
                               f"every inequality rewritten with it changes its meaning", node=st))
    r.require_sites(3)
    return r


class _NeedChoice(Exception):
    def __init__(self, key, test):
        self.key, self.test = key, test


def _all_choices(E, expr, val, seen, zero_r):
    """the values an expression can construct when every branch condition the analysis cannot decide is taken either way"""
    pending, out = [{}], []
    while pending:
        ch = pending.pop()
        E.choice = ch
        try:
            out.append(E.eval(expr, val, seen, zero_r))
        except _NeedChoice as nc:
            if len(ch) >= 4:
                raise AnalysisError(f"extract_eliminated_expressions: too many branch conditions that are not recognised ({unparse(nc.test, 50)})")
            pending.append({**ch, nc.key: True})
            pending.append({**ch, nc.key: False})
        finally:
            E.choice = {}
    return out


def rule_digits(repo: Repo, rid: str = "C13.digits", modules=(NS,), pname: str = "decimal_digits") -> RuleResult:
    """option threading: a printer that is told how many decimals to keep hands that number to every function of the same module it
    calls that also takes it (otherwise nested parts are printed at the callee's default precision)"""
    r = RuleResult(rid, f"every function with a `{pname}` parameter passes it on to the functions of the same module that take one",
                   "up to rounding of coefficients at the REQUESTED number of decimals")
    mods = [repo.module(m) for m in modules]
    for f in repo.all_funcs():
        if f.mod not in mods or pname not in f.params:
            continue
        calls = 0
        for c in L.calls_in(f.node):
            _cat, tg = repo.resolve_call(f, c)
            if any(t is not None and t.mod in mods and pname in t.params for _k, t, _c in tg):
                calls += 1
        if not calls:
            continue
        r.site(f.qn)
        bad = [(c, t, what) for c, t, what in L.unthreaded_options(repo, f, pname) if t.mod in mods]
        if bad:
            c, t, what = bad[0]
            r.fail(Finding(rid, f, f"option-dropped:{pname}", f"{unparse(c, 60)} does not pass `{pname}` on to {t.qn.split('::')[-1]} "
                           f"({'it passes ' + what if what else 'the callee uses its default'}): that part is rounded at another precision", node=c))
        else:
            r.ok({"function": f.qn, "calls_with_option": calls})
    r.require_sites(1)
    return r


_SPEC_FIELD = re.compile(r"\{[^{}]*:[^{}]*(?:\.|\{)[^{}]*(?:\{[^{}]*\}[^{}]*)*\}")
_PERCENT_PREC = re.compile(r"%[-+ #0]*\d*\.(?:\d+|\*)[feEgG]")


def _precision_limited(e: ast.AST) -> List[ast.AST]:
    """operands whose text is cut to a number of decimals by this expression: round(x, d), format(x, '.3f'), '{:.3f}'.format(x),
    f'{x:.3f}', '%.3f' % x"""
    if isinstance(e, ast.Call):
        nm = callee_name(e)
        if nm == "round" and e.args and isinstance(e.func, (ast.Name, ast.Attribute)):
            return [e.args[0]]
        if nm == "format" and isinstance(e.func, ast.Name) and len(e.args) == 2:
            return [e.args[0]]
        if nm == "format" and isinstance(e.func, ast.Attribute) and isinstance(e.func.value, ast.Constant) and isinstance(e.func.value.value, str) \
                and _SPEC_FIELD.search(e.func.value.value):
            return list(e.args) + [k.value for k in e.keywords]
        if nm in ("quantize", "around", "round_") and e.args:
            return [e.args[0]] + ([e.func.value] if isinstance(e.func, ast.Attribute) else [])
    if isinstance(e, ast.FormattedValue) and e.format_spec is not None:
        return [e.value]
    if isinstance(e, ast.BinOp) and isinstance(e.op, ast.Mod) and isinstance(e.left, ast.Constant) and isinstance(e.left.value, str) \
            and _PERCENT_PREC.search(e.left.value):
        return list(e.right.elts) if isinstance(e.right, ast.Tuple) else [e.right]
    return []


def rule_fullprecision(repo: Repo, rid: str = "C13.fullprecision") -> RuleResult:
    """the infix text handed to sympy carries every constant of the expression as it is: rounding belongs to the PRINTING of the
    simplified result (at the requested number of decimals), not to its input -- a coefficient cut to a fixed number of decimals before
    simplification changes the condition (2.99999 becomes 3, 0.00002 drops its whole monomial)"""
    r = RuleResult(rid, "to_mathematical writes the constants of the expression unrounded (no round / precision format on a node value)",
                   "equivalent up to rounding of coefficients at the REQUESTED number of decimals")
    f = _fn(repo, "NumericalExpressionTree.to_mathematical")
    p = L.prov(repo, f)
    r.site(f.qn + " [constants]")
    bad = None
    for e in ast.walk(f.node):
        for x in _precision_limited(e):
            try:
                tr = p.trace(x)
            except KeyError:
                continue
            if any("attr:value" in t and t[0].startswith(("self", "param:")) for t in tr) and L.flows_to_return(f, e):
                bad = e
    if bad is not None:
        r.fail(Finding(rid, f, "constant-rounded", f"{unparse(bad, 70)} cuts a constant of the expression to a fixed number of decimals before the expression is "
                       f"simplified: the simplified condition is no longer equivalent at the requested precision", node=bad))
    else:
        r.ok({"constants": "written as they are"})
    return r


def rule_opmatch(repo: Repo, rid: str = "C13.opmatch") -> RuleResult:
    """the operator that joins the parts of a sympy node is the operator OF THAT NODE: wherever the printer is entered (or re-entered) with
    an expression and an operator, the operator is SYMPY_OP_TO_PDDL_OP[<that expression>.func] -- never the operator of the enclosing node
    (a sum under a reciprocal would be joined with the reciprocal's '^')"""
    r = RuleResult(rid, "every (expression, operator) pair handed to the recursive printer is (X, SYMPY_OP_TO_PDDL_OP[X.func])",
                   "text that uses only binary + - * / and denotes the simplified expression")
    m = repo.module(NS)
    funcs = [f for f in repo.all_funcs() if f.mod is m]
    # the printers: functions of the module with a parameter that is written as the head of a parenthesised text "({operator} ..."
    head_params: Dict[str, Tuple[FuncInfo, str, int]] = {}
    for f in funcs:
        for n in ast.walk(f.node):
            if isinstance(n, ast.JoinedStr):
                for a, b in zip(n.values, n.values[1:]):
                    if isinstance(a, ast.Constant) and isinstance(a.value, str) and a.value.endswith("(") and isinstance(b, ast.FormattedValue) \
                            and isinstance(b.value, ast.Name) and b.value.id in f.params:
                        head_params[f.qn] = (f, b.value.id, f.params.index(b.value.id))
            cand = None
            tmpl = None
            if isinstance(n, ast.Call) and isinstance(n.func, ast.Attribute) and n.func.attr == "format":
                okf, tv = repo.fold(n.func.value, f.mod.name)
                tmpl = tv if okf and isinstance(tv, str) else None
            if tmpl is not None and re.match(r"\s*\(\{\w*\}", tmpl):
                fld = re.match(r"\s*\(\{(\w*)\}", tmpl).group(1)
                cand = n.args[0] if (fld == "" or fld == "0") and n.args else next((k.value for k in n.keywords if k.arg == fld), None)
            elif isinstance(n, ast.BinOp) and isinstance(n.op, ast.Mod) and isinstance(n.left, ast.Constant) and isinstance(n.left.value, str) \
                    and re.match(r"\s*\(%s", n.left.value):
                cand = n.right.elts[0] if isinstance(n.right, ast.Tuple) and n.right.elts else n.right
            elif isinstance(n, ast.BinOp) and isinstance(n.op, ast.Add) and isinstance(n.left, ast.Constant) and n.left.value == "(":
                cand = n.right
            if isinstance(cand, ast.Name) and cand.id in f.params:
                head_params[f.qn] = (f, cand.id, f.params.index(cand.id))
    if not head_params:
        raise AnalysisError("no printer with an operator parameter written as the head of '(op a b)' found in numeric_symbolic_operations")
    # a parameter handed on to a head parameter is a head parameter of the caller (helpers that only nest the parts)
    for _ in range(4):
        grew = False
        for f in funcs:
            if f.qn in head_params:
                continue
            for c in L.calls_in(f.node):
                _cat, tg = repo.resolve_call(f, c)
                for _k, t, _c in tg:
                    if t is None or t.qn not in head_params:
                        continue
                    a_ = L.arg_of(c, head_params[t.qn][0], head_params[t.qn][1])
                    if isinstance(a_, ast.Name) and a_.id in f.params and f.qn not in head_params:
                        head_params[f.qn] = (f, a_.id, f.params.index(a_.id))
                        grew = True
        if not grew:
            break

    def expr_param(tf: FuncInfo) -> Optional[str]:
        """the parameter that is the sympy node: .args / .func / .is_Atom / .base / .exp are read from it"""
        for n in ast.walk(tf.node):
            if isinstance(n, ast.Attribute) and n.attr in ("args", "func", "is_Atom", "base", "exp") and isinstance(n.value, ast.Name) and n.value.id in tf.params:
                return n.value.id
        return None

    n_sites = 0
    for f in funcs:
        p = L.prov(repo, f)
        for c in L.calls_in(f.node):
            _cat, tg = repo.resolve_call(f, c)
            for _k, t, _c in tg:
                if t is None or t.qn not in head_params:
                    continue
                tf, pname, _i = head_params[t.qn]
                ep = expr_param(tf)
                op = L.arg_of(c, tf, pname)
                ex = L.arg_of(c, tf, ep) if ep is not None and ep != pname else None
                if op is None or ex is None:
                    continue
                n_sites += 1
                r.site(L.site(f, c, "printer call"))
                tr = p.trace(op, keys=True)
                ex_paths = {x for x in p.trace(ex)}
                table = any(x[0] == "global:SYMPY_OP_TO_PDDL_OP" for x in tr)
                keys = {x[:x.index("attr:func")] for x in tr if "askey" in x and "attr:func" in x and x[-1] == "askey" and x[-2] == "attr:func"}
                if table and keys and (keys & ex_paths):
                    r.ok({"call": unparse(c, 70), "operator": "SYMPY_OP_TO_PDDL_OP[<expression>.func]"})
                else:
                    what = "the operator parameter of the enclosing call" if any(x[0].startswith("param:") and len(x) == 1 for x in tr) else f"{sorted(tr)[:2]}"
                    r.fail(Finding(rid, f, "operator-of-other-node", f"{unparse(c, 70)}: the operator handed over for {unparse(ex, 30)} is {what}, not "
                                   f"SYMPY_OP_TO_PDDL_OP[{unparse(ex, 30)}.func]: the parts of that node are joined with another node's operator", node=c))
    if n_sites < 2:
        raise AnalysisError(f"calls of the recursive printer with an (expression, operator) pair: {n_sites} found, at least 2 expected")
    return r


def rules(repo: Repo, tier: str) -> List[RuleResult]:
    env = c12.rule_env(repo)
    env.rule = "C13.env"
    for fd in env.findings:
        fd.rule = "C13.env"
    return [rule_vocab(repo), rule_mangle(repo), rule_round(repo), rule_atoms(repo), rule_sides(repo), rule_eliminate(repo), rule_digits(repo), env, rule_fullprecision(repo), rule_opmatch(repo)]
