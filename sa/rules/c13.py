"""C13 -- simplified numeric conditions are valid PDDL and mean the same as the originals (thin claim)."""
from __future__ import annotations

import ast
import warnings
from typing import List

with warnings.catch_warnings():
    warnings.simplefilter("ignore")
    import re._parser as sre_parse  # type: ignore
    import re._constants as sre_c  # type: ignore

from .. import cfg as C
from .. import lib as L
from ..core import AnalysisError, Repo, unparse
from ..prov import callee_name
from ..report import Finding, RuleResult
from . import c12

NS = "models.numeric_symbolic_operations"

EXPLANATION = (
    "Thin claim: equivalence of sympy-simplified text for all valuations is out of reach of a static argument; only necessary "
    "conditions are decided. C13.vocab: every operator string of SYMPY_OP_TO_PDDL_OP is one of + - * / (or a numeral / empty for "
    "atoms). C13.mangle: the fluent -> symbol naming must be injective: a name obtained by deleting characters that occur inside or "
    "between PDDL names ('-', whitespace) is not (regex AST of the re.sub pattern). C13.round: a branch taken because "
    "round(x, d).is_integer() must print int(round(x, d)), not int(x) (truncation). C13.atoms: the exact-class dispatch of "
    "extract_atom covers the number classes sympy can return (Float, Integer, Zero, One, NegativeOne, Rational, Half). C13.sides: "
    "the simplified (in)equality keeps its operator and does not swap its sides. C13.env: the precision setting is a number."
)
UNDECIDED = ("validity and equivalence of the simplified text; that a condition is omitted only if implied; zero-coefficient dropping "
             "inside products; everything that depends on what sympy returns for a given expression")


def rule_vocab(repo: Repo) -> RuleResult:
    r = RuleResult("C13.vocab", "operators emitted for sympy nodes are binary + - * / only", "text that uses only binary + - * /")
    tab = L.table(repo, NS, "SYMPY_OP_TO_PDDL_OP")
    m = repo.module(NS)
    for k, v in tab.items():
        r.site(f"{NS}.SYMPY_OP_TO_PDDL_OP[{k}]")
        ok, val = repo.fold(v, m.name)
        if not ok or not isinstance(val, str):
            raise AnalysisError(f"SYMPY_OP_TO_PDDL_OP[{k}] is not a string constant")
        numeral = val.lstrip("-").isdigit()
        if val in ("", "+", "-", "*", "/") or numeral:
            r.ok({"key": str(k), "emits": val})
        else:
            r.fail(Finding("C13.vocab", (m.short, "SYMPY_OP_TO_PDDL_OP", str(m.path)), f"table-value:{k}", f"sympy {k} is printed with the operator {val!r}, "
                           f"which is not PDDL (only + - * / are)", node=v))
    r.require_sites(5)
    return r


def rule_mangle(repo: Repo) -> RuleResult:
    r = RuleResult("C13.mangle", "the fluent -> sympy symbol name is injective (no deletion of characters that distinguish PDDL names)",
                   "distinct fluents stay distinct through simplification")
    f = repo.func(f"{NS}::transform_expression")
    r.site(f.qn)
    subs = [c for c in L.calls_in(f.node) if ast.unparse(c.func) in ("re.sub", "sub") and len(c.args) >= 3]
    syms = [c for c in L.calls_in(f.node) if callee_name(c) in ("symbols", "Symbol")]
    if not syms:
        raise AnalysisError("transform_expression: symbol construction not recognised")
    deleted = set()
    for c in subs:
        if isinstance(c.args[0], ast.Constant) and isinstance(c.args[1], ast.Constant) and c.args[1].value == "":
            with warnings.catch_warnings():
                warnings.simplefilter("ignore")
                tree = sre_parse.parse(c.args[0].value)
            for op, av in tree:
                items = av if op == sre_c.IN else [(op, av)]
                for o, a in items:
                    if o == sre_c.LITERAL:
                        deleted.add(chr(a))
                    elif o == sre_c.CATEGORY and a == sre_c.CATEGORY_SPACE:
                        deleted.add("<whitespace>")
    harmful = sorted(deleted & {"-", "_", "<whitespace>", " "})
    if harmful:
        r.fail(Finding("C13.mangle", f, "symbol-name:deletes:" + "/".join(harmful), f"the symbol name is the fluent text with {sorted(deleted)} deleted; deleting {harmful} "
                       f"merges different fluents: (dist a bc) and (dist ab c) become the same symbol"))
    else:
        r.ok({"deleted_characters": sorted(deleted)})
    r.require_sites(1)
    return r


def rule_round(repo: Repo, rid: str = "C13.round", specs=None) -> RuleResult:
    r = RuleResult(rid, "where a value is printed as an integer because round(x, d).is_integer(), the printed integer is int(round(x, d))",
                   "up to rounding of coefficients at the requested number of decimals")
    specs = specs or [f"{NS}::extract_atom"]
    for spec in specs:
        _round_in(repo, r, rid, repo.func(spec), must_have=(spec.endswith("extract_atom")))
    r.require_sites(1)
    return r


def _round_in(repo: Repo, r: RuleResult, rid: str, f, must_have: bool) -> None:
    found = False
    for n in ast.walk(f.node):
        if isinstance(n, ast.IfExp):
            test_src = ast.unparse(n.test)
            if "round(" in test_src and "is_integer" in test_src:
                found = True
                r.site(L.site(f, n, "integer branch"))
                neg = isinstance(n.test, ast.UnaryOp) and isinstance(n.test.op, ast.Not)
                int_branch = n.orelse if neg else n.body
                ints = [c for c in L.calls_in(int_branch) if callee_name(c) == "int"]
                ok = bool(ints) and all(any(callee_name(x) == "round" for x in L.calls_in(c)) for c in ints)
                if ok:
                    r.ok({"integer_branch": unparse(int_branch, 60)})
                else:
                    r.fail(Finding(rid, f, "truncation-under-round-guard", f"the branch taken when round(x, d) is an integer prints {unparse(int_branch, 50)}: "
                                   f"int() truncates, so 2.99999 at 2 digits is printed as 2", node=n))
            elif "is_integer" in test_src:
                found = True
                r.site(L.site(f, n, "integer branch"))
                r.ok({"integer_test": unparse(n.test, 60), "exact": True})
    if not found and must_have:
        raise AnalysisError(f"{f.qn}: rounding guard not recognised")
    if not found:
        r.site(f.qn + " [no integer shortcut]")
        r.ok({"function": f.qn, "integer_shortcut": None})


def rule_atoms(repo: Repo) -> RuleResult:
    r = RuleResult("C13.atoms", "extract_atom handles every sympy number class the simplifier can return", "text that the library's own reader accepts (no crash on x/2)")
    f = repo.func(f"{NS}::extract_atom")
    handled = set()
    for n in ast.walk(f.node):
        if isinstance(n, ast.Compare) and len(n.ops) == 1 and isinstance(n.ops[0], ast.Eq) and ast.unparse(n.left).endswith(".func") and \
                isinstance(n.comparators[0], ast.Name):
            handled.add(n.comparators[0].id)
        if isinstance(n, ast.Call) and callee_name(n) == "isinstance" and len(n.args) == 2:
            c = n.args[1]
            handled |= {x.id for x in ([c] if isinstance(c, ast.Name) else getattr(c, "elts", [])) if isinstance(x, ast.Name)}
    tab = set(map(str, L.table(repo, NS, "SYMPY_OP_TO_PDDL_OP").keys()))
    for cls in ("Float", "Integer", "Zero", "One", "NegativeOne", "Symbol", "Rational", "Half"):
        r.site(f"{f.qn} [{cls}]")
        if cls in handled and cls in tab:
            r.ok({"class": cls})
        else:
            where = [w for w, ok in (("extract_atom", cls in handled), ("SYMPY_OP_TO_PDDL_OP", cls in tab)) if not ok]
            r.fail(Finding("C13.atoms", f, f"atom-class:{cls}", f"sympy {cls} is not handled by {where}: an expression such as x/2 raises KeyError / ValueError"))
    r.require_sites(8)
    return r


def rule_sides(repo: Repo) -> RuleResult:
    r = RuleResult("C13.sides", "the simplified (in)equality keeps its operator and the left / right sides", "means the same as the original")
    f = repo.func(f"{NS}::simplify_inequality")
    p = L.prov(repo, f)
    r.site(f.qn)
    ok = False
    for ret in L.func_returns(f):
        if isinstance(ret.value, ast.JoinedStr):
            fv = [v for v in ret.value.values if isinstance(v, ast.FormattedValue)]
            if len(fv) == 3:
                t0, t1, t2 = (p.trace(v.value) for v in fv)
                def side(paths, k):
                    want = ("call:split", f"unpack:{k}", "arg0:transform_expression", "unpack:0")
                    for x in paths:
                        if x[0] == "param:complex_numeric_expression" and "arg0:convert_expr_to_pddl" in x:
                            for i in range(len(x) - len(want) + 1):
                                if x[i:i + len(want)] == want:
                                    return True
                    return False
                ok = all(x == ("param:inequality_operator",) for x in t0) and side(t1, 0) and not side(t1, 1) and side(t2, 1) and not side(t2, 0)
                lits = "".join(v.value for v in ret.value.values if isinstance(v, ast.Constant))
                ok = ok and lits.strip().startswith("(") and lits.strip().endswith(")")
    if ok:
        r.ok({"returns": "(op simplified(left) simplified(right))"})
    else:
        r.fail(Finding("C13.sides", f, "inequality-shape", "simplify_inequality does not return '(' op left right ')' with the sides in their original order"))
    g = repo.func(f"{NS}::simplify_equality")
    pg = L.prov(repo, g)
    r.site(g.qn)
    ok = False
    for ret in L.func_returns(g):
        if isinstance(ret.value, ast.JoinedStr):
            fv = [v for v in ret.value.values if isinstance(v, ast.FormattedValue)]
            lits = "".join(v.value for v in ret.value.values if isinstance(v, ast.Constant))
            if len(fv) == 2 and lits.strip().startswith("(=") and lits.strip().endswith(")"):
                t1, t2 = pg.trace(fv[0].value), pg.trace(fv[1].value)
                ok = any("attr:lhs" in x for x in t1) and any("attr:rhs" in x for x in t2)
    if ok:
        r.ok({"returns": "(= simplified.lhs simplified.rhs)"})
    else:
        r.fail(Finding("C13.sides", g, "equality-shape", "simplify_equality does not return '(= lhs rhs)'"))
    # the tree method keeps its own operator and the right-hand side
    h = repo.func("NumericalExpressionTree.simplify_complex_numerical_pddl_expression")
    ph = L.prov(repo, h)
    r.site(h.qn)
    ok = False
    for ret in L.func_returns(h):
        if isinstance(ret.value, ast.JoinedStr):
            fv = [v for v in ret.value.values if isinstance(v, ast.FormattedValue)]
            if len(fv) == 3:
                t0, t1, t2 = (ph.trace(v.value) for v in fv)
                ok = any(x == ("self", "attr:root", "attr:value") for x in t0) and any("item:0" in x for x in t1) and any("item:1" in x for x in t2)
    if ok:
        r.ok({"returns": "(root.value simplified(child 0) pddl(child 1))"})
    else:
        r.fail(Finding("C13.sides", h, "tree-shape", "the simplified tree text does not keep (operator, child 0, child 1)"))
    r.require_sites(3)
    return r


def rule_eliminate(repo: Repo) -> RuleResult:
    """equality-based elimination: from (= (op e1 e2) r) the tree method derives `e1 := R`; for every operator the guard admits,
    op(R, e2) must be identically r (exact rational normal forms over the symbols e1, e2, r)."""
    from .. import absval as A
    r = RuleResult("C13.eliminate", "the expression substituted for e1 from (= (op e1 e2) r) satisfies op(R, e2) == r for every operator the guard admits",
                   "a condition is rewritten only into an equivalent one")
    f = repo.func("NumericalExpressionTree.extract_eliminated_expressions")
    p = L.prov(repo, f)
    # symbols of local names by their position in the copied tree
    def symbol_of(name_node) -> str:
        for x in p.trace(name_node):
            steps = [s for s in x if s.startswith(("attr:children", "item:"))]
            idx = [s[5:] for s in steps if s.startswith("item:")]
            if idx == ["0", "0"]:
                return "e1"
            if idx == ["0", "1"]:
                return "e2"
            if idx == ["1"]:
                return "r"
            if idx == ["0"]:
                return "left"
        raise AnalysisError(f"extract_eliminated_expressions: {unparse(name_node)} is not a recognised part of the equality")

    def eval_node(e, zero_r: bool):
        if isinstance(e, ast.Name):
            sy = symbol_of(e)
            if sy == "r" and zero_r:
                return A.num(0)
            return A.sym(sy)
        if isinstance(e, ast.Call) and callee_name(e) == "NumericalExpressionTree" and e.args:
            return eval_node(e.args[0], zero_r)
        if isinstance(e, ast.Call) and callee_name(e) == "AnyNode":
            kw = {k.arg: k.value for k in e.keywords}
            val, ch = kw.get("value"), kw.get("children")
            if ch is None:
                if isinstance(val, ast.Constant) and isinstance(val.value, (int, float)):
                    return A.num(val.value)
                if isinstance(val, ast.UnaryOp) and isinstance(val.op, ast.USub) and isinstance(val.operand, ast.Constant):
                    return A.num(-val.operand.value)
                raise AnalysisError(f"extract_eliminated_expressions: leaf {unparse(e)} not interpreted")
            if not (isinstance(ch, ast.List) and len(ch.elts) == 2 and isinstance(val, ast.Constant)):
                raise AnalysisError(f"extract_eliminated_expressions: node {unparse(e, 60)} not interpreted")
            a, b = eval_node(ch.elts[0], zero_r), eval_node(ch.elts[1], zero_r)
            return {"+": a + b, "-": a - b, "*": a * b, "/": a / b if val.value == "/" else a}[val.value] if val.value in "+-*/" else None
        raise AnalysisError(f"extract_eliminated_expressions: {unparse(e, 60)} not interpreted")

    # operators admitted for the left operand
    admitted = None
    for n in ast.walk(f.node):
        if isinstance(n, ast.If) and any(isinstance(s_, ast.Return) and (s_.value is None or (isinstance(s_.value, ast.Constant) and s_.value.value is None)) for s_ in n.body):
            t = n.test
            if isinstance(t, ast.Compare) and len(t.ops) == 1 and isinstance(t.left, ast.Attribute) and t.left.attr == "value" and isinstance(t.left.value, ast.Name):
                try:
                    which = symbol_of(t.left.value)
                except AnalysisError:
                    continue
                if which != "left":
                    continue
                c = t.comparators[0]
                if isinstance(t.ops[0], ast.NotEq) and isinstance(c, ast.Constant):
                    admitted = {c.value}
                elif isinstance(t.ops[0], ast.NotIn) and isinstance(c, (ast.Tuple, ast.List, ast.Set)):
                    admitted = {x.value for x in c.elts if isinstance(x, ast.Constant)}
    r.site(f.qn + " [admitted operators]")
    if not admitted:
        raise AnalysisError("extract_eliminated_expressions: guard on the left operand's operator not recognised")
    r.ok({"admitted": sorted(admitted)})
    # the replacement expression
    repl = None
    rets = [x for x in L.func_returns(f) if isinstance(x.value, ast.Tuple) and len(x.value.elts) == 2]
    if not rets:
        raise AnalysisError("extract_eliminated_expressions: result tuple not found")
    elim, rep = rets[0].value.elts
    def resolve(e):
        if isinstance(e, ast.Name):
            defs = [n for n in ast.walk(f.node) if isinstance(n, ast.Assign) and any(isinstance(t, ast.Name) and t.id == e.id for t in n.targets)]
            if len(defs) == 1:
                return defs[0].value
        return e
    elim_e, rep_e = resolve(elim), resolve(rep)
    if eval_node(elim_e, False).same(A.sym("e1")) is False:
        r.fail(Finding("C13.eliminate", f, "eliminated-operand", "the eliminated expression is not the first operand of the left-hand side"))
    alts = [(rep_e, None)]
    if isinstance(rep_e, ast.IfExp):
        zero_test = "== 0" in ast.unparse(rep_e.test) and symbol_of(rep_e.test.left.value if isinstance(rep_e.test.left, ast.Attribute) else rep_e.test.left) == "r"
        if not zero_test:
            raise AnalysisError("extract_eliminated_expressions: branch condition of the replacement not recognised")
        alts = [(rep_e.body, True), (rep_e.orelse, False)]
    ops = {"+": lambda a, b: a + b, "-": lambda a, b: a - b, "*": lambda a, b: a * b}
    for op in sorted(admitted):
        for alt, zero in alts:
            r.site(f"{f.qn} [op {op!r}, r {'== 0' if zero else 'general'}]")
            if op not in ops:
                r.fail(Finding("C13.eliminate", f, f"elimination:{op}", f"operator {op!r} is admitted but no elimination rule is known for it"))
                continue
            R = eval_node(alt, bool(zero))
            lhs = ops[op](R, A.sym("e2"))
            rhs = A.num(0) if zero else A.sym("r")
            if lhs.same(rhs):
                r.ok({"operator": op, "replacement": repr(R), "check": f"({R!r}) {op} e2 == {rhs!r}"})
            else:
                r.fail(Finding("C13.eliminate", f, f"elimination:{op}", f"for (= ({op} e1 e2) r) the method substitutes e1 := {R!r}, but ({R!r}) {op} e2 = {lhs!r}, not {rhs!r}: "
                               f"every inequality rewritten with it changes its meaning"))
    r.require_sites(3)
    return r


def rules(repo: Repo, tier: str) -> List[RuleResult]:
    env = c12.rule_env(repo)
    env.rule = "C13.env"
    for fd in env.findings:
        fd.rule = "C13.env"
    return [rule_vocab(repo), rule_mangle(repo), rule_round(repo), rule_atoms(repo), rule_sides(repo), rule_eliminate(repo), env]
