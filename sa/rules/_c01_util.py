"""C01 helpers: guard valuation of a parsed-list handler per INPUT CLASS (purely static: nothing of the library is executed or interpreted).

A handler of the domain parser (the loop of PreconditionsParser.parse / EffectsParser.parse, construct_expression_tree, ...) receives a
nested list.  A *scenario* names a finite input class of such lists -- the token at some positions, the length at some positions, whether
a position holds a list, whether the head is a declared predicate.  The only thing a scenario does is to fix the truth value of GUARD ATOMS:
every test of the flattened function that compares a position of the node with constants (`node[0] == "not"`, `len(node[1]) != 3`,
`head in TABLE`, `isinstance(node[1], list)`) gets the value it has for every member of the class (`L.Guards` valuation); every other
test stays open.  What is then asked are CFG / dataflow questions under that valuation: which nodes are reachable (`G.reach`), whether every
path passes a sink (`avoid=`), what flows into the sink (`L.prov(..).trace(e, under=..)`).  No statement is run, no value is computed.
Positions are found by provenance, never by local names:  ('param:ast', 'elem', 'slice:1:', 'item:0', 'item:2')  is position (1, 2) of the
loop element, whatever helpers / aliases / unpackings the value went through.

Local engine features (candidates for promotion to sa/lib.py): position normalisation of provenance paths (`norm_pos`), valuation of
position tests by input class (`NodeModel`), one turn of a loop / a whole function as a region with must-pass queries (`Region`), flows into
callee parameters by NAME (`named_steps`: 'arg1:parse' -> 'parse.preconditions_ast'), `x is None` / `kind == "c"` over locals that hold a
handler / a constant picked by decided tests (`none_tests`, `const_tests`: abstract evaluation of static tables and conditional expressions
of constants).
"""
from __future__ import annotations

import ast
from typing import Dict, Iterable, List, Optional, Sequence, Set, Tuple

from .. import cfg as C
from .. import lib as L
from ..core import AnalysisError, FuncInfo, Repo, is_logging_call, unparse
from ..prov import callee_name

Pos = Tuple[object, ...]          # ints (index) / 'k:' (slice from k) / '*' (some element) ; () is the node itself

READERS = {"get", "items", "keys", "values", "copy", "index", "count", "startswith", "endswith", "lower", "upper", "strip", "format",
           "join", "split", "debug", "info", "warning", "error", "isdisjoint", "issubset", "issuperset", "union", "intersection", "difference"}
ADDERS = {"add", "append", "update", "extend", "add_condition", "insert", "appendleft", "|="}
REMOVERS = {"discard", "remove", "pop", "clear", "difference_update", "intersection_update", "-=", "&="}
TRANSPARENT = {"call:lower", "call:strip", "call:upper"}
UNKNOWN_TOKEN = "\0other"       # a head that is none of the keywords any test mentions


# --------------------------------------------------------------------------- positions
def norm_pos(steps: Sequence[str]) -> Tuple[Pos, Tuple[str, ...]]:
    """leading positional steps of a provenance path -> (position, remaining steps).  'slice:1:' + 'item:0' is position 1,
    'slice:1:' + 'slice:1:' is '2:', 'unpack:k' is 'item:k', 'elem' of a slice is '*'."""
    pos: List[object] = []
    i = 0
    for i, st in enumerate(steps):
        k: object = None
        if st.startswith(("item:", "unpack:")):
            v = st.split(":", 1)[1]
            if v.lstrip("-").isdigit():
                k = int(v)
        elif st.startswith("slice:"):
            lo, hi = st[6:].split(":", 1) if ":" in st[6:] else (st[6:], "")
            lo = lo.replace(" ", "")
            if hi == "" and (lo == "" or lo.isdigit()):
                k = f"{int(lo or 0)}:"
            elif hi == "" and "+" in lo and all(x.isdigit() for x in lo.split("+")):
                k = f"{sum(int(x) for x in lo.split('+'))}:"      # X[1 + 1:] as the mutation tools print it
        elif st == "elem":
            k = "*"
        if k is None:
            return tuple(pos), tuple(steps[i:])
        if pos and isinstance(pos[-1], str) and pos[-1].endswith(":"):
            base = int(pos[-1][:-1])
            if isinstance(k, int) and k >= 0:
                pos[-1] = base + k
                continue
            if isinstance(k, str) and k.endswith(":"):
                pos[-1] = f"{base + int(k[:-1])}:"
                continue
            if k == "*" and base == 0:
                pos[-1] = "*"
                continue
        if isinstance(k, str) and k == "0:":
            continue        # X[0:] / X[:] is X
        pos.append(k)
    return tuple(pos), ()


def named_steps(repo: Repo, steps: Sequence[str]) -> Tuple[str, ...]:
    """'arg1:parse' / 'kw:preconditions_ast:parse' -> 'parse.preconditions_ast' (parameter NAME of the repository callee / constructor);
    content flows into local containers lose the local name ('in:append@xs' -> 'in:append')"""
    out = []
    for st in steps:
        if st.startswith("in:") and "@" in st:
            st = st.split("@", 1)[0]
        if st.startswith("kw:"):
            _k, nm, cn = st.split(":", 2)
            out.append(f"{cn}.{nm}")
            continue
        if st.startswith("arg") and ":" in st and st[3:st.index(":")].isdigit():
            i, cn = int(st[3:st.index(":")]), st.split(":", 1)[1]
            params = _callee_params(repo, cn)
            if params is not None and i < len(params):
                out.append(f"{cn}.{params[i]}")
                continue
        out.append(st)
    return tuple(out)


def _callee_params(repo: Repo, cn: str) -> Optional[List[str]]:
    cache = repo.__dict__.setdefault("_c01_callee_params", {})
    if cn not in cache:
        params = None
        if cn in repo.classes:
            init = repo.find_method(cn, "__init__")
            if init is not None:
                params = list(init.params[1:])
        else:
            cands = [f for f in repo.all_funcs() if f.name == cn]
            sigs = {tuple(f.params[1:] if f.is_method else f.params) for f in cands}
            if len(sigs) == 1:
                params = list(sigs.pop())
        cache[cn] = params
    return cache[cn]


# --------------------------------------------------------------------------- scenarios
class Scenario:
    """an input class of nodes: tok = {position: token}, length = {position: len}, is_list = {position: bool}, declared = the head is a
    declared predicate name (None: not said).  It decides guard atoms only.  `expect` is read by the rules."""

    def __init__(self, name: str, tok: Optional[Dict[Pos, str]] = None, length: Optional[Dict[Pos, int]] = None,
                 is_list: Optional[Dict[Pos, bool]] = None, declared: Optional[bool] = False, flat: Optional[Dict[Pos, bool]] = None, **expect):
        self.name = name
        self.tok = dict(tok or {})
        self.length = dict(length or {})
        self.is_list = dict(is_list or {})
        self.flat = dict(flat or {})         # every element of the list at the position is a token (no nested list)
        self.declared = declared
        self.expect = expect


class NodeModel:
    """tests of one flattened function classified by the node position they look at"""

    def __init__(self, repo: Repo, f: FuncInfo, bases: Iterable[Tuple[str, ...]], const_mods: Iterable[str] = ()):
        self.repo, self.f = repo, f
        self.p = L.prov(repo, f)
        self.bases = sorted(set(bases), key=len, reverse=True)
        self.const_mods = [f.mod.name] + [m for m in const_mods if m != f.mod.name]
        self._cls: Dict[int, object] = {}
        self.g0 = C.cfg_of(f.node)
        self.tests: Dict[int, tuple] = {}
        C.pin(f.node)
        for n in ast.walk(f.node):
            d = self._test_of(n)
            if d is not None:
                self.tests[id(n)] = d
        # a (part of the) node used as a truth value: `if not node:` / `if rest and ..`
        for n in ast.walk(f.node):
            cands = []
            if isinstance(n, (ast.If, ast.While, ast.IfExp, ast.Assert)):
                cands.append(n.test)
            elif isinstance(n, ast.BoolOp):
                cands += n.values
            elif isinstance(n, ast.UnaryOp) and isinstance(n.op, ast.Not):
                cands.append(n.operand)
            elif isinstance(n, ast.comprehension):
                cands += n.ifs
            for e in cands:
                if isinstance(e, (ast.Name, ast.Subscript)) and id(e) not in self.tests:
                    a = self.classify(e)
                    if a is not None and a[0] == "tok":
                        self.tests[id(e)] = ("truthy", a)
        self._none_tests: Dict[int, Tuple[ast.Compare, int]] = {}
        g0 = C.cfg_of(f.node)
        for n in ast.walk(f.node):
            if isinstance(n, ast.Compare) and len(n.ops) == 1 and isinstance(n.ops[0], (ast.Is, ast.IsNot)) and isinstance(n.left, ast.Name) \
                    and isinstance(n.comparators[0], ast.Constant) and n.comparators[0].value is None:
                at = g0.node_containing(n)
                if at is not None:
                    self._none_tests[id(n)] = (n, at)
        self._const_tests: Dict[int, Tuple[ast.Compare, int]] = {}
        rd0 = L.rd_of(f)
        for n in ast.walk(f.node):
            if isinstance(n, ast.Compare) and len(n.ops) == 1 and isinstance(n.ops[0], (ast.Eq, ast.NotEq)) and isinstance(n.left, ast.Name) \
                    and isinstance(n.comparators[0], ast.Constant) and not isinstance(n.comparators[0].value, bool) and n.comparators[0].value is not None \
                    and id(n) not in self.tests:
                at = g0.node_containing(n)
                if at is not None and rd0.defs_reaching(at, n.left.id):
                    self._const_tests[id(n)] = (n, at)
        self.G = L.Guards(f, lambda e: f"k{id(e)}" if id(e) in self.tests else f"n{id(e)}" if id(e) in self._none_tests
                          else f"c{id(e)}" if id(e) in self._const_tests else None)
        self.g = self.G.g

    # -- classification of expressions
    def rel(self, path: Tuple[str, ...]) -> Optional[Tuple[Pos, Tuple[str, ...]]]:
        """(position relative to the node, remaining steps) of a provenance path, None when the path does not start at the node"""
        for b in self.bases:
            if path[:len(b)] == b:
                return norm_pos(path[len(b):])
        return None

    def consts_of(self, e: ast.AST) -> Optional[List[object]]:
        if isinstance(e, ast.Constant) and isinstance(e.value, (str, int)) and not isinstance(e.value, bool):
            return [e.value]
        if isinstance(e, (ast.Tuple, ast.List, ast.Set)):
            out: List[object] = []
            for x in e.elts:
                c = self.consts_of(x)
                if c is None:
                    return None
                out += c
            return out
        if isinstance(e, ast.Dict) and e.keys and all(k is not None for k in e.keys):
            out = []
            for k in e.keys:        # `tok in TABLE`: the keys
                c = self.consts_of(k)
                if c is None or len(c) != 1:
                    return None
                out += c
            return out
        if isinstance(e, ast.Name):
            n = self.g_node(e)
            ds = L.rd_of(self.f).defs_reaching(n, e.id) if n is not None else set()
            if ds:
                # a local bound (once) to a display of constants: a table written inside the function
                if len(ds) == 1:
                    st = self.g0.stmt[next(iter(ds))]
                    if isinstance(st, (ast.Assign, ast.AnnAssign)) and st.value is not None and isinstance(st.value, (ast.Dict, ast.List, ast.Tuple, ast.Set)) \
                            and (isinstance(st, ast.AnnAssign) or (len(st.targets) == 1 and isinstance(st.targets[0], ast.Name))):
                        return self.consts_of(st.value)
                return None         # a local
            for m in self.const_mods:
                ok, v = self.repo.const_value(m, e.id)
                if ok and isinstance(v, (str, int)) and not isinstance(v, bool):
                    return [v]
                if ok and isinstance(v, (list, tuple, set, frozenset)) and all(isinstance(x, (str, int)) for x in v):
                    return list(v)
        return None

    def g_node(self, e: ast.AST) -> Optional[int]:
        try:
            return self.p.node_of(e)
        except KeyError:
            return None

    def classify(self, e: ast.AST):
        """('tok', pos) | ('len', pos, offset) | ('const', values) | ('mapping',) | None"""
        k = id(e)
        if k not in self._cls:
            self._cls[k] = self._classify(e)
        return self._cls[k]

    def _classify(self, e: ast.AST):
        cs = self.consts_of(e)
        if cs is not None:
            return ("const", cs)
        if isinstance(e, ast.Constant):
            return None
        try:
            tr = self.p.trace(e)
        except (KeyError, RecursionError):
            return None
        if not tr:
            return None
        kinds = set()
        for x in tr:
            r = self.rel(x)
            if r is None:
                if x[0].startswith("param:") and not any(x[:len(b)] == b[:len(x)] for b in self.bases) and all(
                        s.startswith(("attr:", "kw:", "arg")) or s in ("elem",) for s in x[1:]):
                    kinds.add(("mapping",))
                    continue
                if x[0].startswith("fresh:") and len(x) == 1:
                    continue        # the shell of a record / display the value went through
                return None
            pos, rest = r
            rest = tuple(s for s in rest if s not in TRANSPARENT)
            if not rest:
                kinds.add(("tok", pos))
            elif rest == ("arg0:len",):
                off = 0
                if pos and isinstance(pos[-1], str) and pos[-1].endswith(":"):
                    off, pos = int(pos[-1][:-1]), pos[:-1]
                kinds.add(("len", pos, off))
            else:
                return None
        return kinds.pop() if len(kinds) == 1 else None

    def _test_of(self, n: ast.AST):
        if isinstance(n, ast.Compare) and len(n.ops) == 1:
            a, b, op = self.classify(n.left), self.classify(n.comparators[0]), n.ops[0]
            if a is None or b is None:
                return None
            if isinstance(op, (ast.Eq, ast.NotEq)):
                if a[0] == "const" and b[0] in ("tok", "len"):
                    a, b = b, a
                if a[0] in ("tok", "len") and b[0] == "const" and len(b[1]) == 1:
                    return ("cmp", a, "==" if isinstance(op, ast.Eq) else "!=", b[1][0])
            elif isinstance(op, (ast.In, ast.NotIn)):
                if a[0] == "tok" and b[0] == "const":
                    return ("in", a, isinstance(op, ast.In), list(b[1]))
                if a[0] == "tok" and b[0] == "mapping":
                    return ("declared", a, isinstance(op, ast.In))
            elif isinstance(op, (ast.Lt, ast.LtE, ast.Gt, ast.GtE)):
                flip = {ast.Lt: ast.Gt, ast.Gt: ast.Lt, ast.LtE: ast.GtE, ast.GtE: ast.LtE}
                opn = type(op)
                if a[0] == "const" and b[0] == "len":
                    a, b, opn = b, a, flip[opn]
                if a[0] == "len" and b[0] == "const" and len(b[1]) == 1 and isinstance(b[1][0], int):
                    return ("cmp", a, {ast.Lt: "<", ast.LtE: "<=", ast.Gt: ">", ast.GtE: ">="}[opn], b[1][0])
        if isinstance(n, ast.Call) and isinstance(n.func, ast.Name) and n.func.id in ("all", "any") and len(n.args) == 1 and not n.keywords \
                and isinstance(n.args[0], (ast.ListComp, ast.GeneratorExp)) and len(n.args[0].generators) == 1 and not n.args[0].generators[0].ifs:
            # all(isinstance(x, str) for x in NODE) / any(isinstance(x, list) for x in NODE)
            comp = n.args[0]
            gen = comp.generators[0]
            elt = comp.elt
            neg = False
            if isinstance(elt, ast.UnaryOp) and isinstance(elt.op, ast.Not):
                elt, neg = elt.operand, True
            if isinstance(elt, ast.Call) and isinstance(elt.func, ast.Name) and elt.func.id == "isinstance" and len(elt.args) == 2 \
                    and isinstance(elt.args[0], ast.Name) and isinstance(gen.target, ast.Name) and elt.args[0].id == gen.target.id:
                t = elt.args[1]
                names = {x.id if isinstance(x, ast.Name) else getattr(x, "attr", "") for x in (t.elts if isinstance(t, ast.Tuple) else [t])}
                a = self.classify(gen.iter)
                if a is not None and a[0] == "tok":
                    is_str = True if names <= {"str"} else False if names <= {"list", "List", "tuple", "Sequence"} else None
                    if is_str is not None:
                        is_str = is_str != neg
                        # all(str) <=> flat ; any(list) <=> not flat ; the other two combinations say nothing definite
                        if n.func.id == "all" and is_str:
                            return ("flat", a, True)
                        if n.func.id == "any" and not is_str:
                            return ("flat", a, False)
        if isinstance(n, ast.Call) and isinstance(n.func, ast.Name) and n.func.id == "isinstance" and len(n.args) == 2:
            a = self.classify(n.args[0])
            t = n.args[1]
            names = {x.id if isinstance(x, ast.Name) else getattr(x, "attr", "") for x in (t.elts if isinstance(t, ast.Tuple) else [t])}
            if a is not None and a[0] == "tok":
                if names <= {"list", "List", "tuple", "Sequence"}:
                    return ("islist", a, True)
                if names <= {"str"}:
                    return ("islist", a, False)
        return None

    # -- valuation
    def decide(self, d: tuple, sc: Scenario) -> Optional[bool]:
        kind = d[0]
        if kind == "declared":
            _k, a, positive = d
            if a[1] != (0,) or sc.declared is None:
                return None
            return sc.declared == positive
        if kind == "truthy":
            pos = d[1][1]
            if pos in sc.length:
                return sc.length[pos] > 0
            if pos and isinstance(pos[-1], str) and pos[-1].endswith(":") and pos[:-1] in sc.length:
                return sc.length[pos[:-1]] - int(pos[-1][:-1]) > 0
            if pos in sc.tok:
                return True
            return None
        if kind == "flat":
            _k, a, positive = d
            v = sc.flat.get(a[1])
            return None if v is None else (v == positive)
        if kind == "islist":
            _k, a, positive = d
            v = sc.is_list.get(a[1])
            if v is None and a[1] in sc.tok:
                v = False
            return None if v is None else (v == positive)
        if kind == "in":
            _k, a, positive, vals = d
            t = sc.tok.get(a[1])
            return None if t is None else ((t in vals) == positive)
        if kind == "cmp":
            _k, a, op, c = d
            if a[0] == "tok":
                t = sc.tok.get(a[1])
                if t is None or op not in ("==", "!="):
                    return None
                return (t == c) == (op == "==")
            n = sc.length.get(a[1])
            if n is None or not isinstance(c, int):
                return None
            n -= a[2]
            return {"==": n == c, "!=": n != c, "<": n < c, "<=": n <= c, ">": n > c, ">=": n >= c}[op]
        return None

    def valuation(self, sc: Scenario) -> Dict[str, bool]:
        out = {}
        for i, d in self.tests.items():
            v = self.decide(d, sc)
            if v is not None:
                out[f"k{i}"] = v
        return out

    def _static_dict(self, e: ast.AST, at: int, seen: Set[int]) -> Optional[ast.Dict]:
        """the dict display a lookup receiver denotes: a local bound to one, a class-level / module-level table"""
        if isinstance(e, ast.Dict):
            return e
        if isinstance(e, ast.Name):
            n = self.g_node(e)
            rd = L.rd_of(self.f)
            if n is not None and rd.defs_reaching(n, e.id):
                ors = self.G._origins(e, n, set(self.g.nodes()), rd, 0, None)
                if ors and len(ors) == 1 and isinstance(ors[0], ast.Dict):
                    return ors[0]
                return None
            for m in self.const_mods:
                nd = self.repo.const_node(m, e.id)
                if isinstance(nd, ast.Dict):
                    return nd
        if isinstance(e, ast.Attribute) and isinstance(e.value, ast.Name):
            cls = self.f.cls if e.value.id == self.f.self_name else e.value.id
            ci = self.repo.classes.get(cls) if cls else None
            for b in getattr(getattr(ci, "node", None), "body", []) or []:
                tg = b.targets if isinstance(b, ast.Assign) else [b.target] if isinstance(b, ast.AnnAssign) and b.value is not None else []
                if any(isinstance(t, ast.Name) and t.id == e.attr for t in tg) and isinstance(b.value, ast.Dict):
                    return b.value
        return None

    def _get_is_none(self, o: ast.AST, at: int, seen: Set[int], sc: Optional["Scenario"]) -> Optional[bool]:
        """TABLE.get(<token of the node>) with TABLE a static dict of constant keys: None exactly when the scenario's token is no key"""
        if not (isinstance(o, ast.Call) and isinstance(o.func, ast.Attribute) and o.func.attr == "get" and 1 <= len(o.args) <= 2 and not o.keywords) or sc is None:
            return None
        if len(o.args) == 2 and not (isinstance(o.args[1], ast.Constant) and o.args[1].value is None):
            return None
        table = self._static_dict(o.func.value, at, seen)
        a = self.classify(o.args[0])
        if table is None or a is None or a[0] != "tok" or a[1] not in sc.tok:
            return None
        keys = []
        for k in table.keys:
            cs = self.consts_of(k) if k is not None else None
            if cs is None or len(cs) != 1:
                return None
            keys.append(cs[0])
        if sc.tok[a[1]] not in keys:
            return True
        v = table.values[keys.index(sc.tok[a[1]])]
        return False if not (isinstance(v, ast.Constant) and v.value is None) else True

    def const_tests(self, val: Dict[str, bool], seen: Set[int]) -> Dict[str, bool]:
        """`kind == "atom"` (kind a local): decided when every definition of the local that lies on a way the valuation leaves open is a
        constant -- directly, or as the branch of a conditional expression whose test the valuation decides"""
        out: Dict[str, bool] = {}
        rd = L.rd_of(self.f)
        valfn = self.G._val(val, seen)

        def values(o, depth=0):
            if isinstance(o, ast.Constant):
                return [o.value]
            if isinstance(o, ast.IfExp) and depth < 4:
                t = C.eval3(o.test, valfn)
                if t is True:
                    return values(o.body, depth + 1)
                if t is False:
                    return values(o.orelse, depth + 1)
                a, b = values(o.body, depth + 1), values(o.orelse, depth + 1)
                return None if a is None or b is None else a + b
            return None

        for i, (e, n) in self._const_tests.items():
            if n not in seen:
                continue
            origins = self.G._origins(e.left, n, seen, rd, 0, None)
            if not origins:
                continue
            vs: List[object] = []
            for o in origins:
                v = values(o)
                if v is None:
                    vs = None
                    break
                vs += v
            if vs is None:
                continue
            same = [v == e.comparators[0].value for v in vs]
            if all(same):
                out[f"c{i}"] = isinstance(e.ops[0], ast.Eq)
            elif not any(same):
                out[f"c{i}"] = isinstance(e.ops[0], ast.NotEq)
        return out

    def none_tests(self, val: Dict[str, bool], seen: Set[int], sc: Optional["Scenario"] = None) -> Dict[str, bool]:
        """`x is None` / `x is not None` (x a local) decided by the definitions of x that lie on the ways the valuation leaves open"""
        out: Dict[str, bool] = {}
        rd = L.rd_of(self.f)
        for i, (e, n) in self._none_tests.items():
            if n not in seen:
                continue
            origins = self.G._origins(e.left, n, seen, rd, 0, None)
            if not origins:
                continue
            kinds = set()
            for o in origins:
                if isinstance(o, ast.Constant) and o.value is None:
                    kinds.add(True)
                elif isinstance(o, (ast.Lambda, ast.List, ast.Dict, ast.Set, ast.Tuple, ast.ListComp, ast.SetComp, ast.DictComp, ast.JoinedStr, ast.Compare)) \
                        or (isinstance(o, ast.Constant) and o.value is not None):
                    kinds.add(False)
                elif isinstance(o, ast.Attribute) and isinstance(o.value, ast.Name) and (
                        (o.value.id in self.repo.classes and self.repo.find_method(o.value.id, o.attr) is not None)
                        or (o.value.id == self.f.self_name and self.f.cls and self.repo.find_method(self.f.cls, o.attr) is not None)):
                    kinds.add(False)
                else:
                    kinds.add(self._get_is_none(o, n, seen, sc))
            if len(kinds) == 1 and None not in kinds:
                is_none = kinds.pop()
                out[f"n{i}"] = is_none if isinstance(e.ops[0], ast.Is) else (not is_none)
        return out

    def length_of(self, sc: Scenario, pos: Pos) -> Optional[int]:
        if pos in sc.length:
            return sc.length[pos]
        if pos and isinstance(pos[-1], str) and pos[-1].endswith(":") and pos[:-1] in sc.length:
            return max(sc.length[pos[:-1]] - int(pos[-1][:-1]), 0)
        return None

    def head_constants(self) -> List[str]:
        """every token some test compares the head (position 0) with"""
        out: List[str] = []
        for d in self.tests.values():
            if d[0] == "cmp" and d[1] == ("tok", (0,)) and isinstance(d[3], str) and d[3] not in out:
                out.append(d[3])
            if d[0] == "in" and d[1] == ("tok", (0,)):
                out += [v for v in d[3] if isinstance(v, str) and v not in out]
        return out

    def head_tests(self) -> int:
        return sum(1 for d in self.tests.values() if d[0] in ("cmp", "in", "declared") and d[1] == ("tok", (0,)))


# --------------------------------------------------------------------------- one turn of a handler
class Region:
    """the part of the function that handles ONE node: the body of a loop (one turn) or the whole function"""

    def __init__(self, model: NodeModel, loop: Optional[ast.AST] = None):
        self.m, self.g, self.loop = model, model.g, loop
        g = self.g
        if loop is not None:
            self.head = g.node_of(loop)
            self.inside: Set[int] = set()
            for x in ast.walk(loop):
                if isinstance(x, (ast.stmt, ast.ExceptHandler)) and x is not loop:
                    n = g.node_of(x)
                    if n is not None:
                        self.inside.add(n)
            self.starts = [m_ for m_, l in g.succ[self.head] if l == "iter"]
        else:
            self.head = None
            self.inside = set(g.nodes()) - {g.entry, g.exit, g.raise_}
            self.starts = [g.entry]
        self._seen: Dict[str, Set[int]] = {}
        self._val: Dict[str, Dict[str, bool]] = {}
        self._dead: Dict[str, Set[int]] = {}

    def _reach(self, val: Dict[str, bool], avoid=frozenset()) -> Set[int]:
        out: Set[int] = set()
        for s_ in self.starts:
            if s_ in avoid:
                continue
            if self.loop is None:
                out |= self.m.G.reach(val, avoid=avoid) if avoid else self.m.G.reach(val)
            else:
                out |= self.m.G.reach(val, avoid=avoid, start=s_)
        return out

    def val(self, sc: Scenario) -> Dict[str, bool]:
        """the scenario's valuation, completed by the `x is None` tests that it decides: a local that holds a handler picked by the
        decided dispatch (a function of the repository, a lambda) is not None, one that was only set to None is"""
        if sc.name not in self._val:
            val = self.m.valuation(sc)
            for _ in range(3):
                seen_ = self._reach(val)
                more = self.m.none_tests(val, seen_, sc)
                more.update(self.m.const_tests(val, seen_))
                if all(val.get(k) == v for k, v in more.items()):
                    break
                val.update(more)
            self._val[sc.name] = val
        return self._val[sc.name]

    def dead(self, sc: Scenario) -> Set[int]:
        """statements that raise for every node of the class: `a, b, c = PART` with another number of elements, PART[k] beyond its length"""
        if sc.name not in self._dead:
            out: Set[int] = set()
            if sc.length:
                for n in self.inside:
                    st = self.g.stmt[n]
                    if isinstance(st, ast.Assign) and len(st.targets) == 1 and isinstance(st.targets[0], (ast.Tuple, ast.List)):
                        a = self.m.classify(st.value)
                        if a is not None and a[0] == "tok":
                            ln = self.m.length_of(sc, a[1])
                            elts = st.targets[0].elts
                            starred = sum(isinstance(e, ast.Starred) for e in elts)
                            if ln is not None and ((not starred and ln != len(elts)) or (starred and ln < len(elts) - starred)):
                                out.add(n)
                    h = C.header(st) if st is not None else None
                    if h is not None:
                        for x in ast.walk(h):
                            if isinstance(x, ast.Subscript) and isinstance(x.ctx, ast.Load) and self.out_of_range(sc, x):
                                out.add(n)
            self._dead[sc.name] = out
        return self._dead[sc.name]

    def out_of_range(self, sc: Scenario, e: ast.Subscript) -> bool:
        a = self.m.classify(e)
        if a is None or a[0] != "tok" or not a[1] or not isinstance(a[1][-1], int):
            return False
        ln = self.m.length_of(sc, a[1][:-1])
        return ln is not None and not (-ln <= a[1][-1] < ln)

    def seen(self, sc: Scenario, avoid: Iterable[int] = ()) -> Set[int]:
        avoid = frozenset(avoid) | frozenset(self.dead(sc)) if avoid else frozenset(avoid)
        key = (sc.name, avoid)
        if key not in self._seen:
            val = self.val(sc)
            out: Set[int] = set()
            for s_ in self.starts:
                if s_ in avoid:
                    continue
                if self.loop is None:
                    out |= self.m.G.reach(val, avoid=avoid) if avoid else self.m.G.reach(val)
                else:
                    out |= self.m.G.reach(val, avoid=avoid, start=s_)
            self._seen[key] = out
        return self._seen[key]

    def normal_end(self, n: int) -> bool:
        if self.loop is None:
            return n == self.g.exit
        return n == self.head or (n not in self.inside and n != self.g.raise_)

    def completes(self, sc: Scenario, avoid: Iterable[int] = ()) -> bool:
        """can the handling of the node end without raise (next turn / code after the loop / return)?  Statements that raise for the
        whole class (see `dead`) end a path like a raise"""
        return any(self.normal_end(n) for n in self.seen(sc, set(avoid) | self.dead(sc)))

    def nodes(self, sc: Scenario) -> Set[int]:
        return {n for n in self.seen(sc) if n in self.inside}

    def raises(self, sc: Scenario) -> Set[int]:
        return {n for n in self.nodes(sc) if self.g.kind[n] == "raise"}

    def always_passes(self, sc: Scenario, targets: Iterable[int]) -> bool:
        """every normal way through the region passes one of the targets"""
        targets = set(targets)
        return not self.completes(sc, avoid=targets)

    def under(self, sc: Scenario):
        return self.m.G.under(self.val(sc), self.seen(sc))

    def exprs(self, sc: Scenario, types=(ast.Call,)) -> List[ast.AST]:
        """expressions of the given types evaluated under the scenario (statement reachable, not cut off by a decided conditional)"""
        out = []
        val = self.val(sc)
        seen = self.seen(sc)
        for n in sorted(self.nodes(sc)):
            st = self.g.stmt[n]
            h = C.header(st) if st is not None else None
            if h is None:
                continue
            for x in ast.walk(h):
                if isinstance(x, types) and self.m.G.reaches_expr(val, x, seen=seen):
                    out.append(x)
        return out

    def stale_names(self, sc: Scenario, expr: ast.AST) -> List[str]:
        """names read by `expr` whose every definition lies inside the region but none on a way the scenario leaves open: the value
        is left over from the handling of an EARLIER node (or unbound)"""
        rd = L.rd_of(self.m.f)
        n = self.g.node_containing(expr)
        seen = self.seen(sc)
        out = []
        if n is None:
            return out
        for x in ast.walk(expr):
            if isinstance(x, ast.Name) and isinstance(x.ctx, ast.Load):
                ds = rd.defs_reaching(n, x.id)
                if ds and all(d in self.inside for d in ds) and not any(d in seen for d in ds):
                    out.append(x.id)
        return out


# --------------------------------------------------------------------------- flows
class Flows:
    """where the positions of the node go under a scenario: every call / stored value evaluated in the region, traced under the
    scenario's valuation, as (position, named steps)"""

    def __init__(self, region: Region, sc: Scenario):
        self.r, self.sc = region, sc
        self.m = region.m
        self.under = region.under(sc)
        self._t: Dict[int, Set[Tuple[str, ...]]] = {}

    def trace(self, e: ast.AST) -> Set[Tuple[str, ...]]:
        k = id(e)
        if k not in self._t:
            try:
                self._t[k] = self.m.p.trace(e, under=self.under, keys=True)
            except (KeyError, RecursionError):
                self._t[k] = set()
        return self._t[k]

    def of(self, e: ast.AST) -> Set[Tuple[object, Tuple[str, ...]]]:
        """{(position | root, named remaining steps)}: node-rooted paths give a position, others their root"""
        out = set()
        for x in self.trace(e):
            r = self.m.rel(x)
            o, steps = (r[0], r[1]) if r is not None else (x[0], x[1:])
            steps = fold_display_slices(steps)
            if steps is not None:
                out.add((o, named_steps(self.m.repo, steps)))
        return out

    def matches(self, e: ast.AST, origin: object, want: Sequence[str]) -> bool:
        """some path from `origin` (a position tuple, or a root such as 'fresh:Precondition' / 'param:domain_types') reaches the value
        of `e` through the steps `want` in this order (other steps may lie between)"""
        for o, steps in self.of(e):
            if o != origin:
                continue
            it = iter(steps)
            if all(any(w == s for s in it) for w in want):
                return True
        return False


def fold_display_slices(steps: Sequence[str]) -> Optional[Tuple[str, ...]]:
    """`["and", x][1:]`: the element put into a display at position k and the display sliced from j is at position k - j of the result
    (and not in it when k < j): ('in:1', 'slice:1:') -> ('in:0',)"""
    out: List[str] = []
    for st in steps:
        if out and out[-1].startswith("in:") and out[-1][3:].isdigit() and st.startswith("slice:") and st.endswith(":") and st[6:-1].isdigit():
            k, j = int(out[-1][3:]), int(st[6:-1])
            if k < j:
                return None
            out[-1] = f"in:{k - j}"
            continue
        out.append(st)
    return tuple(out)


def subsequence(steps: Sequence[str], want: Sequence[str]) -> bool:
    it = iter(steps)
    return all(any(w == s for s in it) for w in want)


# --------------------------------------------------------------------------- sinks
def receiver_root(model: NodeModel, e: ast.AST) -> Optional[Tuple[str, Tuple[str, ...]]]:
    """(root, attribute steps) when the expression denotes one object reached from a single root by attribute steps only"""
    try:
        tr = model.p.trace(e)
    except (KeyError, RecursionError):
        return None
    got = set()
    for x in tr:
        if all(s.startswith("attr:") for s in x[1:]):
            got.add((x[0], tuple(s[5:] for s in x[1:])))
        elif x[0].startswith("fresh:") and len(x) == 1:
            got.add((x[0], ()))
        elif x[0].startswith(("fresh:", "param:", "const:", "global:")) and any(s.startswith(("arg", "kw:")) for s in x[1:]):
            continue        # constructor arguments of the fresh object
        else:
            return None
    fresh = {r for r in got if r[0].startswith("fresh:")}
    if len(fresh) == 1 and all(r in fresh or not r[0].startswith("fresh:") for r in got) and len(got) >= 1:
        rest = got - fresh
        if not rest:
            return fresh.pop()
    return got.pop() if len(got) == 1 else None


class Sink:
    def __init__(self, node: ast.AST, root: str, attrs: Tuple[str, ...], method: str, value: Optional[ast.AST]):
        self.node, self.root, self.attrs, self.method, self.value = node, root, attrs, method, value

    @property
    def kind(self) -> str:
        return "add" if self.method in ADDERS else "remove" if self.method in REMOVERS else "store" if self.method == "=" else "call"

    def label(self) -> str:
        return ".".join((self.root.split(":", 1)[1],) + self.attrs) + ("." + self.method if self.method != "=" else " =")


def sinks_of(model: NodeModel, exprs_and_stmts: Iterable[ast.AST], roots: Set[str]) -> List[Sink]:
    """mutations of the objects in `roots` ('param:new_action', 'fresh:UniversalEffect', ...): method calls on the object or on one of
    its attributes (readers and logging excluded), stores into its attributes, augmented assignments"""
    out = []
    for x in exprs_and_stmts:
        if isinstance(x, ast.Call) and isinstance(x.func, ast.Attribute) and not is_logging_call(x) and x.func.attr not in READERS:
            rr = receiver_root(model, x.func.value)
            if rr is not None and rr[0] in roots:
                out.append(Sink(x, rr[0], rr[1], x.func.attr, x.args[0] if len(x.args) == 1 and not x.keywords else None))
        elif isinstance(x, (ast.Assign, ast.AnnAssign)) and getattr(x, "value", None) is not None:
            for t in (x.targets if isinstance(x, ast.Assign) else [x.target]):
                if isinstance(t, ast.Attribute):
                    rr = receiver_root(model, t.value)
                    if rr is not None and rr[0] in roots:
                        out.append(Sink(x, rr[0], rr[1] + (t.attr,), "=", x.value))
                elif isinstance(t, ast.Subscript) and not isinstance(t.slice, ast.Slice):
                    rr = receiver_root(model, t.value)      # obj.table[key] = value
                    if rr is not None and rr[0] in roots and rr[1]:
                        out.append(Sink(x, rr[0], rr[1], "=", x.value))
        elif isinstance(x, ast.AugAssign) and isinstance(x.target, ast.Attribute):
            rr = receiver_root(model, x.target.value)
            if rr is not None and rr[0] in roots:
                out.append(Sink(x, rr[0], rr[1] + (x.target.attr,), {ast.BitOr: "|=", ast.Sub: "-=", ast.BitAnd: "&="}.get(type(x.op), "aug"), x.value))
    return out


def public_callees(repo: Repo, f: FuncInfo) -> Set[str]:
    """the other public methods of the function's class: where the function (or a helper, a table of handlers ..) calls one of them it
    is analysed in place like a private helper"""
    if not f.cls:
        return set()
    ci = repo.classes.get(f.cls)
    names = {n.name for n in getattr(ci, "node", ast.Module(body=[], type_ignores=[])).body if isinstance(n, ast.FunctionDef)} if ci is not None else set()
    return {n for n in names if not n.startswith("_") and n != f.name}


def fold_table_updates(repo: Repo, modsuffixes: Iterable[str]) -> int:
    """normalisation the flattener lacks (candidate for sa/inline.py): a local table written as a display and completed at once by
    `T.update(dict.fromkeys(CONSTANT_KEYS, v))` / `T.update({k: v, ..})` / `T[k] = v` with constant keys IS the display with those entries
    appended (later entries win, as in a display).  The statements are merged in the function's tree (same behaviour), so that the engine's
    static-table handling (`T.get(key)` -> key chain, handler values -> tags) applies.  Returns the number of merged statements."""
    done = 0
    for sfx in modsuffixes:
        try:
            m = repo.module(sfx)
        except Exception:
            continue
        for f in repo.all_funcs():
            if f.mod is not m:
                continue
            for holder in ast.walk(f.node):
                body = getattr(holder, "body", None)
                if not isinstance(body, list):
                    continue
                i = 0
                while i < len(body):
                    st = body[i]
                    if isinstance(st, ast.Assign) and len(st.targets) == 1 and isinstance(st.targets[0], ast.Name) and isinstance(st.value, ast.Dict) \
                            and all(k is not None for k in st.value.keys):
                        name, disp = st.targets[0].id, st.value
                        while i + 1 < len(body):
                            nx = body[i + 1]
                            add = _table_entries(repo, f, name, nx)
                            if add is None:
                                break
                            for k, v in add:
                                disp.keys.append(k)
                                disp.values.append(v)
                            del body[i + 1]
                            done += 1
                    i += 1
    done += _inline_table_builders(repo, modsuffixes)
    return done


def _inline_table_builders(repo: Repo, modsuffixes: Iterable[str]) -> int:
    """`T = self._make_table()` where the private, argument-less helper does nothing but build and return a display of constant keys
    (`t = {..}; return t` / `return {..}`, values over self / globals only): the call is the display.  Written in place so that the
    table is a local bound once to a display -- the form the engine's static-table handling starts from."""
    import copy
    done = 0
    mods = []
    for sfx in modsuffixes:
        try:
            mods.append(repo.module(sfx))
        except Exception:
            pass
    for f in repo.all_funcs():
        if f.mod not in mods:
            continue
        for n in ast.walk(f.node):
            if not (isinstance(n, (ast.Assign, ast.AnnAssign)) and isinstance(getattr(n, "value", None), ast.Call)):
                continue
            c = n.value
            if c.args or c.keywords:
                continue
            h = None
            if isinstance(c.func, ast.Attribute) and isinstance(c.func.value, ast.Name) and f.cls and c.func.value.id in (f.self_name, f.cls) \
                    and c.func.attr.startswith("_") and not c.func.attr.startswith("__"):
                h = repo.find_method(f.cls, c.func.attr)
            elif isinstance(c.func, ast.Name) and c.func.id.startswith("_"):
                h = repo.func_opt(f"{f.mod.short}::{c.func.id}")
            if h is None or h is f or (h.is_method and not f.is_method):
                continue
            body = [s for s in h.node.body if not (isinstance(s, ast.Expr) and isinstance(s.value, ast.Constant))]
            disp = None
            if len(body) == 1 and isinstance(body[0], ast.Return) and isinstance(body[0].value, ast.Dict):
                disp = body[0].value
            elif len(body) == 2 and isinstance(body[0], ast.Assign) and len(body[0].targets) == 1 and isinstance(body[0].targets[0], ast.Name) \
                    and isinstance(body[0].value, ast.Dict) and isinstance(body[1], ast.Return) and isinstance(body[1].value, ast.Name) \
                    and body[1].value.id == body[0].targets[0].id:
                disp = body[0].value
            if disp is None or not disp.keys or any(k is None or not isinstance(k, ast.Constant) for k in disp.keys):
                continue
            params = set(h.params)
            helper_self = h.params[0] if h.is_method and h.params else None
            names = {x.id for v in disp.values for x in ast.walk(v) if isinstance(x, ast.Name)}
            if names & (params - {helper_self}):
                continue
            new = copy.deepcopy(disp)
            if helper_self and helper_self != f.self_name:
                for x in ast.walk(new):
                    if isinstance(x, ast.Name) and x.id == helper_self:
                        x.id = f.self_name
            n.value = ast.copy_location(new, c)
            ast.fix_missing_locations(n)
            done += 1
    return done


def _table_entries(repo: Repo, f: FuncInfo, name: str, st: ast.stmt):
    """[(key node, value node)] that the statement appends to the table `name`, None when it is not such a statement"""
    def const_key(k):
        return isinstance(k, ast.Constant) and isinstance(k.value, (str, int))

    if isinstance(st, ast.Assign) and len(st.targets) == 1 and isinstance(st.targets[0], ast.Subscript) and isinstance(st.targets[0].value, ast.Name) \
            and st.targets[0].value.id == name and const_key(st.targets[0].slice) and name not in {x.id for x in ast.walk(st.value) if isinstance(x, ast.Name)}:
        return [(st.targets[0].slice, st.value)]
    if isinstance(st, ast.Expr) and isinstance(st.value, ast.Call) and isinstance(st.value.func, ast.Attribute) and st.value.func.attr == "update" \
            and isinstance(st.value.func.value, ast.Name) and st.value.func.value.id == name and len(st.value.args) == 1 and not st.value.keywords:
        a = st.value.args[0]
        if isinstance(a, ast.Dict) and all(k is not None and const_key(k) for k in a.keys):
            return list(zip(a.keys, a.values))
        if isinstance(a, ast.Call) and isinstance(a.func, ast.Attribute) and a.func.attr == "fromkeys" and isinstance(a.func.value, ast.Name) \
                and a.func.value.id == "dict" and len(a.args) == 2 and isinstance(a.args[1], (ast.Attribute, ast.Name, ast.Constant)):
            ks = a.args[0]
            vals = None
            if isinstance(ks, (ast.Tuple, ast.List)) and all(const_key(k) for k in ks.elts):
                vals = [k.value for k in ks.elts]
            elif isinstance(ks, ast.Name):
                ok, v = repo.const_value(f.mod.name, ks.id)
                if ok and isinstance(v, (list, tuple)) and all(isinstance(x, (str, int)) for x in v):
                    vals = list(v)
            if vals is not None:
                import copy
                return [(ast.copy_location(ast.Constant(value=x), st), copy.deepcopy(a.args[1])) for x in vals]
    return None
