"""Scenes: the guards of one function decided for CONCRETE CLASSES OF INPUT (local engine feature of C12).

A rule describes each input class by a few facts (a *scene*): the class of an object, the length of a sequence, the classes of its
elements, the text of a token, the value of a boolean attribute.  `Scenes.matcher` recognises -- by PROVENANCE of the tested
expression, never by its text -- the test forms whose outcome those facts determine and names each one as an atom of `L.Guards`;
`Scenes.valuation(G, scene)` evaluates every atom the function contains under the scene.  Whatever is not determined stays open
(both branches are followed), so `G.reach(valuation)` over-approximates what the function can do on inputs of that class.

A rule supplies `classify(paths) -> {role: argument}`, mapping the provenance of an expression to what it denotes (one value can play
several roles: a parameter that is a string or a list is an object, a sequence and a token):
    "seq": k        the sequence from position k on (k = 0: the whole sequence)   facts: scene["len"], scene["elems"]
    "token": name   a string whose text the scene gives as scene[name]
    "flag": name    a boolean attribute, scene[name]
    "obj": name     an object whose class name the scene gives as scene["isa:" + name]
Recognised tests:  isinstance(obj, T) | all/any(isinstance(i, T) for i in seq) (also negated element tests) | len(seq) <op> c |
len(seq) as a truth value | type(obj) is T |
truth value of seq / flag | token in CONSTANT-COLLECTION / not in | token == 'c' / != .
"""
from __future__ import annotations

import ast
import operator
from typing import Callable, Dict, Optional

_CMP = {ast.Eq: operator.eq, ast.NotEq: operator.ne, ast.Lt: operator.lt, ast.LtE: operator.le, ast.Gt: operator.gt, ast.GtE: operator.ge}
_SWAP = {ast.Lt: ast.Gt, ast.LtE: ast.GtE, ast.Gt: ast.Lt, ast.GtE: ast.LtE, ast.Eq: ast.Eq, ast.NotEq: ast.NotEq}


def _type_names(t: ast.AST):
    if isinstance(t, ast.Name):
        return (t.id,)
    if isinstance(t, ast.Attribute):
        return (t.attr,)
    if isinstance(t, ast.Tuple) and t.elts and all(isinstance(x, (ast.Name, ast.Attribute)) for x in t.elts):
        return tuple(sorted(x.id if isinstance(x, ast.Name) else x.attr for x in t.elts))
    return None


class Scenes:
    def __init__(self, repo, f, p, classify: Callable[[frozenset], Optional[tuple]]):
        self.repo, self.f, self.p, self.classify = repo, f, p, classify
        self.evals: Dict[str, Callable[[dict], Optional[bool]]] = {}
        self._memo: Dict[int, Optional[str]] = {}
        self._keep = []

    # -- what an expression denotes
    def subject(self, e: ast.AST):
        try:
            tr = frozenset(self.p.trace(e))
        except (KeyError, RecursionError):
            return {}
        return (self.classify(tr) or {}) if tr else {}

    def members(self, c: ast.AST):
        """a constant collection of strings: display, module-level list / tuple / set / dict (its keys), TABLE.keys()"""
        repo, mod = self.repo, self.f.mod.name
        if isinstance(c, ast.Call) and isinstance(c.func, ast.Attribute) and c.func.attr == "keys" and not c.args:
            c = c.func.value
        if isinstance(c, ast.Call) and isinstance(c.func, ast.Name) and c.func.id in ("set", "frozenset", "list", "tuple") and len(c.args) == 1:
            c = c.args[0]
        node, where = c, mod
        if isinstance(c, ast.Name):
            r = repo.lookup(mod, c.id)
            if not r or r[0] != "const":
                return None
            node, where = r[1], r[2]
            if isinstance(node, ast.Call) and isinstance(node.func, ast.Name) and node.func.id in ("set", "frozenset", "list", "tuple") and len(node.args) == 1:
                node = node.args[0]
        if isinstance(node, ast.Dict):
            vals = []
            for k in node.keys:
                if k is None:
                    return None
                ok, v = repo.fold(k, where)
                if not ok:
                    return None
                vals.append(v)
        elif isinstance(node, (ast.List, ast.Tuple, ast.Set)):
            ok, vals = repo.fold(node, where)
            if not ok:
                return None
        else:
            return None
        vals = list(vals)
        if not vals or not all(isinstance(v, str) for v in vals):
            return None
        return frozenset(vals)

    def _measured(self, e: ast.AST):
        """the subject whose length the expression is (None when it is not a length)"""
        if isinstance(e, ast.Call) and isinstance(e.func, ast.Name) and e.func.id == "len" and len(e.args) == 1 and not e.keywords:
            return self.subject(e.args[0])
        if isinstance(e, ast.Name):
            try:
                tr = self.p.trace(e)
            except (KeyError, RecursionError):
                return None
            if len(tr) == 1:
                (x,) = tuple(tr)
                if len(x) >= 2 and x[-1] == "arg0:len":
                    return self.classify(frozenset([x[:-1]])) or {}
        return None

    def _atom(self, name: str, fn) -> str:
        self.evals.setdefault(name, fn)
        return name

    # -- the matcher handed to L.Guards
    def matcher(self, e: ast.AST) -> Optional[str]:
        k = id(e)
        if k not in self._memo:
            self._keep.append(e)
            self._memo[k] = self._match(e)
        return self._memo[k]

    def _len_atom(self, k: int, op, c: int) -> str:
        return self._atom(f"len:{k}:{op.__name__}:{c}",
                          lambda sc, k=k, op=op, c=c: None if sc.get("len") is None else _CMP[op](max(sc["len"] - k, 0), c))

    def _match(self, e: ast.AST) -> Optional[str]:
        if isinstance(e, ast.Call) and isinstance(e.func, ast.Name):
            nm = e.func.id
            if nm == "isinstance" and len(e.args) == 2 and not e.keywords:
                tn = _type_names(e.args[1])
                s = self.subject(e.args[0]) if tn else {}
                if "obj" in s:
                    return self._atom(f"isa:{s['obj']}:{'|'.join(tn)}",
                                      lambda sc, n=s["obj"], tn=tn: None if sc.get("isa:" + n) is None else sc["isa:" + n] in tn)
                return None
            if nm == "len" and len(e.args) == 1 and not e.keywords:       # `if len(xs):` / `if not len(xs):`
                s = self.subject(e.args[0])
                return self._len_atom(s["seq"], ast.Gt, 0) if "seq" in s else None
            if nm in ("all", "any") and len(e.args) == 1 and isinstance(e.args[0], (ast.ListComp, ast.GeneratorExp)):
                comp = e.args[0]
                if len(comp.generators) != 1 or comp.generators[0].ifs or not isinstance(comp.generators[0].target, ast.Name):
                    return None
                s = self.subject(comp.generators[0].iter)
                if s.get("seq") != 0:
                    return None
                elt, neg = comp.elt, False
                if isinstance(elt, ast.UnaryOp) and isinstance(elt.op, ast.Not):
                    elt, neg = elt.operand, True
                if not (isinstance(elt, ast.Call) and isinstance(elt.func, ast.Name) and elt.func.id == "isinstance" and len(elt.args) == 2
                        and isinstance(elt.args[0], ast.Name) and elt.args[0].id == comp.generators[0].target.id):
                    return None
                tn = _type_names(elt.args[1])
                if not tn:
                    return None
                q = all if nm == "all" else any
                return self._atom(f"{nm}-elems:{'!' if neg else ''}{'|'.join(tn)}",
                                  lambda sc, q=q, tn=tn, neg=neg: None if sc.get("elems") is None else q((c in tn) != neg for c in sc["elems"]))
            return None
        if isinstance(e, ast.Compare) and len(e.ops) == 1:
            l, r, op = e.left, e.comparators[0], type(e.ops[0])
            if op in (ast.Is, ast.IsNot, ast.Eq, ast.NotEq) and isinstance(l, ast.Call) and isinstance(l.func, ast.Name) and l.func.id == "type" \
                    and len(l.args) == 1 and isinstance(r, ast.Name):
                s = self.subject(l.args[0])           # `type(x) is str`
                if "obj" in s:
                    a = self._atom(f"isa:{s['obj']}:{r.id}", lambda sc, n=s["obj"], tn=(r.id,): None if sc.get("isa:" + n) is None else sc["isa:" + n] in tn)
                    return a if op in (ast.Is, ast.Eq) else "!" + a
                return None
            if op in _CMP:
                if isinstance(l, ast.Constant) and not isinstance(r, ast.Constant):
                    l, r, op = r, l, _SWAP[op]
                if isinstance(r, ast.Constant) and isinstance(r.value, int) and not isinstance(r.value, bool):
                    s = self._measured(l)       # `len(xs) == 3`, also through a local (`size = len(xs); if size == 3`)
                    if s is not None:
                        return self._len_atom(s["seq"], op, r.value) if "seq" in s else None
                if op in (ast.Eq, ast.NotEq) and isinstance(r, ast.Constant) and isinstance(r.value, str):
                    s = self.subject(l)
                    if "token" in s:
                        a = self._atom(f"in:{s['token']}:{r.value}", lambda sc, n=s["token"], m=frozenset([r.value]): None if sc.get(n) is None else sc[n] in m)
                        return a if op is ast.Eq else "!" + a
                return None
            if op in (ast.In, ast.NotIn):
                s = self.subject(l)
                if "token" in s:
                    m = self.members(r)
                    if m is None:
                        return None
                    a = self._atom(f"in:{s['token']}:{'|'.join(sorted(m))}", lambda sc, n=s["token"], m=m: None if sc.get(n) is None else sc[n] in m)
                    return a if op is ast.In else "!" + a
            return None
        if isinstance(e, (ast.Name, ast.Attribute, ast.Subscript)) and isinstance(getattr(e, "ctx", None), ast.Load):
            s = self.subject(e)
            if "flag" in s:
                return self._atom(f"flag:{s['flag']}", lambda sc, n=s["flag"]: sc.get(n))
            if "seq" in s:
                return self._len_atom(s["seq"], ast.Gt, 0)
        return None

    def valuation(self, G, scene: dict) -> Dict[str, bool]:
        out = {}
        for a in G.atoms_seen:
            fn = self.evals.get(a)
            v = fn(scene) if fn else None
            if v is not None:
                out[a] = bool(v)
        return out


def returns_under(G, seen) -> list:
    """the `return` statements (with a value) at nodes reachable under the valuation"""
    g = G.g
    return [g.stmt[n] for n in sorted(seen) if g.kind[n] == "return" and isinstance(g.stmt[n], ast.Return) and g.stmt[n].value is not None]


def normal_exit(G, seen) -> bool:
    """can the function end normally (return / fall off the end) under the valuation?"""
    return G.g.exit in seen
