"""Static helpers of C06 (pure `ast` / CFG / provenance analysis -- no repository code is interpreted or run).

* OpenGraph        -- the CFG restricted to the edges a guard valuation leaves open (for kill-aware questions the engines answer by node
                      liveness only): `origins` = the defining expressions of a value along those edges, `reaches` = path search
* TypesWalk        -- the view of DomainParser.parse_types the clauses share: token list parameter, token / member (accumulated name)
                      expressions by provenance, the token loop, the atoms `dash` (current token is the separator), `root` (parent token is
                      'object'), `more` (cursor < len(tokens)), collect / flush / link sites
* cursor_findings  -- `while cursor < len(tokens)` walks: start value, loop condition (finite truth table over small lengths), advance of the
                      cursor against the token offsets read on every acyclic path through one turn
"""
from __future__ import annotations

import ast
from typing import Callable, Dict, Iterable, List, Optional, Set, Tuple

from .. import cfg as C
from .. import lib as L
from ..core import AnalysisError, FuncInfo, Repo, unparse

# oracle constants of the typed-list syntax and of the type tree (PDDL): see c06.py for the reasons
DASH = "-"
ROOT_NAME = "object"
ROOT_GLOBAL = "ObjectType"
TYPE_CLASS = "PDDLType"
PARENT_FIELD = "parent"


class Undecided(Exception):
    """the construct is outside what the clause can read: the clause says nothing (a note, never a finding)"""


# --------------------------------------------------------------------------------------------------------------------- open graph
class OpenGraph:
    """CFG of `G.f` with the edges that stay open under `valuation` (tests the valuation decides are followed one way only)"""

    def __init__(self, G: "L.Guards", valuation: Dict[str, bool]):
        self.G, self.g = G, G.g
        # (the engine's own reach also prunes loops over lists it believes empty -- by name, blind to aliases; here only the tests decide)
        self.val, _pruned = G.under(valuation)
        edges: Set[Tuple[int, int]] = set()
        self.seen = C.reach_under(self.g, self.val, edges=edges)
        self.succ: Dict[int, List[int]] = {}
        self.pred: Dict[int, List[int]] = {}
        for a, b in edges:
            self.succ.setdefault(a, []).append(b)
            self.pred.setdefault(b, []).append(a)
        self.rd = L.rd_of(G.f)

    def open_defs(self, at: int, name: str) -> Set[int]:
        """definitions of `name` that reach node `at` along open edges (a definition overwritten on every open path does not)"""
        allr = self.rd.defs_reaching(at, name)
        out, done, stack = set(), set(), list(self.pred.get(at, []))
        while stack:
            u = stack.pop()
            if u in done:
                continue
            done.add(u)
            if u in allr:
                out.add(u)
                continue
            stack.extend(self.pred.get(u, []))
        return out

    def origins(self, e: ast.AST, at: Optional[int] = None, depth: int = 0) -> Optional[List[ast.AST]]:
        """the expressions the value of `e` can be: local names followed through plain assignments along open edges, conditional
        expressions resolved by the valuation.  None: a definition that is not a plain assignment was met"""
        if depth > 14:
            return None
        if at is None:
            at = self.g.node_containing(e)
        if isinstance(e, ast.IfExp):
            tv = C.eval3(e.test, self.val)
            branches = [e.body if tv else e.orelse] if tv is not None else [e.body, e.orelse]
            out: List[ast.AST] = []
            for b in branches:
                sub = self.origins(b, at, depth + 1)
                if sub is None:
                    return None
                out += sub
            return out
        if isinstance(e, ast.Name) and at is not None and self.rd.defs_reaching(at, e.id):
            out = []
            for d in self.open_defs(at, e.id):
                st = self.g.stmt[d]
                if d == self.g.entry:
                    out.append(e)
                    continue
                v = None
                if isinstance(st, ast.Assign) and len(st.targets) == 1 and isinstance(st.targets[0], ast.Name) and st.targets[0].id == e.id:
                    v = st.value
                elif isinstance(st, ast.AnnAssign) and isinstance(st.target, ast.Name) and st.value is not None:
                    v = st.value
                if v is None:
                    return None
                sub = self.origins(v, d, depth + 1)
                if sub is None:
                    return None
                out += sub
            return out
        return [e]

    def reaches(self, starts: Iterable[int], goal: Callable[[int], bool], avoid: Iterable[int] = ()) -> bool:
        avoid = set(avoid)
        done, stack = set(), [s for s in starts if s not in avoid]
        while stack:
            u = stack.pop()
            if u in done or u in avoid:
                continue
            done.add(u)
            if goal(u):
                return True
            stack.extend(self.succ.get(u, []))
        return False


# --------------------------------------------------------------------------------------------------------------------- parse_types
def _nodes_inside(g: C.CFG, loop: ast.AST) -> Set[int]:
    out = set()
    for x in ast.walk(loop):
        if isinstance(x, (ast.stmt, ast.ExceptHandler)) and x is not loop:
            n = g.node_of(x)
            if n is not None:
                out.add(n)
    return out


class TypesWalk:
    def __init__(self, repo: Repo, spec: str = "DomainParser.parse_types"):
        self.repo = repo
        self.f = f = L.fn(repo, spec)
        self.p = L.prov(repo, f)
        self.g = C.cfg_of(f.node)
        self.pm = L.parents_of(f)
        params = [x for x in f.params if x != f.self_name]
        if not params:
            raise AnalysisError(f"{spec}: token list parameter not found")
        self.root = f"param:{params[0]}"
        self._tr: Dict[int, Set[tuple]] = {}
        self.G = L.Guards(f, self.matcher)
        self.loop = self._token_loop()
        self.inside = _nodes_inside(self.g, self.loop) if self.loop is not None else set()
        self.open0 = OpenGraph(self.G, {})

    # -- provenance classes
    def tr(self, e: ast.AST) -> Set[tuple]:
        k = id(e)
        if k not in self._tr:
            try:
                self._tr[k] = set(self.p.trace(e))
            except (KeyError, RecursionError):
                self._tr[k] = set()
        return self._tr[k]

    def is_tokens(self, e: ast.AST) -> bool:
        t = self.tr(e)
        return bool(t) and all(x == (self.root,) for x in t)

    def is_token(self, e: ast.AST) -> bool:
        """one token of the list, taken by index / iteration (not through a container the function fills)"""
        t = self.tr(e)
        return bool(t) and any(x[0] == self.root and len(x) >= 2 and not any(s.startswith("in:") for s in x) for x in t) and \
            not any(any(s.startswith("in:") for s in x) for x in t if x[0] == self.root)

    def is_member(self, e: ast.AST) -> bool:
        """a name that went through the group accumulator (content flow `in:append@..` / `in:extend@..` / display element)"""
        t = self.tr(e)
        return any(x[0] == self.root and any(s.startswith("in:") for s in x) and x[-1] in ("elem", "item") for x in t)

    # -- atoms
    def matcher(self, e: ast.AST) -> Optional[str]:
        if not (isinstance(e, ast.Compare) and len(e.ops) == 1):
            return None
        l, r, op = e.left, e.comparators[0], e.ops[0]
        for x, y in ((l, r), (r, l)):
            if isinstance(y, ast.Constant) and isinstance(y.value, str) and y.value in (DASH, ROOT_NAME) and isinstance(op, (ast.Eq, ast.NotEq)) \
                    and not isinstance(x, ast.Constant) and self.is_token(x):
                atom = "dash" if y.value == DASH else "root"
                return atom if isinstance(op, ast.Eq) else "!" + atom
        # cursor against the number of tokens
        if self._is_len(r) and isinstance(l, ast.Name) and not self._is_len(l):
            return {ast.Lt: "more", ast.GtE: "!more", ast.NotEq: "more", ast.Eq: "!more"}.get(type(op))
        if self._is_len(l) and isinstance(r, ast.Name) and not self._is_len(r):
            return {ast.Gt: "more", ast.LtE: "!more", ast.NotEq: "more", ast.Eq: "!more"}.get(type(op))
        return None

    def _is_len(self, e: ast.AST) -> bool:
        if not isinstance(e, (ast.Call, ast.Name)):
            return False
        t = self.tr(e)
        return bool(t) and all(x == (self.root, "arg0:len") for x in t)

    # -- the token loop: the outermost loop that contains a separator test
    def _token_loop(self) -> Optional[ast.AST]:
        best = None
        for n in ast.walk(self.f.node):
            if isinstance(n, ast.Compare) and (self.matcher(n) or "").lstrip("!") == "dash":
                cur, top = n, None
                while cur in self.pm:
                    cur = self.pm[cur]
                    if isinstance(cur, (ast.For, ast.While)):
                        top = cur
                if top is not None and best is None:
                    best = top
        return best

    def leaves_walk_early(self, valuation: Dict[str, bool]) -> bool:
        """can one turn of the token loop end the walk (break / return; raising is not counted)?  Decided along the edges the valuation
        leaves open with the tests evaluated in the context of the WHOLE function, so that a flag bound before the loop (an option of a
        helper analysed in place, `tolerate = False`) decides `if tolerate and ..: break` -- L.leaves_loop_early starts its search at the
        loop body and does not see definitions made before it"""
        og = OpenGraph(self.G, valuation)
        head = self.g.node_of(self.loop)
        starts = [m for m in og.succ.get(head, []) if m in self.inside]
        return og.reaches(starts, lambda n: n not in self.inside and n not in (self.g.raise_, head), avoid={head})

    # -- sites
    def ctor_calls(self) -> List[Tuple[ast.Call, Optional[ast.AST], Optional[ast.AST]]]:
        """(constructor call, name argument, parent argument) of every type constructed"""
        out = []
        init = self.repo.find_method(TYPE_CLASS, "__init__")
        for c in L.calls_in(self.f.node):
            if isinstance(c.func, ast.Name) and c.func.id == TYPE_CLASS:
                out.append((c, L.arg_of(c, init, "name", 0), L.arg_of(c, init, PARENT_FIELD, 1)))
        return out

    def parent_kinds(self, og: OpenGraph, parent: Optional[ast.AST]) -> Optional[Set[str]]:
        """{'ROOT', 'OTHER'}: is the parent expression the root type itself / something else (a looked-up or new type)?"""
        if parent is None:
            return {"NONE"}
        os_ = og.origins(parent)
        if os_ is None:
            return None
        kinds = set()
        for o in os_:
            if isinstance(o, ast.Name) and o.id == ROOT_GLOBAL and not self.open0.rd.defs_reaching(self.g.node_containing(parent) or self.g.entry, o.id):
                kinds.add("ROOT")
            elif isinstance(o, ast.Constant) and o.value is None:
                kinds.add("NONE")
            else:
                kinds.add("OTHER")
        return kinds

    def link_sites(self) -> List[Tuple[ast.AST, int, ast.AST, str]]:
        """places where a collected name gets its parent: (site, CFG node, parent expression, 'new' | 'relink')"""
        out = []
        for c, name, parent in self.ctor_calls():
            n = self.g.node_containing(c)
            if name is not None and parent is not None and n is not None and self.is_member(name):
                out.append((c, n, parent, "new"))
        for st in ast.walk(self.f.node):
            if isinstance(st, ast.Assign) and len(st.targets) == 1 and isinstance(st.targets[0], ast.Attribute) and st.targets[0].attr == PARENT_FIELD:
                n = self.g.node_of(st)
                if n is not None:
                    out.append((st, n, st.value, "relink"))
        return out

    def parent_registrations(self) -> List[Tuple[ast.AST, int]]:
        """a type constructed under the name of a token read directly (the parent named after the separator)"""
        out = []
        for c, name, _parent in self.ctor_calls():
            n = self.g.node_containing(c)
            if name is not None and n is not None and self.is_token(name) and not self.is_member(name):
                out.append((c, n))
        return out

    def collect_nodes(self) -> Set[int]:
        """statements that put the current token into the group accumulator"""
        out = set()
        for n in ast.walk(self.f.node):
            hit = False
            if isinstance(n, ast.Call) and isinstance(n.func, ast.Attribute) and n.func.attr in ("append", "add", "appendleft", "insert", "extend") and n.args:
                for a in n.args:
                    if self.is_token(a) or (isinstance(a, (ast.List, ast.Tuple)) and any(self.is_token(x) for x in a.elts)):
                        hit = True
            elif isinstance(n, (ast.Assign, ast.AugAssign)) and isinstance(n.value, (ast.BinOp, ast.List, ast.Tuple)):
                # acc = acc + [tok] / acc = [*acc, tok] / acc += [tok]: the accumulator is rebuilt from itself and the token
                tgt = n.target if isinstance(n, ast.AugAssign) else (n.targets[0] if len(n.targets) == 1 else None)
                if isinstance(tgt, ast.Name) and (isinstance(n, ast.AugAssign) or any(isinstance(x, ast.Name) and x.id == tgt.id for x in ast.walk(n.value))):
                    for d in ast.walk(n.value):
                        if isinstance(d, (ast.List, ast.Tuple)) and any(not isinstance(x, ast.Starred) and self.is_token(x) for x in d.elts):
                            hit = True
            if hit:
                k = self.g.node_containing(n) if not isinstance(n, ast.stmt) else self.g.node_of(n)
                if k is not None:
                    out.add(k)
        return out


# --------------------------------------------------------------------------------------------------------------------- cursor walks
class _Unknown(Exception):
    pass


def _fold_int(e: ast.AST) -> int:
    if isinstance(e, ast.Constant) and isinstance(e.value, int) and not isinstance(e.value, bool):
        return e.value
    if isinstance(e, ast.UnaryOp) and isinstance(e.op, ast.USub):
        return -_fold_int(e.operand)
    raise _Unknown(f"not an integer constant: {unparse(e, 30)}")


def _offset(e: ast.AST, cur: str) -> int:
    """k for an index expression `cur + k` / `k + cur` / `cur - k` / `cur`"""
    if isinstance(e, ast.Name) and e.id == cur:
        return 0
    if isinstance(e, ast.BinOp) and isinstance(e.op, (ast.Add, ast.Sub)):
        if isinstance(e.left, ast.Name) and e.left.id == cur:
            k = _fold_int(e.right)
            return k if isinstance(e.op, ast.Add) else -k
        if isinstance(e.op, ast.Add) and isinstance(e.right, ast.Name) and e.right.id == cur:
            return _fold_int(e.left)
    raise _Unknown(f"index not of the form cursor + k: {unparse(e, 30)}")


def _eval_test(e: ast.AST, cur: str, k: int, n: int, is_len) -> bool:
    def num(x):
        if isinstance(x, ast.Name) and x.id == cur:
            return k
        if is_len(x):
            return n
        if isinstance(x, ast.BinOp) and isinstance(x.op, (ast.Add, ast.Sub)):
            a, b = num(x.left), num(x.right)
            return a + b if isinstance(x.op, ast.Add) else a - b
        return _fold_int(x)

    if isinstance(e, ast.BoolOp):
        vs = [_eval_test(v, cur, k, n, is_len) for v in e.values]
        return all(vs) if isinstance(e.op, ast.And) else any(vs)
    if isinstance(e, ast.UnaryOp) and isinstance(e.op, ast.Not):
        return not _eval_test(e.operand, cur, k, n, is_len)
    if isinstance(e, ast.Compare) and len(e.ops) == 1:
        a, b = num(e.left), num(e.comparators[0])
        ops = {ast.Lt: a < b, ast.LtE: a <= b, ast.Gt: a > b, ast.GtE: a >= b, ast.Eq: a == b, ast.NotEq: a != b}
        if type(e.ops[0]) in ops:
            return ops[type(e.ops[0])]
    raise _Unknown(f"loop condition not over cursor and length: {unparse(e, 40)}")


def _only_tested(pm, sub: ast.AST) -> bool:
    """the token read is only compared in a branch condition (peeked at), its value goes nowhere"""
    cur = sub
    while cur in pm and not isinstance(pm[cur], ast.stmt):
        cur = pm[cur]
    st = pm.get(cur)
    return isinstance(st, (ast.If, ast.While)) and st.test is cur


FIRST_TOKEN = 0     # a typed list starts with its first token


def cursor_findings(w: TypesWalk):
    """None = not decidable here; () = fine; (role, text, node) = violated"""
    lp, g, f = w.loop, w.g, w.f
    if not isinstance(lp, ast.While):
        return None
    curs = [n.id for n in ast.walk(lp.test) if isinstance(n, ast.Name) and not w._is_len(n) and (w.matcher(w.pm.get(n, n)) or "").lstrip("!") == "more"]
    if len(set(curs)) != 1:
        return None
    cur = curs[0]
    head = g.node_of(lp)
    rd = L.rd_of(f)
    # (1) start value
    inits = [d for d in rd.defs_reaching(head, cur) if d not in w.inside]
    vals = set()
    for d in inits:
        st = g.stmt[d]
        v = st.value if isinstance(st, (ast.Assign, ast.AnnAssign)) else None
        try:
            vals.add(_fold_int(v) if v is not None else None)
        except _Unknown:
            vals.add(None)
    if not vals or None in vals:
        return None
    if vals != {FIRST_TOKEN}:
        return ("token-walk:start", f"the cursor over the declaration tokens starts at {sorted(vals)} instead of {FIRST_TOKEN}: the first token(s) are "
                "never looked at", g.stmt[inits[0]])
    # (2) the loop condition means `cursor < len(tokens)`
    try:
        for n in (1, 2, 3):
            for k in range(0, n + 1):
                if _eval_test(lp.test, cur, k, n, w._is_len) != (k < n):
                    what = "the walk is not entered / stops before the last token" if k < n else "the walk runs past the last token"
                    return ("token-walk:condition", f"`{unparse(lp.test, 50)}` is {k >= n} with the cursor at {k} of {n} tokens: {what}", lp)
    except _Unknown:
        return None
    # (3) every turn advances the cursor by exactly the tokens it consumed (a token that is only compared in a test is peeked at)
    try:
        paths = C.acyclic_paths(g, head, lambda n: n == head, limit=6000)
    except RuntimeError:
        return None
    try:
        for path in paths:
            if len(path) < 2 or path[0] != (head, "iter"):
                continue
            last = path[-1]
            if not (last[0] == head and last[1] == "back"):
                continue            # raises / leaves the loop (the early-exit clause decides that)
            adv, reads, data_reads = 0, set(), set()
            for n, _lab in path[1:-1]:
                st = g.stmt[n]
                h = C.header(st) if st is not None else None
                if h is None:
                    continue
                moved = None
                if isinstance(st, ast.AugAssign) and isinstance(st.target, ast.Name) and st.target.id == cur:
                    if not isinstance(st.op, (ast.Add, ast.Sub)):
                        raise _Unknown("cursor op")
                    k = _fold_int(st.value)
                    moved = k if isinstance(st.op, ast.Add) else -k
                    h = st.value
                elif isinstance(st, (ast.Assign, ast.AnnAssign)) and cur in C.defs_of(st):
                    if isinstance(st, ast.Assign) and not (len(st.targets) == 1 and isinstance(st.targets[0], ast.Name)):
                        raise _Unknown("cursor unpacked")
                    moved = _offset(st.value, cur)
                    h = ast.Constant(value=0)
                elif cur in C.defs_of(st):
                    raise _Unknown("cursor rebound")
                for sub in ast.walk(h):
                    if isinstance(sub, ast.Subscript) and isinstance(sub.ctx, ast.Load) and w.is_tokens(sub.value):
                        if isinstance(sub.slice, ast.Slice):
                            raise _Unknown("slice of the token list")
                        off = adv + _offset(sub.slice, cur)
                        reads.add(off)
                        if not _only_tested(w.pm, sub):
                            data_reads.add(off)
                if moved is not None:
                    adv += moved
            if not reads:
                raise _Unknown("no token read on a path")
            at = next((g.stmt[n] for n, _l in reversed(path[1:-1]) if isinstance(g.stmt[n], (ast.AugAssign, ast.Assign)) and cur in C.defs_of(g.stmt[n])), lp)
            if adv < 1:
                return ("token-walk:advance", f"a turn of the token loop that looks at token(s) {sorted(reads)} leaves the cursor where it was (advance {adv}): "
                        "the walk never ends", at)
            if data_reads and max(data_reads) > adv - 1:
                return ("token-walk:advance", f"a turn of the token loop uses the tokens at offsets {sorted(data_reads)} but advances the cursor by {adv}: token "
                        f"{adv} is read again as if it were new (a parent becomes a child of the next group)", at)
            if set(range(adv)) - reads:
                miss = sorted(set(range(adv)) - reads)
                return ("token-walk:advance", f"a turn of the token loop reads the tokens at offsets {sorted(reads)} but advances the cursor by {adv}: token(s) "
                        f"at offset {miss} are passed over unseen (the parent after the dash is not the token that is read / declared names are lost)", at)
    except _Unknown:
        return None
    return ()
