"""C18 -- renaming an action's parameters does not change what the action does."""
from __future__ import annotations

import ast
from typing import List, Set

from .. import cfg as C
from .. import fields as F
from .. import lib as L
from ..core import AnalysisError, FuncInfo, Repo, unparse
from ..prov import callee_name
from ..report import Finding, RuleResult

EXPLANATION = (
    "C18.simul: a renaming that, inside one loop, removes key k from a container and inserts map[k] into the same container is a "
    "sequential, not a simultaneous substitution (for a permutation such as {?x->?y, ?y->?x} a freshly inserted key is popped again "
    "and parameters are lost). Every change_signature must build the renamed container from a snapshot. C18.order: the renamed "
    "signature is built in the order of the old one and keeps each parameter's type. C18.fields: Action.change_signature reaches "
    "every field of Action that mentions parameters. C18.pairs: both components of each (in)equality pair are mapped and the new "
    "sets replace the old ones. C18.nested: nested conditions have their own (in)equality pairs renamed."
)
UNDECIDED = "behavioural equivalence of the renamed action (applicability and successors for every argument tuple)"

SITES = ["Predicate.change_signature", "PDDLFunction.change_signature", "Action.change_signature"]


def _map_param(f: FuncInfo) -> str:
    ps = [p for p in f.params if p != f.self_name]
    if not ps:
        raise AnalysisError(f"{f.qn}: renaming map parameter not found")
    return ps[0]


def rule_simul(repo: Repo, floor: int = 3) -> RuleResult:
    r = RuleResult("C18.simul", "the renamed signature is built from a snapshot, not by pop/insert in place inside one loop",
                   "any injective map, including maps whose new names overlap the old ones")
    for spec in SITES:
        f = repo.func(spec)
        p = L.prov(repo, f)
        mp = _map_param(f)
        r.site(f.qn)
        offenders = []
        for loop in [n for n in ast.walk(f.node) if isinstance(n, (ast.For, ast.While))]:
            inserted, removed = {}, {}
            for s in C.stmts_in(loop.body):
                if isinstance(s, ast.Assign):
                    for t in s.targets:
                        if isinstance(t, ast.Subscript):
                            key_from_map = any(x[0] == f"param:{mp}" for x in p.trace(t.slice, keys=True))
                            if key_from_map:
                                inserted[ast.unparse(t.value)] = s
                for c in L.calls_in(s):
                    if isinstance(c.func, ast.Attribute) and c.func.attr in ("pop", "remove", "discard", "__delitem__"):
                        removed[ast.unparse(c.func.value)] = c
                if isinstance(s, ast.Delete):
                    for t in s.targets:
                        if isinstance(t, ast.Subscript):
                            removed[ast.unparse(t.value)] = s
            for cont in set(inserted) & set(removed):
                offenders.append((cont, inserted[cont]))
        if offenders:
            cont, st = offenders[0]
            r.fail(Finding("C18.simul", f, f"inplace-rename:{cont}", f"{unparse(st, 80)} pops and inserts in {cont} inside one loop: for a map whose new "
                           f"names overlap the old ones (e.g. a swap) a just-inserted key is popped again and parameters are lost", node=st))
        else:
            r.ok({"function": f.qn, "in_place_pop_insert_loop": False})
    r.require_sites(floor)
    return r


def rule_order(repo: Repo) -> RuleResult:
    r = RuleResult("C18.order", "the renamed signature maps every old parameter (in order) to map[old] with its own type",
                   "same number, order and types of parameters")
    for spec in SITES:
        f = repo.func(spec)
        p = L.prov(repo, f)
        mp = _map_param(f)
        r.site(f.qn)
        ok = False
        detail = ""
        # snapshot form: {map[old]: type for old, type in self.signature.items()}
        for n in ast.walk(f.node):
            if isinstance(n, ast.DictComp) and len(n.generators) == 1 and not n.generators[0].ifs:
                gen = n.generators[0]
                it = p.trace(gen.iter)
                from_sig = any(x[:2] == ("self", "attr:signature") and "call:items" in x for x in it)
                unsorted = not any(any(s.startswith(("arg0:sorted", "arg0:reversed", "arg0:set")) for s in x) for x in it)
                if from_sig and unsorted and isinstance(gen.target, ast.Tuple) and len(gen.target.elts) == 2:
                    old, typ = [e.id for e in gen.target.elts if isinstance(e, ast.Name)]
                    key_ok = isinstance(n.key, ast.Subscript) and isinstance(n.key.value, ast.Name) and n.key.value.id == mp and \
                        isinstance(n.key.slice, ast.Name) and n.key.slice.id == old
                    val_ok = isinstance(n.value, ast.Name) and n.value.id == typ
                    if key_ok and val_ok:
                        ok = True
                        detail = "snapshot comprehension over self.signature.items()"
        # in-place form (sequential): for old in list(keys): sig[map[old]] = sig.pop(old)
        if not ok:
            for loop in [n for n in ast.walk(f.node) if isinstance(n, ast.For) and isinstance(n.target, ast.Name)]:
                it = p.trace(loop.iter)
                from_sig = any(x[:2] == ("self", "attr:signature") for x in it)
                unsorted = not any(any(s.startswith(("arg0:sorted", "arg0:reversed", "arg0:set")) for s in x) for x in it)
                for s in loop.body:
                    if isinstance(s, ast.Assign) and len(s.targets) == 1 and isinstance(s.targets[0], ast.Subscript):
                        t = s.targets[0]
                        kt = p.trace(t.slice, keys=True)
                        key_ok = any(x[0] == f"param:{mp}" and "askey" not in x for x in kt) and any("elem" in x and "askey" in x for x in kt)
                        val = s.value
                        val_ok = isinstance(val, ast.Call) and callee_name(val) == "pop" and val.args and isinstance(val.args[0], ast.Name) \
                            and val.args[0].id == loop.target.id
                        if from_sig and unsorted and key_ok and val_ok:
                            ok = True
                            detail = "ordered loop over the old keys"
        if ok:
            r.ok({"function": f.qn, "form": detail})
        else:
            r.fail(Finding("C18.order", f, "rename-shape", "the renamed signature is not built as {map[old]: type(old)} in the order of the old signature"))
    r.require_sites(3)
    return r


def rule_fields(repo: Repo) -> RuleResult:
    r = RuleResult("C18.fields", "Action.change_signature renames every part of the action that mentions parameters",
                   "the renamed schema is applicable in the same states and produces the same successors")
    f = repo.func("Action.change_signature")
    got = F.slice_fields(repo, f, f.self_name, "Action", sink="effects")
    need = ["signature", "preconditions", "discrete_effects", "numeric_effects", "conditional_effects", "universal_effects"]
    for fld in need:
        r.site(f"{f.qn} [{fld}]")
        if fld in got:
            r.ok({"field": fld, "visited": True})
        else:
            r.fail(Finding("C18.fields", f, f"field:{fld}", f"Action.change_signature never touches self.{fld}: parameters mentioned there keep their old names"))
    r.require_sites(6)
    return r


def rule_pairs(repo: Repo) -> RuleResult:
    r = RuleResult("C18.pairs", "both components of every (in)equality pair are renamed and the new sets replace the old ones; nested conditions too",
                   "(in)equality constraints follow the renaming")
    f = repo.func("Precondition.change_signature")
    p = L.prov(repo, f)
    mp = _map_param(f)
    for fld in ("equality_preconditions", "inequality_preconditions"):
        r.site(f"{f.qn} [{fld}]")
        ok = False
        for n in ast.walk(f.node):
            if isinstance(n, ast.Assign) and any(isinstance(t, ast.Attribute) and t.attr == fld and isinstance(t.value, ast.Name) and t.value.id == f.self_name
                                                 for t in n.targets):
                tr = p.trace(n.value, keys=True)
                pair_paths = [x for x in tr if any(s.startswith("in:add") for s in x)]
                comps = {s for x in pair_paths for s in x if s.startswith("in:") and s[3:].isdigit()}
                from_same = any(x[:2] == ("self", f"attr:{fld}") for x in tr)
                via_map = any(x[0] == f"param:{mp}" for x in tr)
                if from_same and via_map and comps >= {"in:0", "in:1"}:
                    ok = True
        if ok:
            r.ok({"field": fld, "renamed_pairwise_and_replaced": True})
        else:
            r.fail(Finding("C18.pairs", f, f"pairs:{fld}", f"{fld} is not rebuilt as {{(map[a], map[b])}} from the old pairs and stored back"))
    # nested conditions: their own pairs must be renamed -> some Precondition-typed operand must get change_signature
    r.site(f"{f.qn} [nested conditions]")
    reaches_nested = False
    for c in L.calls_in(f.node):
        if callee_name(c) == "change_signature" and isinstance(c.func, ast.Attribute):
            tr = p.trace(c.func.value)
            # an element of self.operands taken directly (not through __iter__, which flattens nested conditions away)
            if any(x[:2] == ("self", "attr:operands") and "elem" in x for x in tr):
                reaches_nested = True
    it = repo.func("Precondition.__iter__")
    yields_nested = any(isinstance(n, ast.Yield) and n.value is not None and isinstance(n.value, ast.Tuple) for n in ast.walk(it.node)) and \
        not any(isinstance(n, ast.YieldFrom) for n in ast.walk(it.node))
    if reaches_nested or yields_nested:
        r.ok({"nested_conditions_renamed": True})
    else:
        r.fail(Finding("C18.pairs", f, "nested-pairs", "nested conditions are reached only through __iter__, which yields their leaves: the (in)equality pairs of a "
                       "nested and/or/forall node keep the old parameter names"))
    r.require_sites(3)
    return r


def rules(repo: Repo, tier: str) -> List[RuleResult]:
    return [rule_simul(repo), rule_order(repo), rule_fields(repo), rule_pairs(repo)]
