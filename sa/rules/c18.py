"""C18 -- renaming an action's parameters does not change what the action does."""
from __future__ import annotations

import ast
from typing import List, Optional, Set, Tuple

from .. import cfg as C
from .. import lib as L
from ..core import AnalysisError, FuncInfo, Repo, unparse
from ..prov import callee_name
from ..report import Finding, RuleResult
from . import _c18_util as U

EXPLANATION = (
    "All rules look at the public change_signature methods with their private helpers (and shared utilities that receive the "
    "container) inlined, and identify containers, the renaming map and the old names by def-use provenance, not by names or source "
    "shape. C18.simul: a renaming that, inside one loop or comprehension, removes entries from a container and inserts map[k] into "
    "the same container object is a sequential, not a simultaneous substitution (for a permutation such as {?x->?y, ?y->?x} a "
    "freshly inserted key is popped again and parameters are lost); every change_signature must build the renamed container from a "
    "snapshot. C18.order: what is written into self.signature (dict comprehension, loop with d[k] = v, dict(zip()), update, "
    "re-binding) has keys map[old] and values type(old) for the same old parameter, where old ranges over the old signature in its "
    "own order (no sorted / reversed / set, not the order of the renaming map), without a filter (also not next() on the iterator that "
    "feeds the insertion) and from ONE iteration step (two nested iterations over the signature combine every name with every type; "
    "a type taken by position must use the enumerate position of the renamed parameter); when the dict is refilled in "
    "place the old entries are cleared first (clear(), or a loop that deletes every key of a snapshot) and the snapshot is taken before "
    "the clear -- a live view / iterator / generator expression over the signature that is bound to a name is read where it is consumed; "
    "no path to a normal return bypasses the rewriting unless it is taken only for an empty signature. C18.fields: Action.change_signature hands "
    "the renaming map to change_signature of (every element of) each field of Action that mentions parameters and rewrites its own "
    "signature (a call that is conditional inside its loop does not count, nor one that a return can bypass while the field has "
    "elements); CompoundPrecondition and NumericalExpressionTree pass "
    "the map on to their root / leaves; in Precondition.change_signature a renaming call is reachable for every kind of operand "
    "(valuation of the isinstance tests for Predicate / NumericalExpressionTree / nested Precondition, here and in "
    "Precondition.__iter__ when the operands are obtained by iterating the condition; a type test whose operands are exchanged, "
    "isinstance(<class>, <operand>), raises when it is evaluated: for the kinds of operand that reach it nothing counts as renamed). C18.pairs: every component "
    "of each (in)equality pair is looked up in the map (no old name reaches the new set), the pairs come from the same field, "
    "nothing is filtered, pairs are not removed and inserted one by one, and the new set replaces the old one; a nested condition "
    "receives change_signature itself (same valuation with 'the operand is a Precondition'). Before the analysis the flattened "
    "functions are re-spelled in plain forms (getattr / setattr with literal names, operator.attrgetter / itemgetter / methodcaller / "
    "getitem, functools.partial, lambdas and bound methods bound once to a name, map / filter / starmap, loops and comprehensions "
    "over constant tables with the literal tests decided, next(.. for .. in TABLE if ..) dispatch, exhausted generators, "
    "chain.from_iterable of a display, TABLE[<literal>](..) of a constant table of callables, helper(a, *x) of a fixed-arity helper, private "
    "helpers that only compute an expression inside comprehensions, eager comprehensions / generator helpers consumed in the middle of "
    "an expression moved into a statement of their own so that the inliner expands them, helpers of other modules that call private "
    "functions of their own module), and a value that is put into a slot of a tuple / NamedTuple / dataclass record or into an "
    "intermediate container (also through zip / enumerate) and selected again is identified with itself (a set in between counts as "
    "loss of order)."
)
UNDECIDED = "behavioural equivalence of the renamed action (applicability and successors for every argument tuple)"

SITES = ["Predicate.change_signature", "PDDLFunction.change_signature", "Action.change_signature"]
SIG = ("self", "attr:signature")


def _map_param(f: FuncInfo) -> str:
    ps = [p for p in f.params if p != f.self_name]
    if not ps:
        raise AnalysisError(f"{f.qn}: renaming map parameter not found")
    return ps[0]


def _obj_text(obj) -> str:
    return ".".join(s[5:] if s.startswith("attr:") else s for s in obj)


def _site(repo: Repo, spec: str, fields=("signature",)):
    f = U.anchor(repo, spec, fields)
    return f, U.View(repo, f), _map_param(f)


def _from_map(paths, mp: str) -> bool:
    return any(x[0] == f"param:{mp}" for x in paths)


def _is_the_map(v: U.View, e: Optional[ast.AST], mp: str) -> bool:
    """the expression is the renaming map itself (or a plain copy of it)"""
    if e is None:
        return False
    ents = L.map_entries(v.trace(e))
    return bool(ents) and all(k == "whole" and x == (f"param:{mp}",) for k, x in ents)


# ------------------------------------------------------------------------------------------------ C18.simul
def _sequential_writes(v: U.View, obj, mp: str):
    """(insertion, removal) when entries derived from the renaming map are inserted into the object inside a loop that also removes
    entries from it"""
    rep = U.Replacement(v, obj)
    for w in rep.inserts:
        if w.kind == "rebind":
            continue
        lw = U.loops_around(v, w.site)
        if not lw:
            continue
        srcs = [x for x in (w.key, w.value) if x is not None]
        if not any(_from_map(v.trace(x, keys=True), mp) for x in srcs):
            continue
        for rm in rep.removes:
            if any(any(l is l2 for l2 in lw) for l in U.loops_around(v, rm.site)):
                return w, rm
    return None


def rule_simul(repo: Repo, floor: int = 3) -> RuleResult:
    r = RuleResult("C18.simul", "the renamed signature is built from a snapshot, not by pop/insert in place inside one loop",
                   "any injective map, including maps whose new names overlap the old ones")
    for spec in SITES:
        f, v, mp = _site(repo, spec)
        r.site(f.qn)
        hit = _sequential_writes(v, SIG, mp)
        if hit:
            w, rm = hit
            cont = _obj_text(SIG)
            r.fail(Finding("C18.simul", f, f"inplace-rename:{cont}", f"{unparse(w.site, 80)} inserts renamed entries into {cont} inside a loop that also removes "
                           f"entries from it ({unparse(rm.site, 40)}): for a map whose new names overlap the old ones (e.g. a swap) a just-inserted key is "
                           f"popped again and parameters are lost", node=w.site))
        else:
            r.ok({"function": f.qn, "in_place_pop_insert_loop": False})
    r.require_sites(floor)
    return r


# ------------------------------------------------------------------------------------------------ C18.order
def _entries_of(v: U.View, w: U.Write, obj) -> Set[Tuple[str, tuple]]:
    """{('key' | 'value' | 'whole', provenance path)} of what the write puts into the mapping"""
    if w.kind == "insert-item":
        out = {("key", x) for x in v.content(w.key, obj)}
        out |= {("value", x) for x in v.content(w.value, obj)}
        return out
    out = set()
    for kind, x in L.map_entries(v.content(w.value, obj)):
        if kind == "whole":
            # an iterable of (key, value) pairs:  update((k, v) for ..) / dict([(k, v), ..]) / update(list_of_pairs)
            for i, s_ in enumerate(x):
                if s_ in ("in:0", "in:1") and all(U.is_content_step(t) for t in x[i + 1:]) and len(x) > i + 1:
                    kind, x = ("key" if s_ == "in:0" else "value"), tuple(x[:i])
                    break
        out.add((kind, x))
    return out


def _index_use(x: tuple) -> Optional[tuple]:
    """the path of a value that is used as the index of a lookup: (.., 'askey', ..) / (.., 'arg0:pop' | 'arg0:get', ..)"""
    for i, s in enumerate(x):
        if s == "askey" or s in ("arg0:pop", "arg0:get", "arg0:__getitem__"):
            return tuple(x[:i])
    return None


def _judge_signature_entries(ents, mp: str) -> Tuple[Optional[str], dict]:
    """None when the entries are {map[old]: type(old) for old in the old signature, in its order}; else what is wrong"""
    keys_plain, keys_idx, vals_plain, vals_idx, whole = [], [], [], [], []
    for kind, x in ents:
        if x and x[0].startswith(("fresh:", "builtin:")):
            continue
        iu = _index_use(x)
        if kind == "key":
            (keys_idx if iu is not None else keys_plain).append(iu if iu is not None else U.strip_content(x))
        elif kind == "value":
            (vals_idx if iu is not None else vals_plain).append(iu if iu is not None else U.strip_content(x))
        else:
            whole.append(x)
    sample = {"keys": sorted(set(keys_plain))[:3], "old_names": sorted(set(keys_idx))[:3], "values": sorted(set(vals_plain))[:3]}
    for x in whole:
        lost = [s for s in x if s.startswith(U.ORDER_LOST)]
        if lost:
            return f"the renamed entries are put into another order ({lost[0]})", sample
        return f"a mapping is copied as it is ({'/'.join(x)}): its keys are not renamed", sample
    if not keys_plain:
        return "no key of the new signature is looked up in the renaming map", sample
    for k in keys_plain:
        if not (len(k) == 2 and k[0] == f"param:{mp}" and k[1] in U.LOOKUPS):
            lost = [s for s in k[2:] if s.startswith(U.ORDER_LOST)]
            if len(k) > 2 and k[0] == f"param:{mp}" and k[1] in U.LOOKUPS and lost:
                return f"the renamed entries pass through a container that does not keep their order ({lost[0]})", sample
            if k[0] == f"param:{mp}":
                return f"the new names are taken from the renaming map by iteration ({'/'.join(k[1:])}), so their order is the map's, not the signature's", sample
            return f"a key of the new signature is not map[old] ({'/'.join(k)})", sample
    if not keys_idx:
        return "the name looked up in the renaming map is not an old parameter", sample
    for k in keys_idx:
        c = U.ordered_source(k, SIG)
        if c is None:
            return f"the name looked up in the renaming map does not come from the old signature ({'/'.join(k)})", sample
        if c[0] == "reordered":
            return f"the old parameters are visited in another order ({c[1]})", sample
        if c[0] != "key":
            return f"the name looked up in the renaming map is not a parameter name of the old signature ({c[0]} {c[1] or ''})", sample
    if not vals_plain:
        return "the new signature has no types", sample
    by_lookup = by_position = False
    for x in vals_plain:
        c = U.ordered_source(x, SIG)
        if c is None:
            return f"a type of the new signature does not come from the old signature ({'/'.join(x)})", sample
        if c[0] == "reordered":
            return f"the old types are visited in another order ({c[1]})", sample
        if c[0] == "lookup":
            by_lookup = True
        elif c == ("positional", "values"):
            by_position = True
        elif c[0] == "value":
            # the type and the name belong to the same item of the iteration
            if "call:items" in x and x[-1] in ("unpack:1", "item:1") and not any(k == x[:-1] + (s,) for k in keys_idx for s in ("unpack:0", "item:0")):
                return "the type does not belong to the parameter that is renamed (different iterations)", sample
        else:
            return f"a value of the new signature is not the type of an old parameter ({c[0]} {c[1] or ''})", sample
    if by_position:
        # list(old.values())[i]: i must be the position (enumerate) of the very parameter that is renamed in this step
        if by_lookup or not vals_idx:
            return "the type is taken from a position that is not the position of the renamed parameter", sample
        for k in vals_idx:
            own = len(k) >= 3 and k[-3] == "arg0:enumerate" and k[-2] == "elem" and k[-1] in ("unpack:0", "item:0") \
                and U.ordered_source(k[:-3], SIG) in (("key", None), ("object", None)) \
                and any(k2 == k[:-1] + (s_,) for k2 in keys_idx for s_ in ("unpack:1", "item:1"))
            if not own:
                return f"the type is taken from a position that is not the position of the renamed parameter ({'/'.join(k)})", sample
    elif by_lookup:
        if not vals_idx:
            return "the type is looked up under something else than the old name", sample
        for k in vals_idx:
            if k not in keys_idx:
                return f"the type is looked up under another name than the one that is renamed ({'/'.join(k)})", sample
    return None, sample


def _nonempty_atom(v: U.View, obj):
    """matcher: tests of `the container has entries` -> atom 'nonempty':  X / len(X) / len(X) > 0 / len(X) != 0 / len(X) >= 1,
    '!nonempty' for len(X) == 0 / len(X) < 1 / X == {} (X: the object, a view or an order-keeping copy of it)"""
    views = set(U.ORDER_PASS) | {"call:items", "call:keys", "call:values"}

    def is_container(e) -> bool:
        if not isinstance(e, (ast.Name, ast.Attribute, ast.Call)):
            return False
        tr = v.trace(e)
        return bool(tr) and all(x[:len(obj)] == tuple(obj) and all(s in views for s in x[len(obj):]) for x in tr)

    def is_len(e) -> bool:
        return isinstance(e, ast.Call) and isinstance(e.func, ast.Name) and e.func.id == "len" and len(e.args) == 1 and not e.keywords and is_container(e.args[0])

    def m(e):
        if is_len(e):
            return "nonempty"
        if isinstance(e, ast.Compare) and len(e.ops) == 1:
            left, op, right = e.left, e.ops[0], e.comparators[0]
            if is_len(right) and isinstance(left, ast.Constant):
                flip = {ast.Lt: ast.Gt, ast.Gt: ast.Lt, ast.LtE: ast.GtE, ast.GtE: ast.LtE}
                left, right, op = right, left, flip.get(type(op), type(op))()
            if is_len(left) and isinstance(right, ast.Constant) and type(right.value) is int:
                k = right.value
                table = {(ast.Eq, 0): "!nonempty", (ast.NotEq, 0): "nonempty", (ast.Gt, 0): "nonempty", (ast.GtE, 1): "nonempty",
                         (ast.Lt, 1): "!nonempty", (ast.LtE, 0): "!nonempty"}
                return table.get((type(op), k))
            if isinstance(op, (ast.Eq, ast.NotEq)) and is_container(left) and U._is_empty_literal(right):
                return "!nonempty" if isinstance(op, ast.Eq) else "nonempty"
            return None
        if isinstance(e, (ast.Name, ast.Attribute)) and isinstance(getattr(e, "ctx", None), ast.Load) and is_container(e):
            return "nonempty"
        return None

    return m


def rule_order(repo: Repo) -> RuleResult:
    r = RuleResult("C18.order", "the renamed signature maps every old parameter (in order) to map[old] with its own type",
                   "same number, order and types of parameters")
    for spec in SITES:
        f, v, mp = _site(repo, spec)
        r.site(f.qn)
        rep = U.Replacement(v, SIG)
        if not rep.inserts:
            r.fail(Finding("C18.order", f, "rename-shape", "the signature is never rewritten: the renamed signature is not built as {map[old]: type(old)}"))
            continue
        why, sample, at = None, {}, None
        for w in rep.inserts:
            at = w.site
            if w.kind == "insert-elem":
                why = f"{unparse(w.site, 60)} is not a mapping insertion"
                break
            why, sample = _judge_signature_entries(_entries_of(v, w, SIG), mp)
            if why is None:
                flt = U.filtered(v, w.site, w.value)
                if flt:
                    why = f"not every parameter is carried over: {flt}"
            if why is None:
                why = U.crossed_iterations(v, w.site, w.value, SIG)
            if why:
                break
        if why:
            r.fail(Finding("C18.order", f, "rename-shape", f"the renamed signature is not built as {{map[old]: type(old)}} in the order of the old signature: {why}",
                           node=at), sample)
            continue
        kept = rep.old_content_dropped()
        if kept:
            r.fail(Finding("C18.order", f, "old-names-replaced", f"the old parameters are not replaced by the renamed ones: {kept}", node=rep.inserts[0].site), sample)
            continue
        # ... and on EVERY call: no way from the entry to a normal return may bypass the rewriting (a guard that takes the object for
        # "already renamed" is wrong whenever the new names overlap the old ones)
        g = C.cfg_of(f.node)
        pmf = L.parents_of(f)
        passed = set()
        for w in rep.inserts:
            n = g.node_containing(w.site) if not isinstance(w.site, ast.stmt) else g.node_of(w.site)
            if n is not None:
                passed.add(n)
            cur = w.site
            while cur in pmf:
                cur = pmf[cur]
                if isinstance(cur, (ast.For, ast.While)):
                    passed.add(g.node_of(cur))      # a loop over the old parameters that performs the rewriting (no turn for an empty signature)
        passed.discard(None)
        # (a path that is only taken when the old signature is empty rewrites nothing because there is nothing to rewrite)
        if passed and g.exit in C.reachable_from(g, g.entry, avoid=passed) \
                and g.exit in L.Guards(f, _nonempty_atom(v, SIG)).reach({"nonempty": True}, avoid=passed):
            r.fail(Finding("C18.order", f, "rename-skipped", "some path through the method returns without rewriting the signature: the object keeps its old "
                           "parameter names while the rest of the action is renamed", node=rep.inserts[0].site), sample)
            continue
        r.ok({"function": f.qn, "form": sorted({w.kind for w in rep.inserts}), **sample})
    r.require_sites(3)
    return r


# ------------------------------------------------------------------------------------------------ C18.fields
def _rename_calls(v: U.View, mp: str) -> List[ast.Call]:
    """X.change_signature(<the renaming map>)"""
    out = []
    for c in L.calls_in(v.f.node):
        if callee_name(c) == "change_signature" and isinstance(c.func, ast.Attribute):
            arg = c.args[0] if c.args else (c.keywords[0].value if c.keywords else None)
            if _is_the_map(v, arg, mp):
                out.append(c)
    return out


def _passes_map_to(v: U.View, mp: str, prefix: tuple, every: bool = False) -> bool:
    """some X.change_signature(map) has a receiver that derives from `prefix` (every=True: and is not skipped for some elements)"""
    for c in _rename_calls(v, mp):
        if any(x[:len(prefix)] == prefix for x in v.trace(c.func.value)) and not (every and U.filtered(v, c)):
            return True
    return False


def _field_bypassed(v: U.View, mp: str, prefix: tuple) -> bool:
    """a normal return is reachable from the entry without passing any X.change_signature(map) on (an element of) the field --
    other than by the field being empty"""
    g = v.g
    passed = set()
    for c in _rename_calls(v, mp):
        if not any(x[:len(prefix)] == prefix for x in v.trace(c.func.value)):
            continue
        passed.add(v.node_of(c))
        for a in v.ancestors(c):
            if isinstance(a, (ast.For, ast.While)):
                passed.add(g.node_of(a))        # no turn of a loop over an empty field
    passed.discard(None)
    if not passed or g.exit not in C.reachable_from(g, g.entry, avoid=passed):
        return False
    return g.exit in L.Guards(v.f, _nonempty_atom(v, prefix)).reach({"nonempty": True}, avoid=passed)


def rule_fields(repo: Repo) -> RuleResult:
    r = RuleResult("C18.fields", "Action.change_signature renames every part of the action that mentions parameters",
                   "the renamed schema is applicable in the same states and produces the same successors")
    need = ["signature", "preconditions", "discrete_effects", "numeric_effects", "conditional_effects", "universal_effects"]
    f, v, mp = _site(repo, "Action.change_signature", need)
    for fld in need:
        r.site(f"{f.qn} [{fld}]")
        if fld == "signature":
            rep = U.Replacement(v, SIG)
            ok = any(_from_map(v.content(x, SIG), mp) for w in rep.inserts for x in (w.key, w.value) if x is not None)
        else:
            ok = _passes_map_to(v, mp, ("self", f"attr:{fld}"), every=True)
        if not ok and fld != "signature":
            # a renaming call on something reached through an attribute name that is computed at run time: the field cannot be told
            dyn = [c for c in _rename_calls(v, mp) if any(x[:2] == ("self", "arg0:getattr") for x in v.raw_trace(c.func.value))]
            if dyn:
                raise AnalysisError(f"{f.qn}: {unparse(dyn[0], 60)} is called on getattr(self, <name that is not a literal of a constant table>): "
                                    f"cannot tell which fields are renamed")
        if ok and fld != "signature" and _field_bypassed(v, mp, ("self", f"attr:{fld}")):
            r.fail(Finding("C18.fields", f, f"field:{fld}", f"some path through Action.change_signature returns without renaming self.{fld} although it has elements: "
                           f"parameters mentioned there keep their old names"))
        elif ok:
            r.ok({"field": fld, "visited": True})
        elif fld != "signature" and _passes_map_to(v, mp, ("self", f"attr:{fld}")):
            r.fail(Finding("C18.fields", f, f"field:{fld}", f"Action.change_signature renames only some elements of self.{fld} (the call is conditional / the loop skips "
                           f"elements): parameters mentioned in the others keep their old names"))
        else:
            r.fail(Finding("C18.fields", f, f"field:{fld}", f"Action.change_signature never touches self.{fld}: parameters mentioned there keep their old names"))
    # the containers in between hand the map on
    for spec, fld, what in (("CompoundPrecondition.change_signature", "root", "the root condition"),
                            ("NumericalExpressionTree.change_signature", "root", "the function leaves of the expression tree")):
        g_, gv, gmp = _site(repo, spec, (fld,))
        r.site(f"{g_.qn} [{fld}]")
        if _passes_map_to(gv, gmp, ("self", f"attr:{fld}")):
            r.ok({"function": g_.qn, "passes_map_to": f"self.{fld}"})
        else:
            r.fail(Finding("C18.fields", g_, f"field:{fld}", f"{spec} does not hand the renaming map to {what}: parameters mentioned there keep their old names"))
    # every kind of operand of a (nested) condition is renamed
    pf, pv, pmp = _site(repo, "Precondition.change_signature", ("operands",))
    for kind in OPERAND_KINDS:
        what = "operands:nested-leaves" if kind == "Precondition" else f"operands:{kind}"
        r.site(f"{pf.qn} [{what}]")
        how = _operand_renaming(repo, pv, pmp, kind)
        if ("inner" if kind == "Precondition" else "itself") in how:
            r.ok({"operand_kind": kind, "renamed": sorted(how)})
        elif kind == "Precondition":
            r.fail(Finding("C18.fields", pf, what, "the predicates / numeric conditions inside nested conditions are never handed the renaming map"))
        elif TYPE_TEST_RAISES in how:
            r.fail(Finding("C18.fields", pf, what, f"for an operand of class {kind} the dispatch evaluates isinstance(<class>, <operand>) -- the operands of the type test "
                           f"are exchanged, it raises TypeError: the operand is never handed the renaming map and the action is left half renamed"))
        else:
            r.fail(Finding("C18.fields", pf, what, f"operands of class {kind} are never handed the renaming map: they keep the old parameter names"))
    r.require_sites(11)
    return r


# ------------------------------------------------------------------------------------------------ C18.pairs
def _judge_pairs(v: U.View, w: U.Write, obj, mp: str) -> Optional[str]:
    """None when what the write inserts are the old pairs of the same field with every component looked up in the map"""
    if w.value is None:
        return "nothing is inserted"
    tr = v.content(w.value, obj)
    mapped, olds = [], []
    for x in tr:
        if x[0].startswith(("fresh:", "builtin:")):
            continue
        iu = _index_use(x)
        if iu is not None:
            olds.append(iu)
            continue
        x = U.strip_content(x, unordered=True)
        if len(x) == 2 and x[0] == f"param:{mp}" and x[1] in U.LOOKUPS:
            mapped.append(x)
        elif x[:len(obj)] == tuple(obj):
            return f"a component of the old pairs reaches the new set without being renamed ({'/'.join(x[len(obj):]) or 'the old set itself'})"
        else:
            return f"the new set contains something that is not map[old] ({'/'.join(x)})"
    if not mapped:
        return "no component is looked up in the renaming map"
    if not olds:
        return "the names looked up in the renaming map are not components of the old pairs"
    comps = set()
    for k in olds:
        if k[:len(obj)] != tuple(obj) or "elem" not in k:
            return f"the names looked up in the renaming map do not come from the pairs of this field ({'/'.join(k)})"
        rest = k[len(obj):]
        tail = rest[rest.index("elem") + 1:]
        if any(s.startswith(("in:", "attr:", "call:")) for s in tail):
            return f"the names looked up in the renaming map are not components of the old pairs ({'/'.join(k)})"
        comps.add(tail[-1] if tail else "whole")
    # explicit components: both of them
    idx = {c[-1] for c in comps if c.startswith(("unpack:", "item:")) and c[-1].isdigit()}
    if idx and not {"0", "1"} <= idx:
        return f"only component {sorted(idx)} of a pair is renamed"
    return None


# ---- which kind of operand reaches X.change_signature(map): valuation of the isinstance tests
OPERAND_KINDS = ("Predicate", "NumericalExpressionTree", "Precondition")
TYPE_TEST_RAISES = "type-test-raises"


def _kind_atom(repo: Repo, f: FuncInfo):
    """matcher: isinstance(x, T) -> atom 'is:<class names of T>' (T may be a local or module-level tuple of classes)"""
    def names(t, depth=0):
        if isinstance(t, ast.Tuple):
            return [n for e_ in t.elts for n in names(e_, depth)]
        if isinstance(t, ast.Attribute):
            return [t.attr]
        if isinstance(t, ast.BinOp) and isinstance(t.op, ast.Add):
            return names(t.left, depth) + names(t.right, depth)          # CLASSES + (Other,)
        if isinstance(t, ast.Constant) and isinstance(t.value, str):
            return [t.value]
        if isinstance(t, ast.Name) and depth < 4:
            local = [n.value for n in ast.walk(f.node) if isinstance(n, ast.Assign) and any(isinstance(x, ast.Name) and x.id == t.id for x in n.targets)]
            local += [n.value for n in ast.walk(f.node) if isinstance(n, ast.AnnAssign) and isinstance(n.target, ast.Name) and n.target.id == t.id and n.value is not None]
            if len(local) == 1:
                return names(local[0], depth + 1)
            if local:
                return ["?"]
            r = repo.lookup(f.mod.name, t.id)
            if r and r[0] == "const":
                return names(r[1], depth + 1)
            if t.id in repo.classes or (r and r[0] in ("class", "external")):
                return [t.id]
            if t.id in ("str", "int", "float", "bool", "tuple", "list", "set", "dict", "object"):
                return [t.id]
        return ["?"]

    def m(e):
        if isinstance(e, ast.Call) and isinstance(e.func, ast.Name) and e.func.id == "isinstance" and len(e.args) == 2:
            ns = names(e.args[1])
            if "?" in ns:
                return None
            return "is:" + "|".join(sorted(set(ns)))
        return None

    m.class_names = names
    return m


def _ill_formed_type_tests(repo: Repo, f: FuncInfo) -> List[ast.Call]:
    """isinstance(<a class>, <not a class>): the operands of the type test are exchanged -- evaluating it raises TypeError (the second
    operand of isinstance must be a type or a tuple of types), so whatever is dispatched behind it is never reached"""
    names = _kind_atom(repo, f).class_names
    bound = {n.id for n in ast.walk(f.node) if isinstance(n, ast.Name) and isinstance(n.ctx, ast.Store)} | set(f.params)
    out = []
    for e in L.calls_in(f.node):
        if not (isinstance(e.func, ast.Name) and e.func.id == "isinstance" and len(e.args) == 2 and not e.keywords):
            continue
        a, b = e.args
        if not (isinstance(a, ast.Name) and a.id not in bound):
            continue
        ra = repo.lookup(f.mod.name, a.id)
        is_class = a.id in repo.classes or bool(ra and ra[0] == "class")
        if is_class and "?" in names(b) and not (isinstance(b, ast.Name) and (b.id in repo.classes or b.id not in bound)):
            out.append(e)
    return out


def _scenario(repo: Repo, G: L.Guards, kind: str) -> dict:
    """valuation of the isinstance atoms when the tested object is an instance of exactly `kind` (tests against a subclass of
    `kind` stay undecided)"""
    up = set(repo.mro(kind)) | {kind, "object"}
    val = {}
    for a in G.atoms_seen:
        if not a.startswith("is:"):
            continue
        ns = a[3:].split("|")
        if any(n in up for n in ns):
            val[a] = True
        elif any(kind in repo.mro(n) for n in ns):
            continue
        else:
            val[a] = False
    return val


def _iter_delivers(repo: Repo, kind: str) -> Set[str]:
    """what iterating a Precondition delivers for an operand of class `kind`: 'itself' (the operand is yielded) and / or 'inner'
    (the items of iterating the operand are yielded)"""
    it = U.anchor(repo, "Precondition.__iter__")
    p = L.prov(repo, it)
    G = L.Guards(it, _kind_atom(repo, it))
    val = _scenario(repo, G, kind)
    seen = G.reach(val)
    under = G.under(val, seen)
    out: Set[str] = set()
    for n in ast.walk(it.node):
        if isinstance(n, (ast.Yield, ast.YieldFrom)) and n.value is not None and G.reaches_expr(val, n, seen=seen):
            for x in p.trace(n.value, under=under):
                if x[:2] == ("self", "attr:operands") and "elem" in x:
                    tail = x[x.index("elem") + 1:]
                    if isinstance(n, ast.YieldFrom):
                        out.add("inner")
                    elif all(s.startswith("in:") for s in tail):
                        out.add("itself")
                    elif "elem" in tail and not any(s.startswith("attr:") for s in tail):
                        out.add("inner")
    return out


def _operand_renaming(repo: Repo, v: U.View, mp: str, kind: str) -> Set[str]:
    """how operands of class `kind` get change_signature(map) in Precondition.change_signature:
    'itself' (called on the operand) / 'inner' (called on what iterating the operand delivers)"""
    f = v.f
    G = L.Guards(f, _kind_atom(repo, f))
    val = _scenario(repo, G, kind)
    seen = G.reach(val)
    under = G.under(val, seen)
    out: Set[str] = set()
    delivered = None
    # a type test with exchanged operands that is evaluated for an operand of this kind raises: nothing behind it renames the operand
    broken = [t for t in _ill_formed_type_tests(repo, f) if G.reaches_expr(val, t, seen=seen)]
    if broken:
        out.add(TYPE_TEST_RAISES)
    for c in ([] if broken else _rename_calls(v, mp)):
        if not G.reaches_expr(val, c, seen=seen):
            continue
        for x in v.trace(c.func.value, under=under):
            if x[0] != "self" or "elem" not in x:
                continue
            i = x.index("elem")
            pre, post = x[1:i], x[i + 1:]
            handed_on = lambda steps: all(s in U.ORDER_PASS or s.startswith("arg") or s == "call:__iter__" for s in steps)
            if pre[:1] == ("attr:operands",) and handed_on(pre[1:]) and not any(s.startswith(("attr:", "call:")) for s in post):
                out.add("itself")       # an operand taken directly
            elif handed_on(pre):
                # an item of iterating the condition itself: what does Precondition.__iter__ deliver for this kind of operand?
                if delivered is None:
                    delivered = _iter_delivers(repo, kind)
                if "itself" in delivered:
                    out.add("itself")
    # the calls made for the other kinds of items (the leaves of a nested condition are predicates / expressions)
    if kind == "Precondition":
        if "itself" in out:
            out.add("inner")            # the nested condition renames its own operands
        else:
            if delivered is None and any(x[0] == "self" and "elem" in x and "attr:operands" not in x[:x.index("elem")]
                                         for c in _rename_calls(v, mp) for x in v.trace(c.func.value)):
                delivered = _iter_delivers(repo, kind)
            if delivered and "inner" in delivered:
                out.add("inner")
    return out


def rule_pairs(repo: Repo) -> RuleResult:
    r = RuleResult("C18.pairs", "both components of every (in)equality pair are renamed and the new sets replace the old ones; nested conditions too",
                   "(in)equality constraints follow the renaming")
    flds = ("equality_preconditions", "inequality_preconditions")
    f, v, mp = _site(repo, "Precondition.change_signature", flds + ("operands",))
    for fld in flds:
        r.site(f"{f.qn} [{fld}]")
        obj = ("self", f"attr:{fld}")
        rep = U.Replacement(v, obj)
        why, at = None, None
        if not rep.inserts:
            why = "no new set is stored"
        for w in rep.inserts:
            at = w.site
            why = _judge_pairs(v, w, obj, mp)
            if why is None:
                flt = U.filtered(v, w.site, w.value)
                if flt:
                    why = f"not every pair is carried over: {flt}"
            if why:
                break
        if why is None and rep.sequential() is not None:
            w, rm = rep.sequential()
            at, why = w.site, f"pairs are removed and inserted one by one in the same loop ({unparse(rm.site, 40)}): a renamed pair can be removed again"
        if why is None:
            why = rep.old_content_dropped()
        if why is None:
            r.ok({"field": fld, "renamed_pairwise_and_replaced": True})
        else:
            r.fail(Finding("C18.pairs", f, f"pairs:{fld}", f"{fld} is not rebuilt as {{(map[a], map[b])}} from the old pairs and stored back: {why}", node=at))
    # nested conditions: their own pairs must be renamed -> a nested Precondition operand must itself get change_signature
    r.site(f"{f.qn} [nested conditions]")
    if "itself" in _operand_renaming(repo, v, mp, "Precondition"):
        r.ok({"nested_conditions_renamed": True})
    else:
        r.fail(Finding("C18.pairs", f, "nested-pairs", "nested conditions are reached only through __iter__, which yields their leaves: the (in)equality pairs of a "
                       "nested and/or/forall node keep the old parameter names"))
    r.require_sites(3)
    return r


def rules(repo: Repo, tier: str) -> List[RuleResult]:
    from . import c08
    # (re-spelled in plain forms like the anchors: a call through a constant table of lambdas is the lambda's body ..)
    renamers = [U.respelled(repo, f) for f in repo.all_funcs() if f.name == "change_signature"]
    return [rule_simul(repo), rule_order(repo), rule_fields(repo), rule_pairs(repo),
            # every occurrence is renamed: the objects to rename must not be collected in a dict keyed by a part of them (two leaves of
            # one expression tree that mention the same fluent share their id)
            c08.rule_nocollapse(repo, "C18.nocollapse", renamers, floor=4)]
