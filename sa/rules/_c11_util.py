"""Value-flow evaluator used by C11 (local engine, candidate for promotion into sa/).

`Flow(repo, f).value(expr)` describes *how the value of an expression was computed* as a small term:

    const(value)                         a folded constant (module constants, f-strings / '+' of constants)
    leaf(name)                           something that is not computed here: 'param:x', 'self', 'global:x', 'builtin:x', 'unknown:..'
    selfattr(name)                       self.<name> (no class-level definition): the driver may continue in the stores of __init__
    call(name, recv, args, kw)           method call on `recv` (str / file / regex methods ...) or, with recv None, a function call whose
                                         name is canonical ('re.sub', 'open', 'deque', 'itertools.chain.from_iterable' -- whatever the
                                         import style; <compiled>.sub(r, s) is normalised to re.sub(pattern, r, s, flags))
    elem(v) / item(v, i) / slice / attr  an element of iterating v / v[i] / v[a:b] / v.name
    coll([(mode, v, site)])              a container built here: mode 'one' = v is an element, 'many' = all elements of v are elements
                                         (list / generator / comprehension, append / extend / += in loops, yield / yield from of a
                                         generator helper)
    alt([v, ..])                         one of several (reaching definitions, conditional expression, list concatenation)

Local names are followed through reaching definitions (so intermediate variables, renamed locals, loops vs. comprehensions and
`with ... as` are all transparent), calls of repository functions that the inliner left in place (generators, public helpers) are
evaluated in the callee with the arguments bound.  `chains(v, resolve_attr)` linearises a term into the list of operation chains
(result -> ... -> root) that a rule can then judge step by step.  Nothing of the analysed code is executed.
"""
from __future__ import annotations

import ast
from typing import Callable, Dict, List, Optional, Tuple

from .. import cfg as C
from .. import lib as L
from ..core import AnalysisError, FuncInfo, Repo
from ..inline import flatten

ADD_ONE = ("append", "add", "appendleft")
ADD_MANY = ("extend", "update", "extendleft")
PASS_CALLS = {"list", "tuple", "deque", "iter", "str"}
SHORT = {"collections.deque": "deque", "pathlib.Path": "Path", "pathlib.PurePath": "Path", "io.open": "open", "builtins.open": "open",
         "itertools.chain.from_iterable": "chain.from_iterable", "itertools.chain": "chain"}
RE_METHODS = ("sub", "subn", "findall", "finditer", "split", "match", "search", "fullmatch")


class V:
    __slots__ = ("kind", "name", "recv", "args", "kw", "value", "parts", "node", "ctx")

    def __init__(self, kind, name="", recv=None, args=(), kw=None, value=None, parts=(), node=None, ctx=None):
        self.kind, self.name, self.recv, self.args, self.kw = kind, name, recv, list(args), dict(kw or {})
        self.value, self.parts, self.node, self.ctx = value, list(parts), node, ctx

    def __repr__(self):
        if self.kind == "const":
            return f"const({self.value!r})"
        if self.kind in ("leaf", "selfattr"):
            return f"{self.kind}({self.name})"
        if self.kind == "call":
            return f"{self.recv!r}.{self.name}({', '.join(map(repr, self.args))})" if self.recv is not None else f"{self.name}({', '.join(map(repr, self.args))})"
        if self.kind in ("elem", "item", "attr", "slice"):
            return f"{self.kind}[{self.value if self.kind != 'attr' else self.name}]({self.recv!r})"
        if self.kind == "coll":
            return "coll(" + ", ".join(f"{m}:{v!r}" for m, v, _s in self.parts) + ")"
        return f"{self.kind}({', '.join(map(repr, self.parts))})"


def const_of(v: Optional[V]) -> Tuple[bool, object]:
    if v is not None and v.kind == "const":
        return True, v.value
    return False, None


def alt(vs: List[V]) -> V:
    flat: List[V] = []
    for v in vs:
        if v.kind == "alt":
            flat.extend(v.parts)
        else:
            flat.append(v)
    out, seen = [], set()
    for v in flat:
        if id(v) not in seen:
            seen.add(id(v))
            out.append(v)
    return out[0] if len(out) == 1 else V("alt", parts=out)


def elem(v: V) -> V:
    if v.kind == "alt":
        return alt([elem(x) for x in v.parts])
    if v.kind == "coll":
        return alt([x if m == "one" else elem(x) for m, x, _s in v.parts])
    if v.kind == "call" and v.recv is None:
        if v.name in PASS_CALLS and v.args:
            return elem(v.args[0])
        if v.name == "chain.from_iterable" and v.args:
            return elem(elem(v.args[0]))
        if v.name == "chain":
            return alt([elem(a) for a in v.args])
        if v.name == "map" and len(v.args) == 2 and v.args[0].kind == "leaf" and v.args[0].name.startswith("global:str."):
            return V("call", v.args[0].name[len("global:str."):], recv=elem(v.args[1]), node=v.node, ctx=v.ctx)
        if v.name == "map" and len(v.args) == 2 and v.args[0].kind == "lambda" and v.args[0].ctx is not None:
            out = v.args[0].ctx.apply_lambda(v.args[0], [elem(v.args[1])])
            if out is not None:
                return out
        if v.name == "filter" and len(v.args) == 2:
            return V("call", "filter", args=[v.args[0], elem(v.args[1])], node=v.node, ctx=v.ctx)
    return V("elem", recv=v, node=v.node, ctx=v.ctx)


def item(v: V, idx, node=None, ctx=None) -> V:
    if v.kind == "alt":
        return alt([item(x, idx, node, ctx) for x in v.parts])
    if v.kind == "elem" and v.recv.kind == "call" and v.recv.recv is None and v.recv.name == "enumerate" and idx == 1 and v.recv.args:
        return elem(v.recv.args[0])
    return V("item", recv=v, value=idx, node=node or v.node, ctx=ctx or v.ctx)


class Flow:
    def __init__(self, repo: Repo, f: Optional[FuncInfo], home: Optional[FuncInfo] = None, env: Optional[Dict[str, V]] = None,
                 stack: Tuple[str, ...] = (), modname: Optional[str] = None, cls: Optional[str] = None, guards=None, valuation=None):
        """guards / valuation (an sa.lib.Guards of f and a valuation of its atoms): evaluate the flow in the world where the atoms have
        these values -- conditional expressions take the decided branch, only definitions that can reach a use along a path the
        valuation allows count"""
        self.repo, self.f = repo, f
        self.G, self.val = guards, valuation
        self._seen_under = guards.reach(valuation) if guards is not None else None
        self._valfn = guards.under(valuation, self._seen_under)[0] if guards is not None else None
        self._live_memo: Dict[Tuple[str, int], set] = {}
        self.home = home or f
        self.env = env or {}
        self.stack = stack
        self.lenv: Dict[str, V] = {}
        self.modname = modname if f is None else f.mod.name
        self.cls = cls if f is None else f.cls
        if f is not None:
            self.g = C.cfg_of(f.node)
            self.rd = L.rd_of(f)
            self.p = L.prov(repo, f)
            self._content: Dict[str, List[Tuple[str, ast.AST, ast.AST]]] = {}
            for nd in ast.walk(f.node):
                if isinstance(nd, ast.Call) and isinstance(nd.func, ast.Attribute) and isinstance(nd.func.value, ast.Name):
                    if nd.func.attr in ADD_ONE + ADD_MANY and len(nd.args) == 1:
                        self._content.setdefault(nd.func.value.id, []).append(("one" if nd.func.attr in ADD_ONE else "many", nd.args[0], nd))
                    elif nd.func.attr == "insert" and len(nd.args) == 2:
                        self._content.setdefault(nd.func.value.id, []).append(("one", nd.args[1], nd))

    # ------------------------------------------------------------------ public
    def value(self, e: ast.AST) -> V:
        at = None
        if self.f is not None:
            try:
                at = self.p.node_of(e)
            except KeyError:
                at = None
        return self._value(e, at, frozenset(), 0)

    def apply_lambda(self, lam: V, args: List[V]) -> Optional[V]:
        """the value of the body of a lambda (evaluated in this function) for the given positional arguments"""
        node = lam.node
        names = [a.arg for a in node.args.args]
        if len(names) != len(args) or node.args.vararg or node.args.kwarg:
            return None
        at, seen, depth = lam.value
        old = self.lenv
        self.lenv = dict(old, **dict(zip(names, args)))
        try:
            return self._value(node.body, at, seen, depth + 1)
        finally:
            self.lenv = old

    def stores(self, attr: str) -> List[Tuple[V, ast.AST]]:
        """values assigned to self.<attr> in this function"""
        out = []
        for n in ast.walk(self.f.node):
            tgts = n.targets if isinstance(n, ast.Assign) else ([n.target] if isinstance(n, (ast.AnnAssign, ast.AugAssign)) and n.value is not None else [])
            for t in tgts:
                if isinstance(t, ast.Attribute) and t.attr == attr and isinstance(t.value, ast.Name) and t.value.id == self.f.self_name:
                    out.append((self.value(n.value), n))
        return out

    # ------------------------------------------------------------------ helpers
    def _leaf(self, name: str, node=None) -> V:
        return V("leaf", name, node=node, ctx=self)

    def _is_local(self, n: ast.Name, at) -> bool:
        if self.f is None or at is None:
            return False
        if self.p._comp_binding(n) is not None:
            return True
        return bool(self.rd.defs_reaching(at, n.id))

    def canon(self, e: ast.AST, at) -> Optional[str]:
        """canonical dotted name of a function expression rooted at an imported module / external symbol / builtin"""
        parts: List[str] = []
        cur = e
        while isinstance(cur, ast.Attribute):
            parts.append(cur.attr)
            cur = cur.value
        if not isinstance(cur, ast.Name) or self._is_local(cur, at):
            return None
        r = self.repo.lookup(self.modname, cur.id)
        if r is None:
            base = cur.id
        elif r[0] == "module":
            base = r[1]
        elif r[0] == "external":
            base = ".".join(x for x in r[1] if x)
        else:
            return None
        name = ".".join([base] + parts[::-1])
        return SHORT.get(name, name)

    def _class_attr(self, cname: Optional[str], attr: str) -> Optional[V]:
        seen = set()
        while cname and cname in self.repo.classes and cname not in seen:
            seen.add(cname)
            ci = self.repo.classes[cname]
            for st in ci.node.body:
                val = None
                if isinstance(st, ast.Assign) and any(isinstance(t, ast.Name) and t.id == attr for t in st.targets):
                    val = st.value
                elif isinstance(st, ast.AnnAssign) and isinstance(st.target, ast.Name) and st.target.id == attr and st.value is not None:
                    val = st.value
                if val is not None:
                    return Flow(self.repo, None, home=self.home, modname=ci.mod, cls=cname).value(val)
            bases = getattr(ci, "bases", [])
            cname = bases[0] if bases else None
        return None

    # ------------------------------------------------------------------ evaluation
    def _value(self, e: ast.AST, at, seen: frozenset, depth: int) -> V:
        if depth > 60:
            return self._leaf("unknown:depth", e)
        T = lambda x: self._value(x, at, seen, depth + 1)
        if isinstance(e, ast.Constant):
            return V("const", value=e.value, node=e, ctx=self)
        if isinstance(e, ast.JoinedStr):
            out = []
            for x in e.values:
                if isinstance(x, ast.Constant):
                    out.append(str(x.value))
                    continue
                ok, v = const_of(T(x.value)) if isinstance(x, ast.FormattedValue) and x.format_spec is None and x.conversion == -1 else (False, None)
                if not ok or not isinstance(v, (str, int)):
                    return self._leaf("unknown:fstring", e)
                out.append(str(v))
            return V("const", value="".join(out), node=e, ctx=self)
        if isinstance(e, ast.Name):
            return self._name(e, at, seen, depth)
        if isinstance(e, ast.Attribute):
            base = T(e.value)
            if base.kind == "leaf" and base.name == "self":
                ca = self._class_attr(self.cls, e.attr)
                return ca if ca is not None else V("selfattr", e.attr, node=e, ctx=self)
            if base.kind == "leaf" and base.name.startswith("class:"):
                ca = self._class_attr(base.name[6:], e.attr)
                if ca is not None:
                    return ca
            if base.kind == "leaf" and base.name.startswith("global:"):
                return self._leaf(base.name + "." + e.attr, e)
            return V("attr", e.attr, recv=base, node=e, ctx=self)
        if isinstance(e, ast.Subscript):
            base = T(e.value)
            sl = e.slice
            if isinstance(sl, ast.Slice):
                lo = const_of(T(sl.lower))[1] if sl.lower is not None else None
                hi = T(sl.upper) if sl.upper is not None else None
                hv = const_of(hi)[1] if hi is not None and hi.kind == "const" else hi
                return V("slice", recv=base, value=(lo, hv, sl.step is not None), node=e, ctx=self)
            ok, iv = const_of(T(sl))
            return item(base, iv if ok else None, e, self)
        if isinstance(e, ast.Starred):
            return elem(T(e.value))
        if isinstance(e, ast.IfExp):
            if self._valfn is not None:
                tv = C.eval3(e.test, self._valfn)
                if tv is not None:
                    return T(e.body if tv else e.orelse)
            return alt([T(e.body), T(e.orelse)])
        if isinstance(e, ast.BoolOp):
            return alt([T(x) for x in e.values])
        if isinstance(e, ast.NamedExpr):
            return T(e.value)
        if isinstance(e, (ast.List, ast.Tuple, ast.Set)):
            return V("coll", parts=[("many", T(x.value), x) if isinstance(x, ast.Starred) else ("one", T(x), x) for x in e.elts], node=e, ctx=self)
        if isinstance(e, (ast.ListComp, ast.SetComp, ast.GeneratorExp)):
            return V("coll", parts=[("one", T(e.elt), e)], node=e, ctx=self)
        if isinstance(e, ast.Dict) and all(k is not None for k in e.keys):
            return V("dict", parts=[(T(k), T(v)) for k, v in zip(e.keys, e.values)], node=e, ctx=self)
        if isinstance(e, ast.Lambda):
            return V("lambda", node=e, ctx=self, value=(at, seen, depth))
        if isinstance(e, ast.BinOp):
            l, r = T(e.left), T(e.right)
            if isinstance(e.op, ast.Add):
                (ok1, a), (ok2, b) = const_of(l), const_of(r)
                if ok1 and ok2:
                    try:
                        return V("const", value=a + b, node=e, ctx=self)
                    except Exception:
                        pass
                return alt([l, r])
            return V("binop", type(e.op).__name__, parts=[l, r], node=e, ctx=self)
        if isinstance(e, ast.Call):
            return self._call(e, at, seen, depth)
        if isinstance(e, ast.UnaryOp):
            ok, v = const_of(T(e.operand))
            if ok and isinstance(e.op, ast.USub) and isinstance(v, (int, float)) and not isinstance(v, bool):
                return V("const", value=-v, node=e, ctx=self)
            if ok and isinstance(e.op, ast.Not):
                return V("const", value=not v, node=e, ctx=self)
            return self._leaf("unknown:UnaryOp", e)
        if isinstance(e, ast.Await):
            return T(e.value)
        return self._leaf(f"unknown:{type(e).__name__}", e)

    def _unpack(self, target: ast.AST, name: str, base: V) -> V:
        if isinstance(target, ast.Name):
            return base
        if isinstance(target, ast.Starred):
            return self._unpack(target.value, name, base)
        if isinstance(target, (ast.Tuple, ast.List)):
            for i, t in enumerate(target.elts):
                if name in C.target_names(t):
                    return self._unpack(t, name, item(base, i, target, self))
        return base

    def _name(self, e: ast.Name, at, seen, depth) -> V:
        name = e.id
        if self.f is None or at is None:
            return self._global(name, e, depth)
        cb = self.p._comp_binding(e)
        if cb == "lambda":
            return self.lenv.get(name) or self._leaf(f"param:lambda.{name}", e)
        if cb is not None:
            return self._unpack(cb.target, name, elem(self._value(cb.iter, at, seen, depth + 1)))
        return self._name_at(name, at, seen, depth, e)

    def _global(self, name: str, node, depth) -> V:
        r = self.repo.lookup(self.modname, name)
        if r is None:
            return self._leaf(f"builtin:{name}" if name not in ("str", "re") else f"global:{name}", node)
        if r[0] == "const":
            if depth > 40:
                return self._leaf(f"global:{name}", node)
            return Flow(self.repo, None, home=self.home, modname=r[2])._value(r[1], None, frozenset(), depth + 1)
        if r[0] == "class":
            return self._leaf(f"class:{name}", node)
        if r[0] == "module":
            return self._leaf(f"global:{r[1]}", node)
        if r[0] == "external":
            return self._leaf("global:" + ".".join(x for x in r[1] if x), node)
        return self._leaf(f"global:{name}", node)

    def _name_at(self, name: str, at: int, seen, depth, node=None) -> V:
        if self.f.is_method and name == self.f.self_name and self.rd.defs_reaching(at, name) <= {self.g.entry}:
            return self._leaf("self", node)
        defs = self.rd.defs_reaching(at, name)
        if not defs:
            return self._global(name, node, depth)
        defs = self._live(name, at, defs)
        outs: List[V] = []
        for d in sorted(defs):
            key = (name, d)
            if key in seen:
                continue
            s2 = seen | {key}
            if d == self.g.entry:
                outs.append(self.env[name] if name in self.env else self._leaf(f"param:{name}", node))
                continue
            st = self.g.stmt[d]
            ev = lambda x: self._value(x, d, s2, depth + 1)
            if isinstance(st, ast.Assign):
                for t in st.targets:
                    if name in C.target_names(t):
                        paired = self.p._paired(t, st.value, name)
                        outs.append(ev(paired) if paired is not None else self._unpack(t, name, ev(st.value)))
            elif isinstance(st, ast.AnnAssign) and st.value is not None:
                outs.append(ev(st.value))
            elif isinstance(st, ast.AugAssign):
                prev = self._name_at(name, d, s2, depth + 1, node)
                new = ev(st.value)
                outs.append(V("coll", parts=[("many", prev, st), ("many", new, st)], node=st, ctx=self) if isinstance(st.op, (ast.Add, ast.BitOr)) else
                            V("binop", type(st.op).__name__, parts=[prev, new], node=st, ctx=self))
            elif isinstance(st, ast.For):
                outs.append(self._unpack(st.target, name, elem(ev(st.iter))))
            elif isinstance(st, ast.With):
                for it in st.items:
                    if it.optional_vars is not None and name in C.target_names(it.optional_vars):
                        outs.append(ev(it.context_expr))
            else:
                h = C.header(st)
                found = False
                if h is not None:
                    for n in ast.walk(h):
                        if isinstance(n, ast.NamedExpr) and name in C.target_names(n.target):
                            outs.append(ev(n.value))
                            found = True
                if not found:
                    outs.append(self._leaf(f"unknown:def@{type(st).__name__}", node))
        base = alt(outs) if outs else V("alt", parts=[])
        ckey = ("content", name)
        if name in self._content and ckey not in seen and not (self.f.is_method and name == self.f.self_name):
            parts = [("many", base, node)]
            for mode, arg, call in self._content[name]:
                try:
                    an = self.p.node_of(arg)
                except KeyError:
                    continue
                if defs and not (self.rd.defs_reaching(an, name) & defs):
                    continue
                if self._seen_under is not None and an not in self._seen_under:
                    continue
                parts.append((mode, self._value(arg, an, seen | {ckey}, depth + 1), call))
            if len(parts) > 1:
                return V("coll", parts=parts, node=node, ctx=self)
        return base

    def _live(self, name: str, at: int, defs: set) -> set:
        """the definitions that reach `at` along a path that the valuation allows"""
        if self.G is None or len(defs) < 2:
            return defs
        key = (name, at)
        if key not in self._live_memo:
            g = self.g
            all_defs = {d for d in g.nodes() if g.stmt[d] is not None and name in C.defs_of(g.stmt[d])}
            live = set()
            for d in defs:
                if d != g.entry and d not in self._seen_under:
                    continue
                reach = set()
                for m, _l in g.succ[d]:
                    if m == at:
                        reach.add(m)
                    elif m not in all_defs:
                        reach |= self.G.reach(self.val, avoid=all_defs - {at}, start=m)
                    # (a loop head that re-defines the name is itself a definition: the path ends there)
                if at in reach:
                    live.add(d)
            self._live_memo[key] = live or defs
        return self._live_memo[key]

    # ------------------------------------------------------------------ calls
    def _call(self, e: ast.Call, at, seen, depth) -> V:
        T = lambda x: self._value(x, at, seen, depth + 1)
        fn = e.func
        args = [elem(T(a.value)) if isinstance(a, ast.Starred) else T(a) for a in e.args]
        kw = {k.arg: T(k.value) for k in e.keywords if k.arg}
        cn = self.canon(fn, at)
        if cn is not None:
            if cn in ("list", "tuple", "deque", "set", "dict") and not args:
                return V("coll", parts=[], node=e, ctx=self)
            if cn in ("ord", "chr") and len(args) == 1 and args[0].kind == "const":
                try:
                    return V("const", value=(ord if cn == "ord" else chr)(args[0].value), node=e, ctx=self)
                except Exception:
                    pass
            return V("call", cn, args=args, kw=kw, node=e, ctx=self)
        # a repository function / method that the inliner left in place
        tgt = self._repo_target(e)
        if tgt is not None:
            recv = T(fn.value) if isinstance(fn, ast.Attribute) else None
            out = self._apply(tgt, e, recv, args, kw, depth)
            if out is not None:
                return out
        if isinstance(fn, ast.Attribute):
            recv = T(fn.value)
            # <compiled pattern>.sub(repl, s) == re.sub(pattern, repl, s, flags)
            comps = [x for x in (recv.parts if recv.kind == "alt" else [recv]) if x.kind == "call" and x.recv is None and x.name == "re.compile"]
            if comps and fn.attr in RE_METHODS and len(comps) == len(recv.parts if recv.kind == "alt" else [recv]):
                outs = []
                for c in comps:
                    pat = c.args[0] if c.args else c.kw.get("pattern")
                    flags = c.args[1] if len(c.args) > 1 else c.kw.get("flags")
                    k2 = dict(kw)
                    if flags is not None:
                        k2["flags"] = flags
                    k2["__compiled__"] = V("const", value=True)
                    outs.append(V("call", "re." + fn.attr, args=[pat] + args, kw=k2, node=e, ctx=self))
                return alt(outs)
            ok, tmpl = const_of(recv)
            if ok and isinstance(tmpl, str) and fn.attr == "format" and all(a.kind == "const" for a in args) and all(v.kind == "const" for v in kw.values()):
                try:
                    return V("const", value=tmpl.format(*[a.value for a in args], **{k: v.value for k, v in kw.items()}), node=e, ctx=self)
                except Exception:
                    pass
            return V("call", fn.attr, recv=recv, args=args, kw=kw, node=e, ctx=self)
        if isinstance(fn, ast.Name):
            return V("call", fn.id, args=args, kw=kw, node=e, ctx=self)
        return self._leaf("unknown:call", e)

    def _repo_target(self, call: ast.Call) -> Optional[FuncInfo]:
        if self.f is None:
            return None
        try:
            cat, tg = self.repo.resolve_call(self.f, call)
        except Exception:
            return None
        tg = [t for t in tg if t[1] is not None]
        if cat != "repo" or len({t[1].qn for t in tg}) != 1:
            return None
        return tg[0][1]

    def _apply(self, callee: FuncInfo, call: ast.Call, recv: Optional[V], args: List[V], kw: Dict[str, V], depth: int) -> Optional[V]:
        if callee.qn in self.stack or len(self.stack) > 5 or (self.f is not None and getattr(self.f, "flat_of", self.f).qn == callee.qn):
            return None
        params = list(callee.params)
        env: Dict[str, V] = {}
        if callee.is_method:
            if recv is None:
                return None
            env[params[0]] = recv
            params = params[1:]
        for p_, a in zip(params, args):
            env[p_] = a
        for k, v in kw.items():
            env[k] = v
        flat = flatten(self.repo, callee)
        sub = Flow(self.repo, flat, home=self.home, env=env, stack=self.stack + ((self.f.qn,) if self.f is not None else ()) + (callee.qn,))
        for p_ in params:
            if p_ not in env and p_ in callee.defaults:
                env[p_] = Flow(self.repo, None, home=self.home, modname=callee.mod.name).value(callee.defaults[p_])
        own = [n for n in _own_nodes(flat.node)]
        yields = [n for n in own if isinstance(n, (ast.Yield, ast.YieldFrom))]
        if yields:
            parts = []
            for y in yields:
                if y.value is not None:
                    parts.append(("many" if isinstance(y, ast.YieldFrom) else "one", sub.value(y.value), y))
            return V("coll", parts=parts, node=call, ctx=self)
        rets = [n for n in own if isinstance(n, ast.Return) and n.value is not None]
        if not rets:
            return V("const", value=None, node=call, ctx=self)
        return alt([sub.value(r.value) for r in rets])


def _own_nodes(fn: ast.AST):
    """nodes of a function body without nested function definitions / lambdas"""
    stack = list(ast.iter_child_nodes(fn))
    while stack:
        n = stack.pop()
        yield n
        if isinstance(n, (ast.FunctionDef, ast.AsyncFunctionDef, ast.Lambda, ast.ClassDef)):
            continue
        stack.extend(ast.iter_child_nodes(n))


# --------------------------------------------------------------------------- linearisation
class Op:
    __slots__ = ("kind", "name", "v")

    def __init__(self, kind: str, name: str, v: Optional[V]):
        self.kind, self.name, self.v = kind, name, v

    def __repr__(self):
        return f"{self.kind}:{self.name}" if self.name != "" else self.kind

    @property
    def home(self) -> Optional[FuncInfo]:
        return self.v.ctx.home if self.v is not None and self.v.ctx is not None else None

    def arg(self, i: int, kw: Optional[str] = None) -> Optional[V]:
        v = self.v
        if kw and kw in v.kw:
            return v.kw[kw]
        return v.args[i] if 0 <= i < len(v.args) else None


# which argument of a canonical function call carries the data that flows on (None: the first one)
DATA_ARG = {"re.sub": (2, "string"), "re.subn": (2, "string"), "re.findall": (1, "string"), "re.finditer": (1, "string"), "re.split": (1, "string"),
            "re.match": (1, "string"), "re.search": (1, "string"), "re.fullmatch": (1, "string"), "map": (1, None), "filter": (1, None)}


def chains(v: V, resolve_attr: Callable[[str], Optional[V]], limit: int = 200) -> List[List[Op]]:
    """all operation chains result -> root of a term (each chain ends with an Op 'root')"""
    out: List[List[Op]] = []

    def go(v: V, acc: List[Op], attrs: Tuple[str, ...]):
        if len(out) > limit or len(acc) > 80:
            raise AnalysisError("C11: the value flow of the tokens branches too much to be enumerated")
        k = v.kind
        if k == "alt":
            for x in v.parts:
                go(x, acc, attrs)
        elif k == "coll":
            for m, x, _s in v.parts:
                go(x, acc + [Op("collect", m, v)], attrs)
        elif k in ("elem", "item", "slice", "attr"):
            go(v.recv, acc + [Op(k, v.name if k == "attr" else "", v)], attrs)
        elif k in ("binop", "dict", "lambda"):
            out.append(acc + [Op("root", f"unknown:{k}", v)])
        elif k == "call":
            op = Op("call", v.name, v)
            if v.recv is not None:
                if v.name == "join" and v.args:
                    go(elem(v.args[0]), acc + [op], attrs)
                else:
                    go(v.recv, acc + [op], attrs)
            else:
                i, kwn = DATA_ARG.get(v.name, (0, None))
                data = v.kw.get(kwn) if kwn and kwn in v.kw else (v.args[i] if i < len(v.args) else None)
                if data is None:
                    out.append(acc + [op, Op("root", f"call:{v.name}", v)])
                else:
                    go(data, acc + [op], attrs)
        elif k == "selfattr":
            tgt = resolve_attr(v.name) if v.name not in attrs else None
            if tgt is None:
                out.append(acc + [Op("root", f"self.{v.name}", v)])
            else:
                go(tgt, acc + [Op("attr-store", v.name, v)], attrs + (v.name,))
        elif k == "const":
            out.append(acc + [Op("root", "const", v)])
        else:
            out.append(acc + [Op("root", v.name, v)])

    go(v, [], ())
    return out
